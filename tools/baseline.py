#!/venv/bin/python
"""Run the repository's pinned test suite (in parallel, for development) and compare with BASELINE.json stable_pass."""
import json, subprocess, sys, xml.etree.ElementTree as ET, os
out = sys.argv[1] if len(sys.argv) > 1 else "/var/tmp/vf-baseline.xml"
n = os.environ.get("BASELINE_JOBS", "8")
subprocess.run(["/venv/bin/python", "-m", "pytest", "-q", "-p", "no:cacheprovider", "--timeout=900",
                "--continue-on-collection-errors", "-n", n, f"--junitxml={out}"], cwd="/repo",
               stdout=subprocess.DEVNULL, stderr=subprocess.DEVNULL)
for junk in ("material.mtl", "material_0.png", "shape", "sphere.obj", "models/material.mtl", "models/material_0.png", "models/sphere.obj", "models/shape"):  # by-products the suite leaves in its cwd
    try:
        os.remove(os.path.join("/repo", junk))
    except OSError:
        pass
base = json.load(open("/root/.vp/BASELINE.json"))
passed = set()
for tc in ET.parse(out).getroot().iter("testcase"):
    ok = not any(ch.tag in ("failure", "error", "skipped") for ch in tc)
    if ok:
        passed.add(f"{tc.get('classname')}::{tc.get('name')}")
missing = [t for t in base["stable_pass"] if t not in passed]
print(f"passed={len(passed)} stable_pass={len(base['stable_pass'])} missing_from_stable={len(missing)}")
for t in missing:
    print("  NOT PASSING:", t)
sys.exit(1 if missing else 0)
