#!/venv/bin/python
"""Rewrite section 9 of DESIGN.md (seeded changes) from seeded/*/meta.json: intro with counts + the table of seedtable.py"""
import glob, json, os, subprocess
HOME = os.path.dirname(os.path.dirname(os.path.abspath(__file__)))
p = os.path.join(HOME, "DESIGN.md")
s = open(p).read()
i = s.index("## 9. Independently seeded breaking changes")
metas = [json.load(open(f)) for f in sorted(glob.glob(os.path.join(HOME, "seeded", "*", "meta.json")))]
n = len(metas)
per = {r: [m for m in metas if (m.get("round") or 1) == r] for r in (1, 2, 3, 4)}
def missed(ms):
    return sum(1 for m in ms if (m.get("first_result") or {}).get(m["property"]) == "MISSED" or str(m.get("strengthening", "")).startswith("missed"))
now_missed = [m["property"] for m in metas if m["checks"].get(m["property"]) != "CAUGHT"]
table = subprocess.run(["/venv/bin/python", os.path.join(HOME, "tools", "seedtable.py")], capture_output=True, text=True).stdout
intro = f"""## 9. Independently seeded breaking changes

Each property was given to a fresh sub-agent together with **only the property text** (title, statement, quantifier,
why-tests-cannot, anchors) and its own scratch git worktree of `/repo` (under `/tmp`, removed afterwards); it saw
nothing of `/verif`. It was asked for realistic, subtle changes that compile, pass the existing tests it could run,
and break the property, each with a standalone demonstration that fails with the change and passes without it.
`tools/seedkeep.py` re-confirms the demonstration against a scratch copy of the current tree (`tools/seedtest.py`:
copy of `/repo/trimesh` under `/var/tmp`, diff applied there, `VERIF_REPO=<copy> ./check <ID>`; `/repo` itself is
never modified), runs the property's quick tier and stores `seeded/<ID>-<n>/{{patch.diff, demo.py, meta.json}}`.
None of these diffs was ever committed to `/repo`. Where a later `fix:` commit rewrote the lines a stored diff
touches, the diff was re-based by hand onto the repaired function (same edit; `--stored` in seedkeep).

Four rounds were run for every property (two changes per property in rounds 1, 2 and 4, three in round 3); from round 2 on the agents were told which files / functions the earlier rounds had used (and in round 3 that the harness had been
strengthened against all of them), so that they would look elsewhere. **{n} changes** were produced
({len(per[1])} + {len(per[2])} + {len(per[3])} + {len(per[4])}; a few are the same edit found twice independently).
**{missed(per[1])} of round 1, {missed(per[2])} of round 2, {missed(per[3])} of round 3 and {missed(per[4])} of round 4 were missed by the first
version of the check they were aimed at** (`first_result` in meta.json) — the harder the agents were pushed away from
the obvious places, the more they found. In every such case the generator, the history alphabet or the oracle's
reach was widened for the *class* the change stands for — never for the edit itself: the strengthened checks name no
file, function or constant of the diff — the quiet runs on `/repo` were repeated at several seeds, and the change
was re-tested. {"All " + str(n) + " are now CAUGHT by the quick tier of their property." if not now_missed else str(n - len(now_missed)) + " of " + str(n) + " are now CAUGHT by the quick tier of their property; still open: " + ", ".join(sorted(now_missed)) + "."}

What the misses had in common, and what was done about each kind:

* *a trigger value the generator never drew* (exact zeros / ones / False in parameters, magnitudes above 2^53,
  non-unit quaternions, NaN next to 0 on a lattice, bodies 1000x smaller than their neighbours, offsets 10^6 x the
  size, runs that are exact multiples of 255, concave curves and holes, scale decades 1e-9 .. 1e9, skew bases with
  equal column norms, whole-number uv offsets, corrections of 1e-5 relative size): value pools now contain the
  boundary values of the *documented* domain, and every such pool has a required histogram class so that a vacuous
  run exits 2;
* *a way of writing the argument the generator never used* (int32 / float32 / integer-typed matrices, lists,
  read-only, Fortran-ordered and strided arrays, boolean masks, repeated and negative indices, optional keyword
  arguments, alternative engines): arguments are now passed in every representation that holds the same numbers, and
  the caller's arrays must come back untouched and unaliased;
* *a history shape the alphabet could not spell* (view held across a replace, array-level hash read between edit and
  container hash, exact there-and-back edits, delete / re-add, three-operand sums, query A before query B on the
  same object, edit-then-copy without a read, re-use of the caller's buffer, the same edit on every geometry of a
  scene, populations of objects sharing defaults, reads on a warm object across transforms, the value read *first*
  after a mutator): new operations / sub-checks, enumerated at depth 1-2 and drawn in the Hypothesis histories;
* *an input family delegated to another property* (C08 had left binvox and path round trips to C13 / C14 and flat
  scene formats out; C15 had left mirrored `apply_transform` to C04; C10 had no planar paths in scenes): each check
  now covers everything its own property text quantifies over;
* *an oracle blind to the symptom* (C20 measured resident memory only, so a 2 GB buffer requested and never touched
  was invisible, and compared times with a fixed budget, so quadratic behaviour at 3 MB was invisible; C17's snapshot
  skipped some fields; C20 discarded the answers of confirmation runs; C09's harness skipped small edge changes
  itself): the oracle was extended (peak virtual size, N-versus-4N scaling, full snapshots, confirm-run answers are
  judged).

The strengthenings exposed further genuine defects on the unchanged tree, each fixed and ledgered (section 7.1): cache
carried over unverified, empty face list stored as shape (0,), NaN / inf vertices merged with each other, kdtree
aliasing a replaced vertex array, zip member size trusted, `array.real = v` not tracked, boolean_rows on
non-contiguous input, Scene.scaled / convex_hull / volume with planar paths, crosses / center_mass used as passed,
angles of triangles with coincident corners, two scale_from_matrix precision defects; and one more `known:` finding
(a flat iterator kept across a hash read). The italic notes in the table say what was missing and what was added.

"""
open(p, "w").write(s[:i] + intro + table)
print(n, [len(per[r]) for r in (1, 2, 3, 4)], [missed(per[r]) for r in (1, 2, 3, 4)], now_missed)
