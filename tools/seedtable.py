#!/venv/bin/python
"""Print the markdown table of seeded changes (DESIGN.md section 9) from seeded/*/meta.json"""
import glob, json, os, re
HOME = os.path.dirname(os.path.dirname(os.path.abspath(__file__)))
rows = []
for f in sorted(glob.glob(os.path.join(HOME, "seeded", "*", "meta.json"))):
    m = json.load(open(f))
    name = os.path.basename(os.path.dirname(f))
    diff = open(os.path.join(os.path.dirname(f), "patch.diff")).read()
    files = sorted(set(re.findall(r"^\+\+\+ b/(\S+)", diff, re.M)))
    need = re.sub(r"\s+", " ", m.get("summary") or m["needs_to_manifest"])[:260]
    if m.get("strengthening"):
        need += " — *" + m["strengthening"] + "*"
    rows.append(f"| `{name}` | {', '.join(files)} | {need} | {', '.join(f'{k}: {v}' for k, v in m['checks'].items())} |")
print("| seeded change | touches | what it needs to manifest (from the author's notes) | result of `./check` (quick tier) |")
print("|---|---|---|---|")
print("\n".join(rows))
