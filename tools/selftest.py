#!/venv/bin/python
"""Sensitivity self-test: apply each mutant of mutants/<ID>.json to a scratch copy of /repo/trimesh and
require `./check <ID> --tier quick` to exit 1 with a VIOLATION line.   usage: tools/selftest.py C06 [C05 ...] [-k name]
A mutant is {"name":..., "file": "trimesh/grouping.py", "old": "...", "new": "..."} (exact, unique substring)."""
import json, os, shutil, subprocess, sys, tempfile, time
from concurrent.futures import ThreadPoolExecutor

HOME = os.path.dirname(os.path.dirname(os.path.abspath(__file__)))

def run_one(pid, m, seed="1"):
    base = tempfile.mkdtemp(prefix="vf-mut-", dir="/var/tmp")
    try:
        shutil.copytree("/repo/trimesh", os.path.join(base, "trimesh"), ignore=shutil.ignore_patterns("__pycache__"))
        path = os.path.join(base, m["file"])
        s = open(path).read()
        if s.count(m["old"]) != 1:
            return m["name"], "BAD-MUTANT", f"old string occurs {s.count(m['old'])} times"
        open(path, "w").write(s.replace(m["old"], m["new"]))
        env = dict(os.environ, VERIF_REPO=base, VERIF_SEED=seed, VERIF_EVIDENCE_DIR=os.path.join(base, "ev"),
                   VERIF_REPLAY_OUT=os.path.join(base, "ro"), VERIF_JOBS=os.environ.get("SELFTEST_JOBS", "8"))
        t0 = time.time()
        r = subprocess.run([os.path.join(HOME, "check"), pid, "--tier", "quick"], env=env, capture_output=True, text=True)
        out = r.stdout + r.stderr
        sigs = sorted({l.strip()[:160] for l in out.splitlines() if l.strip().startswith("violation:")})
        status = "CAUGHT" if (r.returncode == 1 and "VIOLATION property=" + pid in out) else ("HARNESS" if r.returncode == 2 else "MISSED")
        return m["name"], status, f"{time.time()-t0:.0f}s " + (" || ".join(sigs[:2]) if status == "CAUGHT" else out[-600:] if status == "HARNESS" else "")
    finally:
        shutil.rmtree(base, ignore_errors=True)

def main():
    args = sys.argv[1:]
    only = None
    if "-k" in args:
        i = args.index("-k"); only = args[i + 1]; args = args[:i] + args[i + 2:]
    rc = 0
    for pid in args:
        muts = json.load(open(os.path.join(HOME, "mutants", pid + ".json")))
        if only:
            muts = [m for m in muts if only in m["name"]]
        with ThreadPoolExecutor(max_workers=int(os.environ.get("SELFTEST_PAR", "2"))) as ex:
            for name, status, info in ex.map(lambda m: run_one(pid, m), muts):
                print(f"{pid} {name:40s} {status:10s} {info}", flush=True)
                if status != "CAUGHT":
                    rc = 1
    sys.exit(rc)

main()
