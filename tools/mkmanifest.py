#!/venv/bin/python
"""Regenerate /verif/MANIFEST.json from the per-property table below + the property modules that exist."""
import json, os, subprocess, sys

HOME = os.path.dirname(os.path.dirname(os.path.abspath(__file__)))
PROPS = [json.loads(l) for l in open(os.path.join(HOME, "properties.jsonl"))]

META = {
    # id: (technique, level text, level_note, design_ref)
    "C01": (
        "model-based history generation (reads x mutators) with a cold-reconstruction oracle: enumerated depth-1 matrix warm-set x mutator x start mesh + hypothesis histories",
        "Generated search over read/mutate histories of a live Trimesh: a complete depth-1 matrix (warm set in {nothing, each of 50 derived values alone, everything} x 43 mutator variants incl. every matrix class, masks, in-place edits, copies x 4 start meshes; all-warm/cold columns complete in the quick tier, a seeded quarter of single-warm cells) plus a squared family of core mutators and Hypothesis histories of <=10 steps; after the history every registered value (normals, areas, mass properties, bounds, edges, adjacency, watertightness, facets, hull, ray / nearest / contains answers on fixed queries) must equal the value of a mesh freshly built from copies of the current arrays and overrides. Exploration only. Added after independent seeding: there-and-back edits (bit-exact inverse edit after reads) on raw / processed / copied / moved objects, an 80-face holed start mesh, skew equal-norm bases, read order varied per case, query -> edit -> query-read-first cases for the accelerated (ray / proximity) values.",
        "The cold mesh runs the same trimesh code, so this decides history-independence (the property), not correctness of each value (C03/C05/C12 do that). Matrices stay away from the 1e-8/1e-6 shortcuts; user-assigned vertex normals excluded; vertex normals after merge_vertices compared at the documented digits_norm precision.",
        "DESIGN.md section 4 C01",
    ),
    "C02": (
        "hypothesis-generated programs of numpy operations over a tracked array and its views + enumerated route x target table, oracle = hash of a fresh array with the same bytes",
        "Generated search: programs (<=14 steps) of hash reads, view creation, 46 mutating routes and read-only operations over a TrackedArray root and every view derived from it, with hash(x)==hash_fast(x.tobytes()) checked on drawn subsets after each step and on everything at the end; a complete enumeration of route x write target (root/view/view-of-view, 20 view chains) x which members were hashed before x the 6 dtype/shape kinds trimesh stores; the same routes applied to mesh.vertices/faces, path.vertices, colour arrays with the container hash compared to a freshly built object. Does not prove absence for routes not in the table. Added after independent seeding: chained view expressions whose intermediate is garbage, failing partial writes, attribute setters (real), a kept flat iterator (known finding), array-level hash reads between edit and container hash, re-assignment of the same array through the property setter with writes through the old handle, further holders built on the same arrays.",
        "Trusts the hash function; writes through plain-ndarray escapes (.view(np.ndarray), np.asarray, memoryview) and writes into the user array a TrackedArray was created from are outside the domain (see evidence assumptions).",
        "DESIGN.md section 4 C02",
    ),
    "C07": (
        "hypothesis 'dirty' tagged meshes (duplicate / unreferenced / non-finite vertices, repeated and degenerate faces) x re-indexing operations and options; tag-tracking oracle mapping every output element back to its source",
        "Generated search: meshes whose faces, vertices, colours, attributes, uv and cached normals carry a unique encoding of the original element index are put through merge_vertices (all option combinations, vertices exactly equal / inside / straddling / outside the merge cell), update_faces (bool / int / repeated int masks), update_vertices, remove_unreferenced_vertices, unmerge_vertices, remove_infinite_values, unique / nondegenerate face masks, process, submesh, split, concatenate / + / sum and the processing constructor; every output face is traced to a source face: corner positions (exact, or within the merge tolerance), relative order, per-face and per-vertex data, index validity, merge soundness and completeness, split + concatenate = original triangle multiset. Exploration only.",
        "data an operation documents as not carried may be absent, never misaligned; attribution is only asserted where repeated faces leave it unambiguous.",
        "DESIGN.md section 4 C07",
    ),
    "C08": (
        "hypothesis geometries x exporter/option grid x loader entry x transport; storage-rule oracle (float32 cast / fixed decimals / exact) compared triangle by triangle in order, independent byte decoders for STL/OFF, purity and determinism checks",
        "Generated search: single faces, soups with all-distinct vertices, pool solids, coordinates from 1e-30 to 1e30, face / vertex colours, PLY attributes, >=65536 vertices (index width), coloured point clouds, nested instanced scenes, through stl, stl_ascii, ply (binary/ascii, normals, attributes), off, obj (option sets), glb, gltf (file dict + resolver, merge_buffers), 3mf, dae, dict, dict64, xyz and back through load / load_mesh / load_scene from a stream and from a file path with process=False; loaded.triangles[i] must equal the format's storage rule applied to source.triangles[i] for every i in order (bit-exact where the rule is a cast or lossless), counts, colours, attributes and instance placement preserved, the source hash/bytes unchanged by export and two exports identical. A complete grid covers format x option set x entry x transport x colour kind on one asymmetric mesh. Exploration only. Added after independent seeding: binvox round trips of cubic and non-cubic grids with runs around 255 and its multiples (dense / RLE / BRLE backing, both axis orders), dxf / svg / dict entity round trips of lines, arcs and circles, scenes exported to the flat formats (stl, ply) and single-instance scenes.",
        "storage rules were read from the exporters (see evidence assumptions); DAE compared at a declared relative 2e-6 because it goes through pycollada.",
        "DESIGN.md section 4 C08",
    ),
    "C09": (
        "model-based stateful generation (operation histories interpreted against a dict-of-parent reference forest), all-pairs path-product oracle after every step, plus enumeration of short structural histories",
        "Generated histories (<=14 steps; update by matrix/quaternion/axis-angle/translation, re-parent, remove_node, base-frame change, graph[x]=M, remove_geometries, copy, edge-list round trip) applied to a real SceneGraph and to a reference forest; after every step get(to, from) for every ordered pair of live frames must equal the explicit product of current edge matrices along the path (ValueError iff disconnected), plus the group laws and structure queries (children, successors, nodes_geometry, to_flattened, to_edgelist). An enumerated family of 6-step structural histories over 3 names covers every short re-parent/remove/re-add interleaving. Exploration: no absence proof. Added after independent seeding: non-unit quaternions / axes, tiny relative corrections of stored edges (nudges), re-use of the caller's matrix buffer after every update.",
        "Histories stay within forests (no cycles) and query only existing frames; matrices are kept away from the documented 1e-8/1e-5 numeric shortcuts; numpy linear algebra trusted.",
        "DESIGN.md section 4 C09",
    ),
    "C03": (
        "exhaustive enumeration of integer tetrahedra/pillows on small grids (unisolvent for the degree<=3 moment polynomials) + hypothesis closed surfaces, exact rational oracle (fractions.Fraction signed tetrahedra)",
        "Generated search against an exact-arithmetic oracle written from a different derivation (signed tetrahedra from the origin): every tetrahedron with vertex coordinates in {0,1}^12 and a seeded quarter of {0,1,2}^12 (quick) / all of {0,1,2,3}^12 = 16.7M (thorough) passed alone to triangles.mass_properties with integrals compared at 1 ulp; Hypothesis closed oriented surfaces of any genus, several bodies, overlapping shells, integer and float coordinates at scales 1e-6..1e6, random face order/rotation, densities, centre-of-mass overrides and rigid frames compared at 64 eps x a majorant of the summed terms. The grid enumeration is complete for the generating polynomial family; the step to all real inputs is an argument in DESIGN.md, not machine checked, so the level stays exploration.",
        "python Fraction/int arithmetic trusted; override semantics as coded and documented (parallel-axis about the override); centre of mass only compared when the volume is well conditioned.",
        "DESIGN.md section 4 C03",
    ),
    "C04": (
        "hypothesis generators over geometry kind x matrix class x cached state x entry point; oracle = homogeneous multiply + metamorphic relations (inverse, composition, |det| volume, tensor law)",
        "Generated search: meshes (solid/open, colours, attributes, metadata, optional centre-of-mass override), point clouds, 2D/3D paths (lines, arcs under similarities), Box/Sphere/Cylinder/Capsule/Extrusion primitives, nested instanced scenes and voxel grids are transformed by matrices of every class (rigid, similarity, mirror, negative uniform scale, anisotropic, shear, general affine, near-identity either side of the 1e-8/1e-6 shortcuts) through apply_transform/apply_scale/apply_translation with derived values read before or not; every point must move to M.p, faces reverse iff det<0, nothing else changes, M then M^-1 restores, A then B equals B.A, and for solids volume/centre of mass/normals/area/inertia follow the stated laws. Exploration only. Added after independent seeding: extreme-scale mirrors, drawn extra warm reads with a cold comparison of every derived value, voxel bounds / extents / volume / index maps of the moved grid.",
        "float64 matrix arithmetic trusted; tolerances derived from eps, |M|, |p| and the conditioning of the surface integrals; primitives may reject non-similarities with ValueError but must then be unchanged.",
        "DESIGN.md section 4 C04",
    ),
    "C05": (
        "exhaustive enumeration of all face arrays with <=2 faces (quick) / <=3 faces (thorough) over 4 indices + hypothesis face soups and relabelled manifold pool, plain-python counting oracle",
        "Generated search with a dictionary/Counter/union-find oracle written from the definitions: every face array with F<=2 over 4 vertex indices (all 64 triples per face: repeated indices, repeated faces, non-manifold fans) with V and V+1 vertices complete, a seeded 1/19 of F=3 (quick) or all 524,288 (thorough), Hypothesis soups F<=14 over V<=9, and closed/open/multi-body manifold templates under relabelling, face permutation, rotation, deletion and duplication; 20 cached properties read in a seeded order plus the free functions of trimesh.graph/geometry on both engines (scipy, networkx); angle-defect sum on closed manifolds. Exploration: the enumerated sub-domains are complete.",
        "vertex positions are generic random so no geometric degeneracy interferes; a vertex may be its own neighbour only where a loop edge (v,v) exists (both readings of the docstring accepted).",
        "DESIGN.md section 4 C05",
    ),
    "C06": (
        "hypothesis generators aimed at bit-packing limits + exhaustive enumeration of short sequences, dict/tuple grouping oracle",
        "Generated search with an independent element-by-element oracle: Hypothesis integer/float row arrays built around the 2^15/2^20/2^31/2^63 packing limits for every column count and dtype, plus complete enumeration of blocks() over all sequences of length<=7 (quick) / <=9 (thorough) on a 3-letter alphabet x every option combination. Does not prove absence; the enumerated sub-domains are complete. Added after independent seeding: distinct neighbours up to 2^63, every row array in C / Fortran / transposed / strided / read-only / list form, operands of boolean_rows in their own integer dtypes.",
        "Trusts numpy, python dict/tuple equality as the definition of row equality; float rows are generated away from rounding boundaries.",
        "DESIGN.md section 4 C06",
    ),
    "C10": (
        "hypothesis-generated scenes (random frame forests, instancing, mixed geometry kinds) x operations and edit histories; explicit-placement oracle with own area / volume / moment formulas; one fixed nested scene x every operation enumerated",
        "Generated search: scenes with a random forest of frames (rigid and similarity edges, depth<=4), meshes / point cloud / 3D path instanced 0..n times, optionally followed by graph edits, in-place edits of shared geometry, add/delete geometry with reads in between; bounds, extents, centroid, scale, triangles (+node attribution), area, volume, center_mass, moment_inertia, convex hull, dump, to_mesh are recomputed by placing a copy of every geometry at every referencing node with the world transform from our own forest model (own signed-tetrahedra integrals); copy, scaled(scalar | per axis), rezero, convert_units, apply_transform, a+b and subscene must keep (scale / move) the multiset of placed triangles and leave the source byte-identical. Exploration only. Added after independent seeding: vertices-only geometry, delete / re-add, sums of three and four scenes with identical node names, twin geometries with equal content edited alike, planar paths (Path2D) instanced in and out of their plane.",
        "edge transforms are rigid or positive similarities; meshes without unreferenced vertices; scipy ConvexHull trusted for the reference hull volume.",
        "DESIGN.md section 4 C10",
    ),
    "C11": (
        "hypothesis meshes (rotated and integer-lattice versions) x planes aimed at vertices / edge midpoints / lattice points with integer normals so every sign pattern is produced on purpose; own oracle (exact signs, per-triangle interpolation, Sutherland-Hodgman clipping, point-triangle distance, volume / area)",
        "Generated search: convex, non-convex, genus-1, multi-body and open meshes cut by general-position planes and by planes through vertices / edges with exact-zero dot products (all 10 triangle_cases codes and all 27 ordered sign patterns reached, measured), single planes, plane lists, section_multiplane, face subsets, cap engines earcut / triangle / manifold: section points on plane and on the named triangle, section equals the per-triangle intersection when no edge lies in the plane, closed loops on watertight meshes in general position, area(+)+area(-)=area with output triangles inside source triangles, capped volumes add up and halves of convex solids are watertight, multiplane equals single sections, subsets select. Exploration only.",
        "exact clauses demanded only when the case is numerically resolved (documented tol.merge snapping windows excluded); path merge tolerance 1e-5 x scale allowed for closedness.",
        "DESIGN.md section 4 C11",
    ),
    "C12": (
        "hypothesis meshes under similarity placement with rays / query points built by construction in general position (margin filters with reported discard rate); brute-force oracle over all triangles (Moller-Trumbore, Ericson closest point, generalized winding number); both ray engines",
        "Generated search: pool meshes at scales 1e-3..1e4 and far offsets; rays aimed at triangle interiors from inside / outside / far origins, axis-aligned rays and misses, kept only when every brute-force hit is a fixed margin from edges, grazing and the origin; native and embree engines, single and multiple hits: the set of (ray, triangle) hits, locations on ray and triangle, first hit = nearest, any = non-empty, engines agree; contains vs winding number; nearest.on_surface / vertex / signed_distance vs the minimum over all triangles with the documented sign. Exploration only.",
        "embree tolerances derived from float32 resolution of the scaled scene; surface distance compared at tol.merge (the tie rule pinned by tests/test_proximity.py).",
        "DESIGN.md section 4 C12",
    ),
    "C13": (
        "exhaustive enumeration of short boolean/integer sequences (also inflated across the count-dtype maxima) and of all small boolean arrays x encoding classes x lazy view chains, pure-python reference codec and numpy-on-dense oracle; hypothesis for grids and binvox",
        "Generated search: every runlength.py function over all boolean sequences of length<=11 and integer sequences over {0,1,2,5} of length<=5, each also inflated by k in {254,255,256,300,510,511} (and 65535/65536) for count dtypes uint8/int8/uint16/int64 with list/ndarray, sorted/unsorted/repeated/empty index sets, against a 15-line reference codec and the docstrings' dense expressions; every read API of Dense/Sparse/RunLength/BinaryRunLength encodings built from all 4096 boolean arrays of shape (2,3,2) and smaller shapes, composed with flip/transpose/reshape/flat views to depth 2 (3 sampled; complete in thorough), against numpy on the represented array; VoxelGrid index<->point maps, volume, is_filled and binvox export/reload under generated transforms. The enumerated sub-domains are complete; otherwise exploration.",
        "numpy on the dense array is the oracle; documented 1e-8 identity shortcut of transforms allowed for; zero-length runs emitted by the encoders are lossless and only counted.",
        "DESIGN.md section 4 C13",
    ),
    "C14": (
        "hypothesis drawings constructed with known nesting (star polygons in grid cells, concentric bands to depth 4, optional arcs) and their variants (random splitting into entities, permutation, reversal, duplicated joints); construction oracle + metamorphic equality between variants, cold reconstruction under transforms, dxf / svg / dict round trips",
        "Generated search: families of disjoint / nested simple closed curves built so that polygon count, body count, shell->hole nesting, shoelace area (+ circular segments) and perimeter are known exactly; every variant (curves cut into k polyline / arc entities, entities permuted and individually reversed, joints shared or duplicated) must rebuild the same polygons, nesting, area and length (1e-9 for polygons; documented discretisation slack for arcs); similarity transforms incl. mirrors applied after any subset of derived values was read must equal a cold path on the transformed vertices with area*s^2 and length*s; export and re-import through dxf, svg and dict preserve counts, nesting, area and length to the format's coordinate precision. Exploration only.",
        "regions smaller than the documented path merge tolerance (tol_path.merge x scale) are not generated; arc segment counts depend on Path.scale, so arc quantities get discretisation slack under rotations.",
        "DESIGN.md section 4 C14",
    ),
    "C15": (
        "hypothesis parameter generators for every creation function and primitive (incl. minimum section counts, partial revolutions, holes, mirrored placements) + stateful parameter-edit sequences; closed-form oracles (inscribed n-gon prisms / pyramids, polygon moments, smooth limits)",
        "Generated search: box, icosphere, uv_sphere, cylinder, cone, capsule, annulus, torus, extrusions of polygons with holes (+-height), revolutions incl. partial with caps, sweeps along open/closed paths, the three triangulation engines, and the Box/Sphere/Cylinder/Capsule/Extrusion primitives for parameters across their valid ranges with rigid and mirrored placements; every result must be watertight, consistently wound, positive, of the right Euler number and single-bodied, with volume / area / bounds / inertia equal to independent closed forms for the tessellation (exact for flat-faced shapes, inscribed-polygon formulas for revolved ones, convergence for curved ones); after every edit in a sequence of primitive parameter edits the mesh must equal that of a fresh primitive. Exploration only.",
        "closed forms written independently in vf/oracle/c15_solids.py; near-identity placements replaced by identity (C04 covers that regime); sweep frame twist near +-Z accepted as documented behaviour.",
        "DESIGN.md section 4 C15",
    ),
    "C16": (
        "hypothesis point sets and meshes aimed at ties (lattice subsets, coplanar / cocircular, flat-ish, far offsets) + exhaustive enumeration of all subsets of small lattices; containment / rigidity / tightness predicates and an own Welzl minimal-ball oracle",
        "Generated search: Gaussian / uniform / lattice / clustered / flattened point sets and pool meshes at scales 1e-3..1e6 and offsets to 1e6, 2-D and 3-D, plus every subset of the cube corners and of a 3x3 planar grid (also embedded in 3-D); convex_hull must be watertight, consistently wound, positive, convex, made of input points and contain every input point; bounds exact; oriented boxes rigid (det +1), tight and centred; bounding sphere / cylinder / primitive contain all points, and the sphere equals the Welzl minimum for general-position clouds. Exploration; the enumerated tie families are complete.",
        "qhull is trusted only through the checked predicates; tolerances 64 eps M + 1e-12 diam scaled by face conditioning; sets with a closest pair under 2e-8 (tol.merge) skipped; Welzl oracle validated against brute force.",
        "DESIGN.md section 4 C16",
    ),
    "C17": (
        "enumerated grid (geometry kind x copy method x edited side x every single edit) + hypothesis edit histories; behavioural snapshot oracle",
        "Generated search: every geometry kind in a drawn state (Trimesh cold/warm with colour/texture/PBR visuals, attributes, nested metadata; Box/Sphere/Cylinder/Capsule/Extrusion with non-default parameters; Path2D/3D; PointCloud; nested instanced Scene; VoxelGrid of each encoding) is copied by .copy() (each keyword form), copy.copy and copy.deepcopy; the copy's snapshot (geometry, parameters, visuals, metadata, attributes, derived values) must equal the original's, copying must not change the original, and after each of a drawn sequence of in-place / API edits of one side the other side's snapshot must be unchanged. A complete grid covers kind x copy method x side x each single edit. Exploration only. Added after independent seeding: unread in-place edits before the copy, in-place edits of primitive arrays, PBR materials with exact zeros, sparse grids with empty far planes, extrusion profiles that need 17 digits.",
        "Verdict is behavioural (snapshots), so sharing of read-only cached arrays is allowed; texture image buffers compared by content only.",
        "DESIGN.md section 4 C17",
    ),
    "C18": (
        "exhaustive enumeration of all face re-winding subsets of small solids and of single/adjacent-pair holes + hypothesis for larger meshes, subdivision parameters; independent array-level oracle (edge incidence, per-body signed volume, barycentric containment, reference Loop step)",
        "Generated search: all 2^F flip subsets of tetrahedron, octahedron, box and a two-body mesh x the three fix_normals modes (the box x explicit multibody modes strided in the quick tier), structured and random subsets on larger 1-3 body / genus 0-1 meshes through fix_normals, repair.fix_normals and process(validate=True); every single-face and adjacent-pair hole on 12 templates plus generated multi-hole cases through fill_holes; subdivide (all / subsets / repeated), subdivide_to_size (edge bound, containment in the source face, ValueError contract) and subdivide_loop (1-3 iterations, closed / boundary / chord / non-manifold boundary) against an oracle computed on the raw arrays. Enumerated families complete; otherwise exploration.",
        "quad holes with three collinear corners and meshes with fewer than 3 faces left are skipped (documented early exits of fill_holes).",
        "DESIGN.md section 4 C18",
    ),
    "C19": (
        "exhaustive enumeration of 24 Euler conventions x special-angle grid^3 and quaternion / slerp / TRS / alignment grids + hypothesis; oracles from definitions (elementary rotation products, Rodrigues, Hamilton product, homogeneous multiply)",
        "Generated search: every Euler axis convention x 17 special angles cubed (31 cubed in thorough) for euler_matrix / euler_from_matrix / quaternion_from_euler / euler_from_quaternion against explicit products of elementary rotations (round trips compared as matrices), rotation_matrix / rotation_from_matrix, all quaternion functions on grids that drive each largest-diagonal branch and both signs, slerp, compose/decompose of TRS(+shear) incl. gimbal and near-gimbal, transform_points 2D/3D either side of the identity shortcut, transform_around, planar matrices, scale_and_translate, is_rigid / fix_rigid, align_vectors and plane_transform; every produced rotation orthonormal with det +1. Enumerated grids complete; otherwise exploration.",
        "tolerances 1e-14..1e-12 by chain length with a capped allowance near singular branches; planar_matrix sense as used by oriented_bounds_2D.",
        "DESIGN.md section 4 C19",
    ),
    "C20": (
        "systematic fault injection over valid seed files (every truncation / strided byte, word, integer-field, chunk faults) + hypothesis byte strings, each input loaded in an isolated worker under address-space and CPU limits; outcome oracle (ordinary exception or result, CPU, peak memory, descriptor table)",
        "Fault enumeration: seeds from the tree's own exporters (stl, stl_ascii, ply, off, obj, glb, gltf, 3mf, dae, xyz, binvox, dxf, svg, zip) and small bundled models (3dxml, xaml, ...) x truncation offsets, single-byte faults, aligned 32-bit words set to 0xFFFFFFFF/0x7FFFFFFF/0x80000000/0, ascii integers replaced by huge / negative values, chunk delete / duplicate / swap / 2000-fold repetition, splices, plus generated byte strings, through load / load_mesh / load_scene / load_path by stream and by file path in a separate process with RLIMIT_AS and a CPU timer. Outcome must be a result or an ordinary Exception within 5 s + 2 ms/byte CPU (slow cases re-run alone twice, doubled budget, before counting), peak memory growth <= 64 MiB + 2000 x input length, and no descriptor left open. The strided grid is complete for the quick tier's stride; all offsets for files <= 4 kB in the thorough tier. Added after independent seeding: pairs of word faults in the first 32 bytes, single-digit integer tokens +-1 (indices into other tables), faults applied to documents inside zip containers with the archive rebuilt, nested instanced scene seeds, a jump of the peak virtual size as a memory symptom (RLIMIT_AS = baseline + 1 GiB), and a scaling sub-check: the same relative fault in files of N and 4 N faces must keep CPU time and memory proportional.",
        "termination decided up to the CPU budget; third-party parser families (meshio, cascadio, openctm) not fuzzed; no coverage-guided fuzzing (atheris not importable in /venv; numpy / lxml parsers give no coverage signal).",
        "DESIGN.md section 4 C20",
    ),
}

def main():
    checks, na = [], []
    for p in PROPS:
        pid = p["id"]
        mod = os.path.join(HOME, "vf", "props", pid.lower() + ".py")
        if os.path.exists(mod) and pid in META:
            tech, text, note, ref = META[pid]
            level = "fault_enumeration" if pid == "C20" else "exploration"
            checks.append({
                "property_id": pid,
                "quick_cmd": f"./check {pid} --tier quick",
                "thorough_cmd": f"./check {pid} --tier thorough",
                "evidence_file": f"/verif/evidence/{pid}.json",
                "replay_cmd_template": f"./check {pid} --replay {{path}}",
                "engine": "vf",
                "level_claimed": {"category": level, "text": text, "design_ref": ref},
                "level_note": note,
                "technique": tech,
            })
        else:
            na.append({"property_id": pid, "reason": "check not built yet in this session (planned, see DESIGN.md section 8); not claimed until its check is registered"})
    fixes = subprocess.run(["git", "-C", "/repo", "log", "--format=%h %s"], capture_output=True, text=True).stdout.splitlines()
    man = {
        "version": 1,
        "setup_cmd": "bash ./setup.sh",
        "hooks": {
            "guard": "TRIMESH_VERIF",
            "enable": "no source hooks are needed: trimesh is pure python imported from /repo's working tree; ./check sets TRIMESH_VERIF=1 and PYTHONPATH=/repo",
            "baseline_off_cmd": "cd /repo && /venv/bin/python -m pytest -ra -q -p no:cacheprovider --timeout=900 --continue-on-collection-errors",
            "source_commits": [],
            "add_only": True,
        },
        "engines": [{
            "name": "vf",
            "path": "/verif/vf",
            "serves_properties": [c["property_id"] for c in checks],
            "kind_free_text": "property-based testing: Hypothesis generators + exhaustive enumeration of small finite sub-domains + (C20) systematic fault injection, each against an explicit independent oracle; 16-way process sharding; JSON replay files",
        }],
        "checks": checks,
        "not_applicable": na,
        "notes": "Genuine defects found by the checks are repaired by unguarded 'fix:' commits in /repo or listed in /verif/KNOWN_FINDINGS.txt; fix commits so far: " + "; ".join(f for f in fixes if " fix:" in f),
    }
    json.dump(man, open(os.path.join(HOME, "MANIFEST.json"), "w"), indent=1)
    print("claimed:", [c["property_id"] for c in checks], "not_applicable:", len(na))

main()
