#!/venv/bin/python
"""tools/seedkeep.py <worktree dir> <ID> <n> : confirm seed<n>.diff (demo fails with it, passes without), run ./check <ID>
against it and store everything under seeded/<ID>-<n>/ with meta.json."""
import json, os, re, shutil, subprocess, sys
HOME = os.path.dirname(os.path.dirname(os.path.abspath(__file__)))
wt, pid, n = sys.argv[1], sys.argv[2], sys.argv[3]
extra = sys.argv[4:]
out_n = n
if "--as" in extra:  # store seed<n> of the worktree as seeded/<ID>-<out_n> (later rounds)
    i = extra.index("--as"); out_n = extra[i + 1]; extra = extra[:i] + extra[i + 2:]
dst = os.path.join(HOME, "seeded", f"{pid}-{out_n}")
old = json.load(open(os.path.join(dst, "meta.json"))) if os.path.exists(os.path.join(dst, "meta.json")) else {}
os.makedirs(dst, exist_ok=True)
stored = "--stored" in extra  # re-test the patch already stored (e.g. re-based onto a repaired function)
if stored:
    extra.remove("--stored")
else:
    shutil.copy(os.path.join(wt, f"seed{n}.diff"), os.path.join(dst, "patch.diff"))
    shutil.copy(os.path.join(wt, f"demo{n}.py"), os.path.join(dst, "demo.py"))
r = subprocess.run([os.path.join(HOME, "tools", "seedtest.py"), os.path.join(dst, "patch.diff"), pid] + extra, capture_output=True, text=True)
out = "\n".join(l for l in (r.stdout + r.stderr).splitlines() if "condarc" not in l)
print(out[:1500])
notes = open(os.path.join(wt, "NOTES.md")).read() if os.path.exists(os.path.join(wt, "NOTES.md")) else ""
# the section of NOTES.md about this seed
sec = re.split(r"\n#+ ", notes)
mine = [x for x in sec if re.match(rf".*(seed ?{n}|change {n}|#{n})", x[:80], re.I | re.S)]
prop = [json.loads(l) for l in open(os.path.join(HOME, "properties.jsonl")) if json.loads(l)["id"] == pid][0]
status = {}
for l in out.splitlines():
    m = re.match(r"^(C\d+) (CAUGHT|MISSED|HARNESS)", l)
    if m:
        status[m.group(1)] = m.group(2)
meta = {
    "property": pid,
    "title": prop["title"],
    "author": "independent sub-agent given only the property text and a scratch worktree of /repo (nothing from /verif)",
    "base_commit": subprocess.run(["git", "-C", "/repo", "log", "--format=%h", "-1"], capture_output=True, text=True).stdout.strip(),
    "needs_to_manifest": (mine[0][:1800] if mine else notes[:1800]),
    "confirmed": {
        "demo_passes_without_change_and_fails_with_it": "demo: without change rc=0, with change rc=1" in out,
        "existing_tests": "the author ran the relevant test files and the full suite with the change applied (see needs_to_manifest / NOTES); re-run of the touched test files by the main session where noted in DESIGN.md",
        "ran": f"tools/seedtest.py seeded/{pid}-{out_n}/patch.diff {pid} " + " ".join(extra),
    },
    "checks": status,
}
meta["first_result"] = old.get("first_result", status)  # what the check said the first time it met this change
if stored and old.get("needs_to_manifest"):
    meta["needs_to_manifest"] = old["needs_to_manifest"]
for k in ("summary", "strengthening", "round", "rebased"):
    if k in old:
        meta[k] = old[k]
json.dump(meta, open(os.path.join(dst, "meta.json"), "w"), indent=1)
print("->", dst, status)
