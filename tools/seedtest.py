#!/venv/bin/python
"""Run a seeded change against checks.  usage: tools/seedtest.py <seeded dir or diff> <ID> [<ID>...] [--tier quick]
Copies /repo (tracked trimesh package) to a scratch dir under /var/tmp, applies the diff with `git apply`, confirms the
demonstration (demo*.py next to the diff) fails with the change and passes without it, then runs ./check <ID> with
VERIF_REPO=<scratch>.  Prints CAUGHT / MISSED per check."""
import json, os, shutil, subprocess, sys, tempfile, time

HOME = os.path.dirname(os.path.dirname(os.path.abspath(__file__)))

def sh(cmd, **kw):
    return subprocess.run(cmd, capture_output=True, text=True, **kw)

def main():
    args = [a for a in sys.argv[1:] if not a.startswith("--")]
    tier = "quick"
    if "--tier" in sys.argv:
        tier = sys.argv[sys.argv.index("--tier") + 1]; args = [a for a in args if a != tier]
    src, ids = args[0], args[1:]
    diff = src if src.endswith(".diff") else os.path.join(src, "patch.diff")
    demo = None
    d = os.path.dirname(diff)
    for name in ("demo.py", os.path.basename(diff).replace("seed", "demo").replace(".diff", ".py")):
        if os.path.exists(os.path.join(d, name)):
            demo = os.path.join(d, name)
    base = tempfile.mkdtemp(prefix="vf-seed-", dir="/var/tmp")
    try:
        shutil.copytree("/repo/trimesh", os.path.join(base, "trimesh"), ignore=shutil.ignore_patterns("__pycache__"))
        if demo:
            # run a copy of the demo from inside the scratch tree (a script's own directory comes first on sys.path)
            shutil.copy(demo, os.path.join(base, "vf_demo.py"))
            demo = os.path.join(base, "vf_demo.py")
            r0 = sh(["/venv/bin/python", demo], cwd=base, env=dict(os.environ, PYTHONPATH=base))
        r = sh(["git", "apply", "--unsafe-paths", "--directory", base, os.path.abspath(diff)], cwd="/")
        if r.returncode != 0:
            r = sh(["patch", "-p1", "-d", base, "-i", os.path.abspath(diff)])
            if r.returncode != 0:
                print("PATCH-FAILED", r.stdout[-500:], r.stderr[-500:]); return 2
        if demo:
            r1 = sh(["/venv/bin/python", demo], cwd=base, env=dict(os.environ, PYTHONPATH=base))
            print(f"demo: without change rc={r0.returncode}, with change rc={r1.returncode}  ({'OK' if r0.returncode == 0 and r1.returncode != 0 else 'DEMO-NOT-CONFIRMED'})")
            if r1.returncode != 0:
                print("  demo says:", (r1.stdout + r1.stderr).strip().splitlines()[-1][:200] if (r1.stdout + r1.stderr).strip() else "")
        rc = 0
        for pid in ids:
            env = dict(os.environ, VERIF_REPO=base, VERIF_EVIDENCE_DIR=os.path.join(base, "ev"), VERIF_REPLAY_OUT=os.path.join(base, "ro"))
            t0 = time.time()
            r = sh([os.path.join(HOME, "check"), pid, "--tier", tier], env=env)
            out = r.stdout + r.stderr
            sigs = sorted({l.strip()[:170] for l in out.splitlines() if l.strip().startswith("violation:")})
            status = "CAUGHT" if (r.returncode == 1 and "VIOLATION property=" + pid in out) else ("HARNESS" if r.returncode == 2 else "MISSED")
            print(f"{pid} {status} {time.time()-t0:.0f}s", " || ".join(sigs[:2]) if sigs else out[-300:] if status == "HARNESS" else "")
            if status != "CAUGHT":
                rc = 1
        return rc
    finally:
        shutil.rmtree(base, ignore_errors=True)

sys.exit(main())
