"""C14 helper: constructed planar drawings (families of disjoint / nested simple closed curves) with
their exact measures, and *variants* of one drawing (different splitting into entities, entity order,
entity direction, vertex numbering, shared or duplicated joints).

Everything here is independent of trimesh's traversal / polygon code: curves are built in polar form
about a region centre, nesting is known from the construction, areas come from the shoelace formula plus
signed circular-segment areas, lengths from chord lengths plus r*|phi|.

A drawing spec is plain JSON:
    {"seed": int, "size": float, "origin": [x, y], "grid": [gx, gy], "cells": [tree, ...]}
    tree = {"kind": "poly"|"circle"|"round"|"bulge", "n": int, "children": [tree, ...]}
A variant spec is plain JSON:
    {"seed": int, "cut": float, "rev": float, "dup": float, "mode": "shared"|"ctor"|"process"|"shared_process"}
"""

import math

import numpy as np
from hypothesis import strategies as st

KINDS = ["poly", "poly", "poly", "circle", "round", "bulge"]
MAX_CURVES = 14
MAX_DEPTH = 4
MODES = ["shared", "ctor", "process", "shared_process"]

# ------------------------------------------------------------------------------------------ strategies


def _tree(depth_left, kinds):
    kind = st.sampled_from(kinds)
    n = st.integers(2, 9)
    if depth_left <= 1:
        return st.fixed_dictionaries({"kind": kind, "n": n, "children": st.just([])})
    child = st.deferred(lambda: _tree(depth_left - 1, kinds))
    # mostly chains (deep nesting), sometimes several islands side by side in one hole
    children = st.one_of(st.just([]), st.lists(child, min_size=1, max_size=1), st.lists(child, min_size=1, max_size=1), st.lists(child, min_size=2, max_size=3))
    return st.fixed_dictionaries({"kind": kind, "n": n, "children": children})


@st.composite
def drawing_spec(draw, arcs=True, max_cells=4):
    kinds = KINDS if arcs else ["poly"]
    gx = draw(st.integers(1, 3))
    gy = draw(st.integers(1, 2))
    ncell = min(gx * gy, max_cells)
    cells = [draw(_tree(MAX_DEPTH, kinds)) for _ in range(ncell)]
    # 2e-6: control points of an arc are then ~1e-6 apart, below the absolute 1e-13 zero of util.unitize for their cross product
    size = draw(st.sampled_from([1.0] * 6 + [1e-3, 1e-3, 1e3, 1e3, 37.5, 37.5, 0.02, 0.02, 250.0, 2e-6]))
    # offset / size up to 1e6: a drawing made in place far from the origin keeps its own tolerances (Path.scale is the AABB
    # diagonal, not the distance from the origin)
    off = draw(st.sampled_from([[0.0, 0.0], [0.0, 0.0], [0.0, 0.0], [1.0, -2.0], [-3.0, 0.5], [2.5, 2.5], [300.0, -200.0], [-2e4, 1.5e4], [-2e4, 1.5e4], [1e6, 3e5]]))
    return {
        "seed": draw(st.integers(0, 2**31 - 1)),
        "size": size,
        "origin": [off[0] * size, off[1] * size],
        "grid": [gx, gy],
        "cells": cells,
    }


@st.composite
def variant_spec(draw, modes=None):
    return {
        "seed": draw(st.integers(0, 2**31 - 1)),
        "cut": draw(st.sampled_from([0.0, 0.3, 0.6, 1.0])),
        "rev": draw(st.sampled_from([0.0, 0.5, 0.5, 1.0])),
        "dup": draw(st.sampled_from([0.0, 0.5, 1.0])),
        "mode": draw(st.sampled_from(modes or MODES)),
    }


# ------------------------------------------------------------------------------------------ geometry


def _pol(c, r, a):
    return np.array([c[0] + r * math.cos(a), c[1] + r * math.sin(a)])


def circle_from_3(p0, p1, p2):
    """centre, radius of the circle through three points (plain circumcentre formula)"""
    ax, ay = p0
    bx, by = p1
    cx, cy = p2
    d = 2.0 * (ax * (by - cy) + bx * (cy - ay) + cx * (ay - by))
    ux = ((ax * ax + ay * ay) * (by - cy) + (bx * bx + by * by) * (cy - ay) + (cx * cx + cy * cy) * (ay - by)) / d
    uy = ((ax * ax + ay * ay) * (cx - bx) + (bx * bx + by * by) * (ax - cx) + (cx * cx + cy * cy) * (bx - ax)) / d
    c = np.array([ux, uy])
    return c, float(np.hypot(*(np.asarray(p0) - c)))


def arc_params(A, M, B):
    """centre, radius, start angle, signed sweep phi (|phi| < 2 pi) of the arc from A through M to B"""
    # work relative to A to keep the circumcentre formula well conditioned away from the origin
    A = np.asarray(A, dtype=np.float64)
    c, r = circle_from_3(np.zeros(2), np.asarray(M) - A, np.asarray(B) - A)
    c = c + A
    a0 = math.atan2(A[1] - c[1], A[0] - c[0])
    am = math.atan2(M[1] - c[1], M[0] - c[0])
    a1 = math.atan2(B[1] - c[1], B[0] - c[0])
    ccw_m = (am - a0) % (2 * math.pi)
    ccw_b = (a1 - a0) % (2 * math.pi)
    if ccw_m < ccw_b:
        phi = ccw_b
    else:
        phi = ccw_b - 2 * math.pi
    return c, r, a0, phi


def arc_points(c, r, a0, phi, m):
    t = a0 + phi * np.linspace(0.0, 1.0, m)
    return np.column_stack((c[0] + r * np.cos(t), c[1] + r * np.sin(t)))


def arc_bounds(c, r, a0, phi):
    pts = [_pol(c, r, a0), _pol(c, r, a0 + phi)]
    lo, hi = (a0, a0 + phi) if phi >= 0 else (a0 + phi, a0)
    k = math.ceil(lo / (math.pi / 2))
    while k * (math.pi / 2) <= hi:
        pts.append(_pol(c, r, k * (math.pi / 2)))
        k += 1
    pts = np.array(pts)
    return pts.min(axis=0), pts.max(axis=0)


def shoelace(P):
    """signed area of the closed polygon P (n,2), computed about its mean for conditioning"""
    Q = np.asarray(P, dtype=np.float64)
    Q = Q - Q.mean(axis=0)
    x, y = Q[:, 0], Q[:, 1]
    return 0.5 * float(np.dot(x, np.roll(y, -1)) - np.dot(np.roll(x, -1), y))


def poly_centroid(P):
    Q = np.asarray(P, dtype=np.float64)
    m = Q.mean(axis=0)
    Q = Q - m
    x, y = Q[:, 0], Q[:, 1]
    xn, yn = np.roll(x, -1), np.roll(y, -1)
    cr = x * yn - xn * y
    a = 0.5 * cr.sum()
    return m + np.array([((x + xn) * cr).sum(), ((y + yn) * cr).sum()]) / (6.0 * a)


def seg_dist(c, A, B):
    """distance from point c to segment AB"""
    A, B, c = np.asarray(A), np.asarray(B), np.asarray(c)
    d = B - A
    t = np.clip(np.dot(c - A, d) / np.dot(d, d), 0.0, 1.0)
    return float(np.hypot(*(A + t * d - c)))


def tri_cond(A, M, B):
    """relative change of the circumradius (and so of r*phi) of the circle through A, M, B per unit displacement of a
    point: R = abc / 4K, so dR/R <= 3 d / (shortest edge) + 2 d / (height of the triangle over its longest edge)"""
    e = [float(np.hypot(*(np.asarray(q) - np.asarray(p)))) for p, q in ((A, M), (M, B), (B, A))]
    K = 0.5 * abs((M[0] - A[0]) * (B[1] - A[1]) - (M[1] - A[1]) * (B[0] - A[0]))
    return 3.0 / min(e) + 2.0 * max(e) / (2.0 * K)


class Curve:
    """One simple closed curve: nodes P[i] (counter-clockwise), edge i runs P[i] -> P[i+1] and is either
    straight (None) or a 3-point arc given by its on-arc mid point. kind == 'circle' is a single closed Arc
    entity given by three points."""

    def __init__(self, kind, centre, depth, parent):
        self.kind = kind
        self.centre = np.asarray(centre, dtype=np.float64)
        self.depth = depth
        self.parent = parent
        self.children = []
        self.nodes = None  # (n,2)
        self.mids = None  # list of None | (2,) array
        self.circle = None  # (centre, radius) for kind == 'circle'
        self.inner = None  # radius of a disc about centre that lies strictly inside the curve

    @property
    def has_arc(self):
        return self.kind == "circle" or any(m is not None for m in self.mids)

    def finish(self):
        """exact measures"""
        if self.kind == "circle":
            c, r = self.circle
            self.area = math.pi * r * r
            self.perimeter = 2 * math.pi * r
            self.bounds = np.array([c - r, c + r])
            self.centroid = np.array(c)
            self.arc_info = [(c, r, 0.0, 2 * math.pi)]
            self.n_line_edges = 0
            self.len_cond = self.perimeter * tri_cond(*self.nodes)
            return
        P = self.nodes
        n = len(P)
        area = shoelace(P)
        per = 0.0
        lo = P.min(axis=0)
        hi = P.max(axis=0)
        ref = []  # fine reference polygon for the centroid
        self.arc_info = []
        self.n_line_edges = 0
        self.len_cond = 0.0
        for i in range(n):
            A, B = P[i], P[(i + 1) % n]
            if self.mids[i] is None:
                per += float(np.hypot(*(B - A)))
                ref.append(A[None])
                self.n_line_edges += 1
            else:
                c, r, a0, phi = arc_params(A, self.mids[i], B)
                area += 0.5 * r * r * (phi - math.sin(phi))
                per += r * abs(phi)
                self.len_cond += r * abs(phi) * tri_cond(A, self.mids[i], B)
                blo, bhi = arc_bounds(c, r, a0, phi)
                lo = np.minimum(lo, blo)
                hi = np.maximum(hi, bhi)
                ref.append(arc_points(c, r, a0, phi, 1500)[:-1])
                self.arc_info.append((c, r, a0, phi))
        self.area = area
        self.perimeter = per
        self.bounds = np.array([lo, hi])
        self.centroid = poly_centroid(np.vstack(ref))

    def disc_tol(self):
        """(area, bounds, centroid-moment) slack between the exact curve and any inscribed discretisation of its
        arcs with segment angle <= phi/m_min, m_min = max(4, ceil(|phi|/res.seg_angle)) - 1 (res.seg_angle=0.08 and
        'at LEAST 4 points' are the documented discretisation rules of trimesh.path.arc.discretize_arc)"""
        da = 0.0
        db = 0.0
        for c, r, a0, phi in self.arc_info:
            p = abs(phi)
            m = max(4, math.ceil(p / 0.08)) - 1
            da += 0.5 * r * r * (p - m * math.sin(p / m))
            db = max(db, r * (1.0 - math.cos(p / m / 2.0)))
        return da, db


class Drawing:
    def __init__(self, spec):
        self.spec = spec
        self.curves = []
        rs = np.random.RandomState(spec["seed"])
        S = float(spec["size"])
        gx, gy = spec["grid"]
        o = np.asarray(spec["origin"], dtype=np.float64)
        cells = [(ix, iy) for iy in range(gy) for ix in range(gx)]
        self.size = S
        for (ix, iy), tree in zip(cells, spec["cells"]):
            centre = o + S * np.array([ix + 0.5, iy + 0.5])
            self._region(tree, centre, 0.5 * S * 0.96, 0, None, rs)
        for c in self.curves:
            c.finish()
        self._summarise()

    extra_labels = ()

    def _summarise(self):
        self.n = len(self.curves)
        self.max_depth = max(c.depth for c in self.curves)
        self.has_arcs = any(c.has_arc for c in self.curves)
        self.nested = any(c.depth > 0 for c in self.curves)
        self.area = sum(((-1) ** c.depth) * c.area for c in self.curves)
        self.length = sum(c.perimeter for c in self.curves)
        self.body_count = sum(1 for c in self.curves if c.depth % 2 == 0)
        self.cmax = float(max(np.abs(c.bounds).max() for c in self.curves))
        self.bounds = np.array([np.min([c.bounds[0] for c in self.curves], axis=0), np.max([c.bounds[1] for c in self.curves], axis=0)])
        self.scale = float(np.hypot(*(self.bounds[1] - self.bounds[0])))
        # dimensionless conditioning of the total length w.r.t. a displacement of the stored coordinates: every chord end
        # counts once, every arc with the conditioning of its circumcircle
        self.len_cond = sum(c.len_cond for c in self.curves) + 2.0 * sum(len(c.nodes) for c in self.curves)
        # smallest distance between two distinct control points of one curve (nodes, arc mid points)
        mf = np.inf
        for c in self.curves:
            pts = [p for p in c.nodes] + [m for m in c.mids if m is not None]
            P = np.array(pts)
            d = np.hypot(P[:, None, 0] - P[None, :, 0], P[:, None, 1] - P[None, :, 1])
            d[np.diag_indices(len(P))] = np.inf
            mf = min(mf, float(d.min()))
        self.min_feature = mf
        # merge_vertices rounds to 10^-digits, digits = |int(log10(1e-5 * scale))|, i.e. a grid of at most 1e-4 * scale:
        # distinct points at least sqrt(2) grid cells apart can never share a cell (factor 2 margin)
        self.merge_safe = mf >= 2 * math.sqrt(2) * 1e-4 * self.scale

    # -- construction of one region: a curve in the band of the disc (centre, R) and its children inside
    def _region(self, tree, centre, R, depth, parent, rs):
        # regions below 2% of the cell size are not drawn: Path.merge_vertices works on a grid of up to 1e-4 * scale
        # (tol_path.merge=1e-5 times the AABB diagonal, rounded up to a power of ten), detail below it is outside its domain
        if len(self.curves) >= MAX_CURVES or depth >= MAX_DEPTH or R < 0.02 * self.size:
            return
        kind = tree["kind"]
        n = int(tree["n"])
        kids = tree.get("children") or []
        cur = Curve(kind, centre, depth, parent)
        index = len(self.curves)
        self.curves.append(cur)
        if parent is not None:
            self.curves[parent].children.append(index)
        r_hi = 0.95 * R
        r_lo = R * (rs.uniform(0.68, 0.8) if kids else rs.uniform(0.55, 0.8))
        a_start = rs.uniform(0, 2 * math.pi)
        if kind == "circle":
            r = rs.uniform(r_lo, r_hi)
            a = np.sort(rs.uniform(0.0, 1.0, 2))
            # three control points anywhere on the circle, at least 0.3 rad apart
            t0 = a_start
            t1 = t0 + 0.3 + (2 * math.pi - 0.9) * a[0]
            t2 = t0 + 0.6 + (2 * math.pi - 0.9) * a[1]
            cur.circle = (np.array(centre), r)
            cur.nodes = np.array([_pol(centre, r, t) for t in (t0, t1, t2)])
            cur.mids = []
            cur.inner = r
        elif kind == "round":
            n = max(2, min(n, 7))
            r = rs.uniform(r_lo, r_hi)
            # two nodes: one arc may span up to 1.9 pi
            ang = self._angles(n, a_start, rs, 0.9 if n == 2 else 0.7 if n > 3 else 0.4)
            cur.nodes = np.array([_pol(centre, r, t) for t in ang])
            cur.mids = []
            inner = r
            want_arc = rs.uniform(0, 1, n) < 0.6
            # the middle control point is anywhere along the arc (5% .. 95% of the span, at least 0.08 rad from either end)
            fr = rs.uniform(0.05, 0.95, n)
            gaps = [((ang[(i + 1) % n] - ang[i]) % (2 * math.pi)) for i in range(n)]
            if n == 2 or not want_arc.any():
                want_arc[int(np.argmax(gaps))] = True
            for i in range(n):
                g = gaps[i]
                if want_arc[i] or g >= 0.9 * math.pi:
                    f = min(max(fr[i], 0.08 / g), 1.0 - 0.08 / g)
                    cur.mids.append(_pol(centre, r, ang[i] + f * g))
                else:
                    cur.mids.append(None)
                    inner = min(inner, r * math.cos(g / 2))
            cur.inner = inner
        else:
            n = max(3, n)
            if kids:
                n = max(n, 5)
            ang = self._angles(n, a_start, rs, 0.7 if (n > 3 and not kids) else 0.4)
            rad = rs.uniform(r_lo, r_hi, n)
            cur.nodes = np.array([_pol(centre, rad[i], ang[i]) for i in range(n)])
            cur.mids = [None] * n
            inner = min(seg_dist(centre, cur.nodes[i], cur.nodes[(i + 1) % n]) for i in range(n))
            if kind == "bulge":
                want = rs.uniform(0, 1, n) < 0.6
                beta = rs.uniform(0.08, 0.6, n) * np.where(rs.uniform(0, 1, n) < 0.5, -1.0, 1.0)
                fr = rs.uniform(0.05, 0.95, n)
                for i in range(n):
                    if not want[i]:
                        continue
                    A, B = cur.nodes[i], cur.nodes[(i + 1) % n]
                    ch = B - A
                    L = float(np.hypot(*ch))
                    nrm = np.array([ch[1], -ch[0]]) / L  # right of A->B = outside of a ccw curve
                    top = 0.5 * (A + B) + nrm * (beta[i] * 0.5 * L)
                    c, r, a0, phi = arc_params(A, top, B)
                    pts = arc_points(c, r, a0, phi, 49)
                    rel = pts - centre
                    rr = np.hypot(rel[:, 0], rel[:, 1])
                    th = np.unwrap(np.arctan2(rel[:, 1], rel[:, 0]))
                    gap = (ang[(i + 1) % n] - ang[i]) % (2 * math.pi)
                    ok = (np.diff(th) > 0.2 * gap / 48).all() and rr.max() <= 0.985 * R and rr.min() >= 0.75 * r_lo
                    if not ok:
                        continue
                    f = min(max(fr[i], 0.08 / abs(phi)), 1.0 - 0.08 / abs(phi))
                    cur.mids[i] = _pol(c, r, a0 + f * phi)
                    inner = min(inner, 0.98 * float(rr.min()))
            cur.inner = inner
        # children inside the disc (centre, 0.92 * inner)
        Rc = 0.92 * cur.inner
        k = len(kids)
        if k == 1:
            d = rs.uniform(0, 0.15) * Rc
            a = rs.uniform(0, 2 * math.pi)
            self._region(kids[0], _pol(centre, d, a), 0.8 * Rc, depth + 1, index, rs)
        elif k >= 2:
            s = math.sin(math.pi / k)
            rho = 0.95 * Rc / (1.0 + 1.0 / s)
            d = 1.05 * rho / s
            a = rs.uniform(0, 2 * math.pi)
            for j, kid in enumerate(kids):
                self._region(kid, _pol(centre, d, a + 2 * math.pi * j / k), rho, depth + 1, index, rs)

    @staticmethod
    def _angles(n, a_start, rs, jitter):
        return np.array([a_start + (i + jitter * (rs.uniform() - 0.5)) * 2 * math.pi / n for i in range(n)])


# ------------------------------------------------------------------------------------------ variants


def canonical_variant():
    return {"seed": 0, "cut": 0.0, "rev": 0.0, "dup": 0.0, "mode": "shared", "canonical": True}


def build_variant(drawing, vspec):
    """-> vertices (m,2), entity descriptors [(type, [vertex indices], closed, curve index)], stats"""
    rs = np.random.RandomState(vspec["seed"])
    canonical = bool(vspec.get("canonical"))
    coords = []  # list of (2,) arrays
    ents = []
    stats = {"multi": 0, "reversed": 0, "dups": 0, "entities": 0}

    def new_vertex(p):
        coords.append(np.array(p, dtype=np.float64))
        return len(coords) - 1

    for ci, cur in enumerate(drawing.curves):
        if cur.kind == "circle":
            idx = [new_vertex(p) for p in cur.nodes]
            if not canonical and rs.uniform() < vspec["rev"]:
                idx = idx[::-1]
                stats["reversed"] += 1
            ents.append(("Arc", idx, True, ci))
            continue
        n = len(cur.nodes)
        # cut positions: node j is a cut if an arc touches it or by chance
        is_arc = [m is not None for m in cur.mids]
        cut = [(is_arc[j] or is_arc[j - 1] or (not canonical and rs.uniform() < vspec["cut"])) for j in range(n)]
        start = 0
        if any(cut):
            cands = [j for j in range(n) if cut[j]]
            start = cands[0] if canonical else cands[rs.randint(len(cands))]
        elif not canonical:
            start = rs.randint(n)
        # node index allocation: a cut node may be duplicated (one vertex per adjacent entity)
        primary = [new_vertex(p) for p in cur.nodes]
        pieces = []
        j = start
        run = [primary[start]]
        steps = 0
        while steps < n:
            nxt = (j + 1) % n
            if is_arc[j]:
                pieces.append(("Arc", [primary[j], new_vertex(cur.mids[j]), primary[nxt]]))
                run = [primary[nxt]]
            else:
                run.append(primary[nxt])
                if cut[nxt] or steps == n - 1:
                    pieces.append(("Line", run))
                    run = [primary[nxt]]
            j = nxt
            steps += 1
        # a run that was interrupted by an arc start is a single vertex: nothing to emit
        pieces = [p for p in pieces if len(p[1]) >= 2]
        # duplicate joints: the first vertex of a piece gets a private copy of the shared node
        if not canonical and vspec["dup"] > 0 and vspec["mode"] in ("ctor", "process"):
            for k, (typ, idx) in enumerate(pieces):
                if len(pieces) == 1 and not (typ == "Line" and idx[0] == idx[-1]):
                    continue
                if rs.uniform() < vspec["dup"]:
                    idx[0] = new_vertex(coords[idx[0]])
                    stats["dups"] += 1
        if len(pieces) >= 2:
            stats["multi"] += 1
        for typ, idx in pieces:
            if not canonical and rs.uniform() < vspec["rev"]:
                idx = idx[::-1]
                stats["reversed"] += 1
            ents.append((typ, list(idx), False, ci))
    V = np.array(coords, dtype=np.float64)
    if not canonical:
        # permute entity order and vertex numbering
        order = rs.permutation(len(ents))
        ents = [ents[i] for i in order]
        perm = rs.permutation(len(V))  # new position of old vertex i is perm[i]
        V2 = np.empty_like(V)
        V2[perm] = V
        V = V2
        ents = [(t, [int(perm[i]) for i in idx], c, ci) for t, idx, c, ci in ents]
    stats["entities"] = len(ents)
    return V, ents, stats


def make_entities(ents):
    from trimesh.path.entities import Arc, Line

    out = []
    for typ, idx, closed, _ in ents:
        if typ == "Line":
            out.append(Line(points=list(idx)))
        else:
            out.append(Arc(points=list(idx), closed=bool(closed)))
    return out


def make_path(V, ents, mode):
    """Build the Path2D the way the variant asks for: shared joints need no merge; duplicated joints are merged
    either by the constructor (process=True -> merge_vertices) or by an explicit .process() call."""
    from trimesh.path import Path2D

    E = make_entities(ents)
    if mode == "shared":
        return Path2D(entities=E, vertices=V.copy(), process=False)
    if mode == "ctor":
        return Path2D(entities=E, vertices=V.copy())
    p = Path2D(entities=E, vertices=V.copy(), process=False)
    p.process()
    return p
