"""Case generators and pure builders for C15 (all cases are plain JSON data)."""

import math

import numpy as np
from hypothesis import strategies as st

from . import matrices as gm

_f = lambda lo, hi: st.floats(lo, hi, allow_nan=False, allow_infinity=False)  # noqa

MIN_TRI_AREA = 1e-6  # 100 x the absolute area cull (tol.merge = 1e-8) inside creation.revolve


@st.composite
def length(draw, lo=1e-2, hi=1e3):
    """log-uniform length, with the end points and round values over-represented"""
    k = draw(st.integers(0, 9))
    if k == 0:
        return draw(st.sampled_from([lo, hi, 1.0, 2.0, 0.5, 10.0]))
    return float(10.0 ** draw(_f(math.log10(lo), math.log10(hi))))


@st.composite
def placement(draw, size, kinds=None):
    """-> {"cls": none|identity|translation|rigid|mirror|mirror_axis, "M": 4x4 list or None}; L is orthogonal."""
    kind = draw(st.sampled_from(kinds or ["none", "identity", "translation", "rigid", "rigid", "mirror", "mirror", "mirror_axis"]))
    if kind == "none":
        return {"cls": kind, "M": None}
    M = np.eye(4)
    if kind in ("rigid", "mirror"):
        M[:3, :3] = draw(gm.rot3())
    if kind == "mirror":
        M[:3, :3] = M[:3, :3] @ gm.householder(draw(gm.unit_vec()))
    if kind == "mirror_axis":
        d = [1.0, 1.0, 1.0]
        d[draw(st.integers(0, 2))] = -1.0
        M[:3, :3] = np.diag(d)
    if kind != "identity":
        ts = draw(st.sampled_from([0.0, 1.0, 1.0, 10.0])) * size
        M[:3, 3] = [draw(_f(-1, 1)) * ts for _ in range(3)]
    return {"cls": kind, "M": M.tolist()}


def sections_strategy(lo=3, hi=40):
    # minimum, odd and even, a few larger
    return st.one_of(st.integers(lo, lo + 6), st.integers(lo, hi), st.sampled_from([lo, lo + 1, 32, 33, 64]))


# ----------------------------------------------------------------------------------- profiles of revolution


def uv_profile(radius, lat):
    th = np.linspace(0.0, math.pi, lat)
    P = np.column_stack((np.sin(th), -np.cos(th))) * radius
    P[0, 0] = 0.0
    P[-1, 0] = 0.0
    return P


def capsule_profile(radius, height, lat):
    th = np.linspace(-math.pi / 2.0, math.pi / 2.0, lat)
    P = np.column_stack((np.cos(th), np.sin(th))) * radius
    half = lat // 2
    P[:half, 1] -= height / 2.0
    P[half:, 1] += height / 2.0
    P[0, 0] = 0.0
    P[-1, 0] = 0.0
    return P


def rev_profile(fn, p):
    """-> (profile (n,2) closed ccw not repeated, sections k, angle or None, euler number)
    Resolution mapping for uv_sphere / capsule counts is the implementation's (stated in ASSUMPTIONS)."""
    if fn == "cylinder":
        r, h = p["radius"], p["height"]
        return np.array([[0, -h / 2], [r, -h / 2], [r, h / 2], [0, h / 2]], dtype=float), p["sections"] or 32, None, 2
    if fn == "cone":
        r, h = p["radius"], p["height"]
        return np.array([[0, 0], [r, 0], [0, h]], dtype=float), p["sections"] or 32, None, 2
    if fn == "annulus":
        a, b, h = p["r_min"], p["r_max"], p["height"]
        return np.array([[a, -h / 2], [b, -h / 2], [b, h / 2], [a, h / 2]], dtype=float), p["sections"] or 32, None, 0
    if fn == "uv_sphere":
        c = p["count"]
        lat, k = (32, 64) if c is None else (c[0] + c[0] % 2, 2 * (c[1] + c[1] % 2))
        return uv_profile(p["radius"], lat), k, None, 2
    if fn == "capsule":
        c = p["count"]
        lat, k = (32, 64) if c is None else (c[0] + c[0] % 2, c[1])
        return capsule_profile(p["radius"], p["height"], lat), k, None, 2
    if fn == "torus":
        ph = 2 * math.pi * np.arange(p["minor_sections"]) / p["minor_sections"]
        P = np.column_stack((p["major_radius"] + p["minor_radius"] * np.cos(ph), p["minor_radius"] * np.sin(ph)))
        return P, p["major_sections"], None, 0
    if fn == "revolve":
        P = np.array(p["ring"], dtype=float)
        ang = p["angle"]
        k = p["sections"]
        if k is None:
            k = 32 if ang is None else int(ang / (2 * math.pi) * 32)
        on_axis = bool((P[:, 0] == 0).any())
        euler = 2 if (on_axis or ang is not None) else 0
        return P, k, ang, euler
    raise ValueError(fn)


def min_tri_area(P, k, angle):
    d = (2 * math.pi if angle is None else angle) / k
    a, b = P, np.roll(P, -1, axis=0)
    hh = np.sqrt(((b[:, 0] - a[:, 0]) * math.cos(d / 2)) ** 2 + (b[:, 1] - a[:, 1]) ** 2)
    areas = np.concatenate((a[:, 0] * math.sin(d / 2) * hh, b[:, 0] * math.sin(d / 2) * hh))
    areas = areas[areas > 0]
    return float(areas.min()) if len(areas) else 0.0


_LEN_KEYS = ("radius", "height", "r_min", "r_max", "major_radius", "minor_radius")


def _rescale(fn, p, f):
    q = dict(p)
    for k in _LEN_KEYS:
        if q.get(k) is not None:
            q[k] = q[k] * f
    if q.get("ring") is not None:
        q["ring"] = (np.array(q["ring"]) * f).tolist()
    return q


@st.composite
def revolve_case(draw, fns=None):
    fn = draw(st.sampled_from(fns or ["cylinder", "cylinder", "cone", "annulus", "capsule", "uv_sphere", "torus", "revolve", "revolve"]))
    s = draw(length())
    aspect = draw(st.sampled_from([1.0, 1.0, 0.1, 10.0, 3.0])) if s * 10 <= 1e3 and s * 0.1 >= 1e-2 else 1.0
    p = {}
    place_kinds = None
    if fn in ("cylinder", "cone"):
        p = {"radius": s, "height": s * aspect, "sections": draw(st.one_of(st.none(), sections_strategy()))}
    elif fn == "annulus":
        p = {"r_min": s * draw(_f(0.05, 0.95)), "r_max": s, "height": s * aspect, "sections": draw(st.one_of(st.none(), sections_strategy()))}
    elif fn == "uv_sphere":
        p = {"radius": s, "count": draw(st.one_of(st.none(), st.tuples(st.integers(3, 14), st.integers(2, 12)).map(list)))}
    elif fn == "capsule":
        p = {"radius": s, "height": s * aspect, "count": draw(st.one_of(st.none(), st.tuples(st.integers(3, 14), st.integers(3, 16)).map(list)))}
    elif fn == "torus":
        p = {"major_radius": s, "minor_radius": s * draw(_f(0.05, 0.9)), "major_sections": draw(sections_strategy()), "minor_sections": draw(sections_strategy(3, 24))}
    else:
        n = draw(st.integers(3, 8))
        if draw(st.booleans()):
            # closed ring off the axis: star polygon about (c, 0)
            rad = [draw(_f(0.3, 1.0)) for _ in range(n)]
            ph0 = draw(_f(0, 6.28))
            c = draw(_f(1.1, 3.0))
            ring = [[s * (c + rad[i] * math.cos(ph0 + 2 * math.pi * i / n)), s * rad[i] * math.sin(ph0 + 2 * math.pi * i / n)] for i in range(n)]
            form = "ring"
        else:
            # axis to axis polyline with increasing z
            zs = sorted(draw(st.lists(_f(-1, 1), min_size=n, max_size=n, unique=True)))
            zs = [zs[0] + (i * 0.05) + (z - zs[0]) for i, z in enumerate(zs)]  # separated by >= 0.05
            ring = [[0.0, s * zs[0]]] + [[s * draw(_f(0.2, 1.0)), s * z] for z in zs[1:-1]] + [[0.0, s * zs[-1]]]
            form = "axis"
        partial = draw(st.booleans())
        ang = draw(st.one_of(_f(0.2, 2 * math.pi - 0.2), st.sampled_from([math.pi / 2, math.pi, 1.0]))) if partial else None
        if ang is None:
            sec = draw(st.one_of(st.none(), sections_strategy()))
        else:
            kmin = max(2, int(math.ceil(ang / 2.5)))  # sections=1 is covered by the enumeration (own signature)
            sec = draw(st.one_of(st.integers(kmin, kmin + 6), st.integers(kmin, 24)))
            if ang >= 1.0 and draw(st.integers(0, 5)) == 0:
                sec = None
        p = {"ring": ring, "form": form, "angle": ang, "sections": sec}
    # stay inside the documented resolution: no expected triangle below MIN_TRI_AREA
    P, k, ang, _ = rev_profile(fn, p)
    a = min_tri_area(P, k, ang)
    if a < MIN_TRI_AREA:
        p = _rescale(fn, p, math.sqrt(MIN_TRI_AREA / a) * 1.001)
        P, k, ang, _ = rev_profile(fn, p)
    size = float(np.abs(P).max())
    place = None
    if fn in ("cylinder", "annulus") and draw(st.integers(0, 3)) == 0:
        d = draw(st.one_of(gm.unit_vec(), st.sampled_from([[0.0, 0.0, 1.0], [0.0, 0.0, -1.0], [1e-9, 0.0, -1.0], [0.0, 1e-7, 1.0]])))
        d = np.array(d) / np.linalg.norm(d)
        mid = np.array([draw(_f(-1, 1)) for _ in range(3)]) * size * draw(st.sampled_from([0.0, 1.0, 10.0]))
        h = p["height"]
        place = {"cls": "segment", "M": None, "segment": [(mid - d * h / 2).tolist(), (mid + d * h / 2).tolist()]}
    else:
        place = draw(placement(size, kinds=place_kinds))
    return {"fn": fn, "p": p, "place": place}


# ----------------------------------------------------------------------------------- polygons


@st.composite
def hole_spec(draw):
    """star: star-shaped ring (centroid inside); band: annular sector spanning more than a half turn (C / U shape:
    concave, its centroid and the centre of its bounding box lie in the material it wraps around); ell: L shape"""
    kind = draw(st.sampled_from(["star", "star", "band", "band", "ell"]))
    h = {"kind": kind, "n": draw(st.integers(3, 6)), "rad": [draw(_f(0.04, 0.08)) for _ in range(6)], "phase": draw(_f(0, 6.28))}
    if kind == "band":
        h.update({"span": draw(_f(3.3, 5.8)), "ratio": draw(_f(0.4, 0.8)), "m": draw(st.integers(3, 9))})
    elif kind == "ell":
        h.update({"thick": draw(_f(0.15, 0.45))})
    return h


@st.composite
def polygon_spec(draw, max_holes=3, R=None):
    n = draw(st.one_of(st.integers(3, 6), st.integers(3, 14)))
    j = 0.1 if n < 5 else 0.3
    return {
        "n": n,
        "rad": [draw(_f(1.0, 2.0)) for _ in range(n)],
        "jit": [draw(_f(-j, j)) for _ in range(n)],
        "phase": draw(_f(0, 6.28)),
        "holes": [draw(hole_spec()) for _ in range(draw(st.integers(0, max_holes)))],
        "R": R if R is not None else draw(length(1e-2, 3e2)),
        "off": [draw(st.sampled_from([0.0, 0.0, 1.0, -7.0])), draw(st.sampled_from([0.0, 0.0, 2.0, 5.0]))],
        "hole_phase": draw(_f(0, 6.28)),
    }


def build_rings(spec, centre=False):
    """-> list of (n,2) arrays: outer ring counter-clockwise, then the holes (counter-clockwise too).
    Constructed simple: a star polygon with radii in [R,2R] contains the disc 0.3R; holes live inside 0.23R."""
    n, R = spec["n"], spec["R"]
    ang = spec["phase"] + 2 * math.pi * (np.arange(n) + np.array(spec["jit"])) / n
    outer = np.column_stack((np.cos(ang), np.sin(ang))) * (np.array(spec["rad"]) * R)[:, None]
    rings = [outer]
    for i, h in enumerate(spec["holes"]):
        m = h["n"]
        c = 0.15 * R * np.array([math.cos(spec["hole_phase"] + 2 * math.pi * i / 3), math.sin(spec["hole_phase"] + 2 * math.pi * i / 3)])
        kind = h.get("kind", "star")
        if kind == "band":
            # annular sector between radii ratio*b and b over `span` radians, as one counter-clockwise ring
            b = h["rad"][0] * R
            t = h["phase"] + np.linspace(0.0, h["span"], h["m"] + 1)
            outer_arc = np.column_stack((np.cos(t), np.sin(t))) * b
            inner_arc = np.column_stack((np.cos(t[::-1]), np.sin(t[::-1]))) * (b * h["ratio"])
            rings.append(c + np.vstack((outer_arc, inner_arc)))
            continue
        if kind == "ell":
            # L shape inside the square of half side b/sqrt(2), arms of relative thickness `thick`, rotated by phase
            b = h["rad"][0] * R / math.sqrt(2.0)
            w = 2 * b * h["thick"]
            L = np.array([[-b, -b], [b, -b], [b, -b + w], [-b + w, -b + w], [-b + w, b], [-b, b]])
            cs, sn = math.cos(h["phase"]), math.sin(h["phase"])
            rings.append(c + L @ np.array([[cs, sn], [-sn, cs]]))
            continue
        a = h["phase"] + 2 * math.pi * np.arange(m) / m
        rings.append(c + np.column_stack((np.cos(a), np.sin(a))) * (np.array(h["rad"][:m]) * R)[:, None])
    off = np.array(spec["off"]) * R
    if centre:
        from ..oracle import c15_solids as O

        A, sx, sy = O.polygon_moments(rings, [(0, 0), (1, 0), (0, 1)])
        off = -np.array([sx / A, sy / A])
    return [r + off for r in rings]


@st.composite
def flat_case(draw):
    kind = draw(st.sampled_from(["box", "box_bounds", "extrude_polygon", "extrude_polygon", "extrude_polygon", "extrude_triangulation", "triangulate"]))
    if kind == "box":
        ext = [draw(length()) for _ in range(3)]
        if draw(st.integers(0, 4)) == 0:
            ext = None
        size = max(ext) if ext else 1.0
        return {"kind": kind, "extents": ext, "place": draw(placement(size))}
    if kind == "box_bounds":
        lo = [draw(_f(-10, 10)) for _ in range(3)]
        ext = [draw(length(1e-2, 1e2)) for _ in range(3)]
        return {"kind": kind, "bounds": [lo, [a + b for a, b in zip(lo, ext)]]}
    spec = draw(polygon_spec())
    if kind == "triangulate":
        return {"kind": kind, "polygon": spec, "engine": draw(st.sampled_from([None, "earcut", "manifold", "triangle"]))}
    h = spec["R"] * draw(st.sampled_from([1.0, 0.1, 3.0, 0.5])) * draw(st.sampled_from([1.0, -1.0]))
    h = math.copysign(min(max(abs(h), 1e-2), 1e3), h)
    place = draw(placement(2 * spec["R"]))
    if kind == "extrude_triangulation":
        spec["holes"] = []
        return {"kind": kind, "polygon": spec, "height": h, "place": place, "fan": draw(st.sampled_from(["fan_ccw", "fan_cw", "strip"]))}
    return {"kind": kind, "polygon": spec, "height": h, "place": place, "engine": draw(st.sampled_from([None, "earcut", "manifold", "triangle"]))}


# ----------------------------------------------------------------------------------- sweeps


@st.composite
def sweep_case(draw):
    fam = draw(st.sampled_from(["line", "line", "ring_xy", "arc_xy", "helix_z", "tilted_arc", "tilted_ring", "vertical_arc"]))
    rho_R = draw(length(1e-2, 1e1))
    spec = draw(polygon_spec(max_holes=(2 if fam in ("line", "arc_xy", "helix_z", "tilted_arc", "vertical_arc") else 0), R=rho_R))
    rho = 2.0 * rho_R * 1.2  # bound of the centred profile radius (radii <= 2R, centroid inside the 0.3R disc... <= 2.3R)
    case = {"family": fam, "polygon": spec, "engine": draw(st.sampled_from([None, "earcut", "manifold", "triangle"]))}
    if fam == "line":
        d = draw(st.one_of(gm.unit_vec(), st.sampled_from([[0.0, 0.0, 1.0], [0.0, 0.0, -1.0], [0.0, 1e-3, 1.0]])))
        k = draw(st.integers(2, 5))
        steps = [draw(_f(0.5, 3.0)) * rho_R for _ in range(k - 1)]
        case.update({"dir": d, "steps": steps, "origin": [draw(_f(-5, 5)) * rho_R for _ in range(3)]})
        case["roll"] = draw(st.sampled_from([0.0, 0.0, 0.1]))
        return case
    N = draw(st.integers(8, 40))
    Rc = rho * draw(_f(5.0, 20.0))
    case.update({"N": N, "Rc": Rc, "phase": draw(_f(0, 6.28)), "origin": [draw(_f(-2, 2)) * Rc for _ in range(3)]})
    if fam in ("ring_xy", "tilted_ring"):
        case["total"] = 2 * math.pi
        case["N"] = max(N, 26)  # bend per joint <= 0.25
    else:
        case["total"] = min(draw(_f(0.3, 3.0)), 0.25 * (N - 1))
    case["pitch"] = draw(_f(-0.3, 0.3)) * Rc if fam == "helix_z" else 0.0
    case["tilt"] = draw(_f(0.05, 0.75)) if fam in ("tilted_arc", "tilted_ring") else (math.pi / 2 if fam == "vertical_arc" else 0.0)
    case["tilt_axis"] = draw(_f(0, 6.28))
    case["roll"] = draw(st.sampled_from([0.0, 0.0, 0.05])) if fam not in ("ring_xy", "tilted_ring") else 0.0
    return case


def sweep_path(case):
    """-> (path (n,3), angles or None, closed)"""
    if case["family"] == "line":
        d = np.array(case["dir"], dtype=float)
        d = d / np.linalg.norm(d)
        s = np.concatenate(([0.0], np.cumsum(case["steps"])))
        path = np.array(case["origin"]) + s[:, None] * d
        ang = None if case["roll"] == 0 else np.arange(len(path)) * case["roll"]
        return path, ang, False
    N, Rc = case["N"], case["Rc"]
    closed = case["family"] in ("ring_xy", "tilted_ring")
    t = case["phase"] + np.linspace(0.0, case["total"], N + 1 if closed else N)
    path = np.column_stack((Rc * np.cos(t), Rc * np.sin(t), case["pitch"] * (t - t[0])))
    if case["tilt"]:
        ax = [math.cos(case["tilt_axis"]), math.sin(case["tilt_axis"]), 0.0]
        path = path @ gm.rodrigues(ax, case["tilt"]).T
    path = path + np.array(case["origin"])
    if closed:
        path[-1] = path[0]
    ang = None if case["roll"] == 0 else np.arange(len(path)) * case["roll"]
    return path, ang, closed


# ----------------------------------------------------------------------------------- primitives


@st.composite
def prim_params(draw, kind):
    s = draw(length())
    if kind == "Box":
        return {"extents": [draw(length()) for _ in range(3)]}
    if kind == "Sphere":
        return {"radius": s, "subdivisions": draw(st.integers(0, 3))}
    if kind in ("Cylinder", "Capsule"):
        asp = draw(st.sampled_from([1.0, 0.2, 5.0]))
        h = min(max(s * asp, 1e-2), 1e3)
        sec = draw(sections_strategy(3, 40))
        # documented resolution: keep triangles above the absolute area cull
        while min(s, h) * s * math.sin(math.pi / sec) < 4 * MIN_TRI_AREA and sec > 3:
            sec -= 1
        if min(s, h) * s * math.sin(math.pi / sec) < 4 * MIN_TRI_AREA:
            s = h = max(s, 0.05)
        if kind == "Capsule":
            s, h = max(s, 0.2), max(h, 0.2)  # default 32x64 tessellation of the caps
        return {"radius": s, "height": h, "sections": sec}
    if kind == "Extrusion":
        spec = draw(polygon_spec(max_holes=2))
        h = spec["R"] * draw(st.sampled_from([1.0, 0.2, 4.0])) * draw(st.sampled_from([1.0, -1.0]))
        h = math.copysign(min(max(abs(h), 1e-2), 1e3), h)
        if draw(st.integers(0, 3)) == 0:
            h = draw(st.sampled_from([-1.0, -2.0, 1.0, 2.0]))
        return {"polygon": spec, "height": h}
    raise ValueError(kind)


def prim_size(kind, p):
    if kind == "Box":
        return max(p["extents"])
    if kind == "Sphere":
        return p["radius"]
    if kind in ("Cylinder", "Capsule"):
        return max(p["radius"], p["height"])
    return max(2 * p["polygon"]["R"], abs(p["height"]))


@st.composite
def primitive_case(draw):
    kind = draw(st.sampled_from(["Box", "Sphere", "Cylinder", "Cylinder", "Capsule", "Extrusion", "Extrusion"]))
    p = draw(prim_params(kind))
    return {"kind": kind, "p": p, "place": draw(placement(prim_size(kind, p))), "via_center": draw(st.booleans())}


@st.composite
def similarity(draw, size, rigid_only=False):
    s = 1.0 if rigid_only or draw(st.integers(0, 2)) == 0 else draw(st.sampled_from([0.5, 2.0, 3.0, 0.25, 1.5]))
    M = np.eye(4)
    M[:3, :3] = s * draw(gm.rot3())
    M[:3, 3] = [draw(_f(-1, 1)) * size for _ in range(3)]
    return M.tolist()


@st.composite
def draw_op(draw, kind, menu):
    op = draw(st.sampled_from(menu))
    pool = [1.0, 2.0, 0.5, 3.0]
    o = {"op": op, "check": draw(st.sampled_from([True, True, True, False]))}
    if op in ("set_radius",):
        o["v"] = draw(st.one_of(st.sampled_from(pool), _f(0.2, 5.0)))
    elif op == "set_height":
        if kind == "Extrusion":
            o["v"] = draw(st.one_of(st.sampled_from([-1.0, -2.0, 1.0, 2.0, -0.5, 3.0]), _f(0.2, 5.0), _f(-5.0, -0.2)))
        else:
            o["v"] = draw(st.one_of(st.sampled_from(pool), _f(0.2, 5.0)))
    elif op == "set_sections":
        o["v"] = draw(st.integers(3, 24))
    elif op == "set_subdivisions":
        o["v"] = draw(st.integers(0, 2))
    elif op == "set_extents":
        o["v"] = [draw(st.one_of(st.sampled_from(pool), _f(0.2, 5.0))) for _ in range(3)]
    elif op in ("extents_inplace",):
        o["i"] = draw(st.integers(0, 2))
        o["v"] = draw(st.one_of(st.sampled_from(pool), _f(0.2, 5.0)))
    elif op == "extents_imul":
        o["v"] = draw(st.sampled_from([2.0, 0.5, 3.0]))
    elif op == "set_transform":
        o["M"] = draw(placement(3.0, kinds=["identity", "translation", "rigid", "rigid", "mirror", "mirror_axis"]))["M"]
    elif op == "transform_iadd":
        o["i"] = draw(st.integers(0, 2))
        o["v"] = draw(st.sampled_from([1.0, -2.0, 0.5, 0.25]))
    elif op == "center_inplace":
        o["n"] = draw(st.integers(1, 3))
        o["v"] = [draw(st.sampled_from([1.0, -2.0, 0.5, 3.0])) for _ in range(3)]
        o["via_sphere"] = draw(st.booleans())
    elif op in ("set_center", "sphere_center", "transform_inplace"):
        o["v"] = [draw(st.sampled_from([0.0, 1.0, -2.0, 0.5])) for _ in range(3)]
    elif op == "apply_transform":
        o["M"] = draw(similarity(3.0, rigid_only=(kind == "Extrusion")))
    elif op == "apply_mirror":
        # reflection (possibly rotated, possibly with a uniform scale): det < 0
        M = np.array(draw(placement(3.0, kinds=["mirror", "mirror", "mirror_axis"]))["M"])
        sc = 1.0 if kind == "Extrusion" else draw(st.sampled_from([1.0, 1.0, 1.0, 2.0, 0.5]))
        M[:3, :3] *= sc
        o["M"] = M.tolist()
    elif op == "apply_reject":
        o["M"] = draw(gm.matrix(classes=["anisotropic", "shear"], tscale=1.0))["M"]
    elif op == "set_polygon":
        o["v"] = draw(polygon_spec(max_holes=1, R=draw(st.sampled_from([1.0, 0.5, 2.0]))))
    elif op == "slide":
        o["v"] = draw(st.sampled_from([1.0, -1.0, 0.25]))
    return o


@st.composite
def stateful_case(draw, kind=None):
    kind = kind or draw(st.sampled_from(["Box", "Sphere", "Cylinder", "Capsule", "Extrusion", "Extrusion"]))
    p = draw(prim_params(kind))
    if kind == "Sphere":
        p["subdivisions"] = min(p["subdivisions"], 2)
    size = prim_size(kind, p)
    ops = []
    nops = draw(st.integers(1, 7))
    common = ["set_transform", "set_center", "transform_inplace", "transform_iadd", "center_inplace", "apply_transform", "apply_transform", "apply_reject", "apply_mirror", "apply_mirror"]
    menu = {
        "Box": ["set_extents", "set_extents", "extents_inplace", "extents_imul"],
        "Sphere": ["set_radius", "set_radius", "set_subdivisions", "sphere_center"],
        "Cylinder": ["set_radius", "set_height", "set_sections", "set_sections"],
        "Capsule": ["set_radius", "set_height", "set_sections"],
        "Extrusion": ["set_height", "set_height", "set_height", "set_polygon", "slide"],
    }[kind] + common
    for _ in range(nops):
        o = draw(draw_op(kind, menu))
        ops.append(o)
    # work at unit-ish scale for the stateful part: the history, not the magnitude, is what is explored here
    if kind == "Box":
        p["extents"] = [min(max(e, 0.1), 10.0) for e in p["extents"]]
    elif kind in ("Sphere",):
        p["radius"] = min(max(p["radius"], 0.1), 10.0)
    elif kind in ("Cylinder", "Capsule"):
        p["radius"] = min(max(p["radius"], 0.3), 10.0)
        p["height"] = min(max(p["height"], 0.3), 10.0)
    else:
        p["polygon"]["R"] = min(max(p["polygon"]["R"], 0.1), 10.0)
        p["height"] = math.copysign(min(max(abs(p["height"]), 0.1), 10.0), p["height"])
    return {"kind": kind, "p": p, "T0": draw(placement(3.0, kinds=["none", "rigid", "translation", "mirror"]))["M"], "ops": ops}


# ----------------------------------------------------------------------------------- populations of primitives


@st.composite
def member_spec(draw):
    """a primitive built with all, some or none of its arguments (none = documented defaults, no transform)"""
    kind = draw(st.sampled_from(["Box", "Sphere", "Cylinder", "Capsule", "Extrusion"]))
    full = {
        "Box": {"extents": [1.0, 2.0, 3.0]},
        "Sphere": {"radius": 1.5, "subdivisions": 1},
        "Cylinder": {"radius": 1.0, "height": 2.0, "sections": 6},
        "Capsule": {"radius": 1.0, "height": 2.0, "sections": 6},
        "Extrusion": {"height": 1.5, "polygon": {"n": 4, "rad": [1, 1.5, 1, 2], "jit": [0, 0, 0, 0], "phase": 0.3, "holes": [], "R": 1.0, "off": [0.0, 0.0], "hole_phase": 0.0}},
    }[kind]
    how = draw(st.sampled_from(["defaults", "defaults", "some", "all"]))
    if how == "defaults":
        p = {}
    elif how == "some":
        keys = sorted(full)
        p = {k: full[k] for k in keys if draw(st.booleans())}
    else:
        p = dict(full)
    T = None if draw(st.integers(0, 3)) > 0 else draw(placement(3.0, kinds=["translation", "rigid", "mirror"]))["M"]
    return {"kind": kind, "p": p, "T": T}


POP_MENU = {
    "Box": ["extents_inplace", "extents_imul", "set_extents"],
    "Sphere": ["set_radius", "sphere_center"],
    "Cylinder": ["set_radius", "set_height"],
    "Capsule": ["set_radius", "set_height"],
    "Extrusion": ["set_height", "slide"],
}
POP_COMMON = ["transform_inplace", "transform_inplace", "transform_iadd", "transform_iadd", "center_inplace", "center_inplace", "set_center", "set_transform", "apply_transform"]


@st.composite
def population_case(draw):
    members = [draw(member_spec()) for _ in range(draw(st.integers(2, 3)))]
    kinds = [m["kind"] for m in members]
    steps = []
    for _ in range(draw(st.integers(1, 4))):
        if len(kinds) < 5 and draw(st.integers(0, 3)) == 0:
            m = draw(member_spec())
            kinds.append(m["kind"])
            steps.append({"create": m})
        else:
            who = draw(st.integers(0, len(kinds) - 1))
            steps.append({"who": who, "op": draw(draw_op(kinds[who], POP_MENU[kinds[who]] + POP_COMMON))})
    return {"members": members, "steps": steps}
