"""Mesh pool (DESIGN section 3): closed oriented template surfaces built by our own code (not by
trimesh.creation, which is itself under test).  A *spec* is small JSON data; build(spec) -> (V, F).

Closedness / orientation is a property of `faces` alone, so any vertex placement (jitter, lattice
rounding, scaling) keeps a template closed and consistently wound."""

import math

import numpy as np
from hypothesis import strategies as st

_f = lambda lo, hi: st.floats(lo, hi, allow_nan=False, allow_infinity=False)  # noqa


def _orient_outward(V, F):
    V = np.asarray(V, dtype=np.float64)
    F = np.asarray(F, dtype=np.int64)
    vol = np.einsum("ij,ij->i", V[F[:, 0]], np.cross(V[F[:, 1]], V[F[:, 2]])).sum()
    if vol < 0:
        F = F[:, ::-1].copy()
    return V, F


def tetra():
    V = [[0, 0, 0], [1, 0, 0], [0, 1, 0], [0, 0, 1]]
    F = [[0, 2, 1], [0, 1, 3], [1, 2, 3], [0, 3, 2]]
    return _orient_outward(V, F)


def box(ext=(1.0, 1.0, 1.0)):
    x, y, z = [e / 2.0 for e in ext]
    V = [[-x, -y, -z], [x, -y, -z], [x, y, -z], [-x, y, -z], [-x, -y, z], [x, -y, z], [x, y, z], [-x, y, z]]
    F = [
        [0, 2, 1], [0, 3, 2], [4, 5, 6], [4, 6, 7], [0, 1, 5], [0, 5, 4],
        [1, 2, 6], [1, 6, 5], [2, 3, 7], [2, 7, 6], [3, 0, 4], [3, 4, 7],
    ]  # fmt: skip
    return _orient_outward(V, F)


def octa():
    V = [[1, 0, 0], [-1, 0, 0], [0, 1, 0], [0, -1, 0], [0, 0, 1], [0, 0, -1]]
    F = [[0, 2, 4], [2, 1, 4], [1, 3, 4], [3, 0, 4], [2, 0, 5], [1, 2, 5], [3, 1, 5], [0, 3, 5]]
    return _orient_outward(V, F)


def icosa():
    t = (1.0 + math.sqrt(5.0)) / 2.0
    V = [[-1, t, 0], [1, t, 0], [-1, -t, 0], [1, -t, 0], [0, -1, t], [0, 1, t], [0, -1, -t], [0, 1, -t],
         [t, 0, -1], [t, 0, 1], [-t, 0, -1], [-t, 0, 1]]  # fmt: skip
    F = [[0, 11, 5], [0, 5, 1], [0, 1, 7], [0, 7, 10], [0, 10, 11], [1, 5, 9], [5, 11, 4], [11, 10, 2],
         [10, 7, 6], [7, 1, 8], [3, 9, 4], [3, 4, 2], [3, 2, 6], [3, 6, 8], [3, 8, 9], [4, 9, 5],
         [2, 4, 11], [6, 2, 10], [8, 6, 7], [9, 8, 1]]  # fmt: skip
    V = np.array(V, dtype=np.float64)
    V /= np.linalg.norm(V[0])
    return _orient_outward(V, F)


def subdivide(V, F, project=False):
    V = [tuple(v) for v in np.asarray(V, dtype=np.float64)]
    mid = {}

    def m(a, b):
        k = (a, b) if a < b else (b, a)
        if k not in mid:
            p = tuple((np.array(V[a]) + np.array(V[b])) / 2.0)
            if project:
                p = tuple(np.array(p) / np.linalg.norm(p))
            mid[k] = len(V)
            V.append(p)
        return mid[k]

    out = []
    for a, b, c in np.asarray(F).tolist():
        ab, bc, ca = m(a, b), m(b, c), m(c, a)
        out += [[a, ab, ca], [ab, b, bc], [ca, bc, c], [ab, bc, ca]]
    return np.array(V, dtype=np.float64), np.array(out, dtype=np.int64)


def icosphere(sub):
    V, F = icosa()
    for _ in range(sub):
        V, F = subdivide(V, F, project=True)
    return V, F


def star_polygon(n, radii, phase=0.0):
    ang = phase + np.arange(n) * (2 * math.pi / n)
    r = np.asarray(radii, dtype=np.float64)
    return np.column_stack((r * np.cos(ang), r * np.sin(ang)))


def prism(n, radii, height):
    """Prism over a star-shaped polygon (non-convex when radii vary), caps fanned from the centre."""
    P = star_polygon(n, radii)
    z0, z1 = -height / 2.0, height / 2.0
    V = [[p[0], p[1], z0] for p in P] + [[p[0], p[1], z1] for p in P] + [[0, 0, z0], [0, 0, z1]]
    cb, ct = 2 * n, 2 * n + 1
    F = []
    for i in range(n):
        j = (i + 1) % n
        F.append([cb, j, i])  # bottom, looking from below: clockwise from above
        F.append([ct, n + i, n + j])
        F.append([i, j, n + j])
        F.append([i, n + j, n + i])
    return _orient_outward(V, F)


def torus(nu, nv, R=2.0, r=0.7):
    V = []
    for i in range(nu):
        a = 2 * math.pi * i / nu
        for j in range(nv):
            b = 2 * math.pi * j / nv
            V.append([(R + r * math.cos(b)) * math.cos(a), (R + r * math.cos(b)) * math.sin(a), r * math.sin(b)])
    F = []
    for i in range(nu):
        for j in range(nv):
            a = i * nv + j
            b = ((i + 1) % nu) * nv + j
            c = ((i + 1) % nu) * nv + (j + 1) % nv
            d = i * nv + (j + 1) % nv
            F += [[a, b, c], [a, c, d]]
    return _orient_outward(V, F)


def uv_sphere(nu, nv):
    """nu meridians, nv-1 interior rings + 2 poles"""
    V = [[0, 0, 1.0]]
    for j in range(1, nv):
        th = math.pi * j / nv
        for i in range(nu):
            ph = 2 * math.pi * i / nu
            V.append([math.sin(th) * math.cos(ph), math.sin(th) * math.sin(ph), math.cos(th)])
    V.append([0, 0, -1.0])
    S = len(V) - 1
    F = []
    for i in range(nu):
        F.append([0, 1 + i, 1 + (i + 1) % nu])
        base = 1 + (nv - 2) * nu
        F.append([S, base + (i + 1) % nu, base + i])
    for j in range(nv - 2):
        for i in range(nu):
            a = 1 + j * nu + i
            b = 1 + j * nu + (i + 1) % nu
            c = a + nu
            d = b + nu
            F += [[a, c, d], [a, d, b]]
    return _orient_outward(V, F)


def pillow():
    """two faces back to back: closed, oriented, zero volume"""
    V = np.array([[0, 0, 0], [1, 0, 0], [0, 1, 0]], dtype=np.float64)
    F = np.array([[0, 1, 2], [0, 2, 1]], dtype=np.int64)
    return V, F


def _single(spec):
    k = spec["kind"]
    if k == "tetra":
        return tetra()
    if k == "box":
        return box(spec.get("ext", (1.0, 1.0, 1.0)))
    if k == "octa":
        return octa()
    if k == "icos":
        return icosphere(int(spec.get("sub", 0)))
    if k == "prism":
        return prism(len(spec["radii"]), spec["radii"], spec.get("height", 1.0))
    if k == "torus":
        return torus(spec.get("nu", 5), spec.get("nv", 4), spec.get("R", 2.0), spec.get("r", 0.7))
    if k == "uvsphere":
        return uv_sphere(spec.get("nu", 5), spec.get("nv", 4))
    if k == "pillow":
        return pillow()
    raise ValueError(k)


def build(spec):
    """spec: {"parts": [ {kind..., "offset": [x,y,z], "scale": s} ...], "jseed": int, "jamp": float,
              "lattice": None | int (round(V*lattice)), "place": 4x4 or None}"""
    Vs, Fs, n = [], [], 0
    for part in spec["parts"]:
        V, F = _single(part)
        V = np.asarray(V, dtype=np.float64) * float(part.get("scale", 1.0)) + np.asarray(part.get("offset", (0, 0, 0)), dtype=np.float64)
        Vs.append(V)
        Fs.append(np.asarray(F, dtype=np.int64) + n)
        n += len(V)
    V = np.vstack(Vs)
    F = np.vstack(Fs)
    if spec.get("jamp", 0.0):
        rs = np.random.RandomState(int(spec.get("jseed", 0)) & 0x7FFFFFFF)
        V = V + rs.uniform(-1, 1, V.shape) * float(spec["jamp"])
    if spec.get("lattice"):
        V = np.round(V * int(spec["lattice"]))
    if spec.get("place") is not None:
        M = np.asarray(spec["place"], dtype=np.float64)
        V = V @ M[:3, :3].T + M[:3, 3]
        if np.linalg.det(M[:3, :3]) < 0:
            F = F[:, ::-1].copy()
    return np.ascontiguousarray(V, dtype=np.float64), np.ascontiguousarray(F, dtype=np.int64)


@st.composite
def part(draw, kinds=None, max_faces=200):
    kinds = kinds or ["tetra", "box", "octa", "icos", "prism", "torus", "uvsphere"]
    k = draw(st.sampled_from(kinds))
    p = {"kind": k}
    if k == "box":
        p["ext"] = [draw(_f(0.3, 3.0)) for _ in range(3)]
    elif k == "icos":
        p["sub"] = draw(st.integers(0, 1 if max_faces < 320 else 2))
    elif k == "prism":
        n = draw(st.integers(3, 8))
        p["radii"] = [draw(_f(0.4, 1.5)) for _ in range(n)]
        p["height"] = draw(_f(0.2, 3.0))
    elif k == "torus":
        p["nu"] = draw(st.integers(3, 7))
        p["nv"] = draw(st.integers(3, 5))
        p["R"] = draw(_f(1.5, 3.0))
        p["r"] = draw(_f(0.2, 0.9))
    elif k == "uvsphere":
        p["nu"] = draw(st.integers(3, 7))
        p["nv"] = draw(st.integers(2, 5))
    return p


@st.composite
def mesh_spec(draw, kinds=None, max_parts=1, jitter=True, lattice=False, disjoint=True, max_faces=200):
    nparts = draw(st.integers(1, max_parts))
    parts = []
    for i in range(nparts):
        p = draw(part(kinds, max_faces))
        p["scale"] = draw(st.sampled_from([1.0, 1.0, 0.5, 2.0])) if nparts > 1 else 1.0
        # bounding radius of every template is < 4 at scale 1 (torus: R + r <= 3.9), i.e. < 8 at scale 2, plus
        # jitter: 20 apart keeps parts disjoint
        p["offset"] = [20.0 * i, 0.0, 0.0] if disjoint else [draw(_f(-1, 1)) for _ in range(3)]
        parts.append(p)
    spec = {"parts": parts}
    if jitter and draw(st.booleans()):
        spec["jseed"] = draw(st.integers(0, 2**31 - 1))
        spec["jamp"] = draw(st.sampled_from([1e-3, 0.02, 0.05]))
    if lattice and draw(st.booleans()):
        spec["lattice"] = draw(st.sampled_from([2, 4, 10, 100]))
    return spec


def n_faces(spec):
    return len(build(spec)[1])
