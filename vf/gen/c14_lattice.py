"""C14 helper: drawings made of NON-CONVEX simple closed curves on an integer lattice.

A coarse gx x gy grid of cells (side K=10 lattice units) is partitioned into simply connected, pinch-free polyominoes
(templates: U / C / comb / interleaved spirals / S / T-in-U ..., or random snake-like growth). A region with cell set C at
nesting depth d is the boundary of the union of its cells moved inwards by e = d + 1 lattice units (a rectilinear simple
polygon as long as 2e < K). Children of a region are regions of sub-sets of its cells (the same set: a pocket that follows
the whole channel; or two / three pieces of a split, some dropped), so:

  * a child lies strictly inside its parent (distance >= 1 unit), siblings and neighbours are >= 2 units apart;
  * U-shaped holes sit in U-shaped shells (the centroid of the hole is outside the hole and often outside the shell);
  * neighbouring regions interleave without nesting (a clip around a prong, two spirals, comb in comb): one curve lies in
    the bounding box of another and may surround its centroid without being inside it.

Lattice coordinates are integers; drawing coordinates are origin + 2^k * integer (exact in binary floating point), so the
expected areas 2^(2k) * (integer shoelace)/2 and lengths 2^k * integer are exact. Nesting is known from the construction.
"""

import math

import numpy as np
from hypothesis import strategies as st

from . import c14_drawings as gd

K = 10  # lattice units per coarse cell
MAX_DEPTH = 4  # erosion 1..4, a one-cell corridor keeps width K - 8 = 2

# label grids (rows top to bottom); '.' = not drawn
TEMPLATES = {
    "u_in_u": ["a.a", "a.a", "aaa"],
    "clip_on_prong": ["aaaaa", "a.b.a", "a.b.a", "..b..", "bbbbb"],
    "comb_in_comb": ["aaaaaaa", "abababa", "abababa", "bbbbbbb"],
    "spirals": ["aaaaa", "bbbba", "baaba", "babba", "baaaa"][::-1],
    "c_and_plug": ["aaaa", "abb.", "abb.", "aaaa"],
    "s_shape": ["aaaa", "a...", "aaaa", "...a", "aaaa"],
    "t_in_u": ["a.b.a", "a.b.a", "abbba", "aaaaa"][::-1],
    "l_pair": ["abbb", "a..b", "a..b", "aaab"],
    "trident_clip": ["a.....a", "a.bbb.a", "a.bab.a", "a.bab.a", "aaaaaaa"],
    "w_clip": ["abbba", "ababa", "ababa", "aaaaa"],
    "key": ["aaaaa", "a...a", "a.b.a", "a.bba", "a...a", "aaa.a"],
}
TEMPLATE_NAMES = sorted(TEMPLATES)


@st.composite
def lattice_spec(draw):
    tpl = draw(st.one_of(st.none(), st.sampled_from(TEMPLATE_NAMES)))
    k = draw(st.sampled_from([0, 0, 0, -3, 6, -10, 3, -17]))
    return {
        "family": "lattice",
        "seed": draw(st.integers(0, 2**31 - 1)),
        "template": tpl,
        "flip": draw(st.integers(0, 7)),
        "grid": [draw(st.integers(2, 5)), draw(st.integers(2, 4))],
        "regions": draw(st.integers(1, 4)),
        "depth": draw(st.sampled_from([1, 2, 3, 3, 4, 4])),
        "scale_exp": k,
        # in coarse cells (10 lattice units): up to ~1e5 times the size of the drawing away from the origin
        "origin": [draw(st.one_of(st.integers(-40, 40), st.sampled_from([1000, -30000, 2**20]))), draw(st.one_of(st.integers(-40, 40), st.sampled_from([-2000, 15000, -(2**19)])))],
    }


# ------------------------------------------------------------------------------------------ polyomino tools

NB = ((1, 0), (-1, 0), (0, 1), (0, -1))


def trace(cells):
    """boundary of a set of unit cells as ONE counter-clockwise loop of corner vertices (collinear points merged), or None
    when the set is not a simply connected, pinch-free polyomino (several loops or a vertex with two outgoing edges)"""
    cells = set(cells)
    out = {}
    nedges = 0
    for i, j in cells:
        cand = []
        if (i, j - 1) not in cells:
            cand.append(((i, j), (i + 1, j)))
        if (i + 1, j) not in cells:
            cand.append(((i + 1, j), (i + 1, j + 1)))
        if (i, j + 1) not in cells:
            cand.append(((i + 1, j + 1), (i, j + 1)))
        if (i - 1, j) not in cells:
            cand.append(((i, j + 1), (i, j)))
        for a, b in cand:
            if a in out:
                return None  # pinch: two boundary edges leave the same vertex
            out[a] = b
            nedges += 1
    if not out:
        return None
    start = min(out)
    loop = [start]
    cur = out[start]
    while cur != start:
        loop.append(cur)
        cur = out[cur]
        if len(loop) > nedges:
            return None
    if len(loop) != nedges:
        return None  # more than one loop: a hole or a second component
    n = len(loop)
    keep = []
    for k in range(n):
        p, q, r = loop[k - 1], loop[k], loop[(k + 1) % n]
        if (q[0] - p[0]) * (r[1] - q[1]) - (q[1] - p[1]) * (r[0] - q[0]) != 0:
            keep.append(q)
    return keep


def inset(loop, e):
    """move every edge of the counter-clockwise rectilinear loop (coarse cell coordinates) inwards by e lattice units"""
    n = len(loop)
    out = []
    for k in range(n):
        p, q, r = loop[k - 1], loop[k], loop[(k + 1) % n]
        d0 = (int(np.sign(q[0] - p[0])), int(np.sign(q[1] - p[1])))
        d1 = (int(np.sign(r[0] - q[0])), int(np.sign(r[1] - q[1])))
        n0 = (-d0[1], d0[0])
        n1 = (-d1[1], d1[0])
        out.append((q[0] * K + e * (n0[0] + n1[0]), q[1] * K + e * (n0[1] + n1[1])))
    return out


def int_area2(P):
    """twice the signed area, exact integer arithmetic"""
    return sum(P[k][0] * P[(k + 1) % len(P)][1] - P[(k + 1) % len(P)][0] * P[k][1] for k in range(len(P)))


def point_in_poly(pt, P):
    """even-odd rule, P (n,2) array; points on the boundary are not expected"""
    x, y = pt
    inside = False
    n = len(P)
    for k in range(n):
        x0, y0 = P[k]
        x1, y1 = P[(k + 1) % n]
        if (y0 > y) != (y1 > y):
            if x < x0 + (y - y0) * (x1 - x0) / (y1 - y0):
                inside = not inside
    return inside


def grow_partition(cells, nreg, rs):
    """split a connected cell set into <= nreg connected pieces by snake-like growth (extend from the last cell added when
    possible, which gives corridors, hooks and spirals rather than blobs)"""
    cells = sorted(cells)
    free = set(cells)
    nreg = max(1, min(nreg, len(cells)))
    seeds = [cells[i] for i in rs.permutation(len(cells))[:nreg]]
    parts = [[s] for s in seeds]
    heads = list(seeds)
    for s in seeds:
        free.discard(s)
    while free:
        order = rs.permutation(nreg)
        progressed = False
        for r in order:
            opts = []
            if rs.uniform() < 0.75:
                opts = [(heads[r][0] + dx, heads[r][1] + dy) for dx, dy in NB if (heads[r][0] + dx, heads[r][1] + dy) in free]
            if not opts:
                opts = sorted({(c[0] + dx, c[1] + dy) for c in parts[r] for dx, dy in NB if (c[0] + dx, c[1] + dy) in free})
            if not opts:
                continue
            c = opts[rs.randint(len(opts))]
            parts[r].append(c)
            heads[r] = c
            free.discard(c)
            progressed = True
            break
        if not progressed:
            break  # cells not reachable from any piece (cannot happen for a connected set) stay undrawn
    return parts


def template_parts(name, flip):
    rows = TEMPLATES[name]
    h = len(rows)
    grid = {}
    for r, row in enumerate(rows):
        for c, ch in enumerate(row):
            if ch != ".":
                grid.setdefault(ch, []).append((c, h - 1 - r))
    parts = []
    for ch in sorted(grid):
        cs = grid[ch]
        if flip & 1:
            cs = [(-x, y) for x, y in cs]
        if flip & 2:
            cs = [(x, -y) for x, y in cs]
        if flip & 4:
            cs = [(y, x) for x, y in cs]
        parts.append(cs)
    mx = min(x for p in parts for x, _ in p)
    my = min(y for p in parts for _, y in p)
    return [[(x - mx, y - my) for x, y in p] for p in parts]


# ------------------------------------------------------------------------------------------ the drawing


class LatticeDrawing(gd.Drawing):
    def __init__(self, spec):
        self.spec = spec
        self.curves = []
        self.cellsets = []
        rs = np.random.RandomState(spec["seed"])
        self.s = 2.0 ** int(spec["scale_exp"])
        self.size = self.s * K
        self.o = np.array([spec["origin"][0] * K, spec["origin"][1] * K], dtype=np.int64)
        self.maxdepth = max(1, min(int(spec["depth"]), MAX_DEPTH))
        if spec.get("template"):
            parts = template_parts(spec["template"], int(spec["flip"]))
        else:
            gx, gy = spec["grid"]
            parts = grow_partition([(i, j) for i in range(gx) for j in range(gy)], int(spec["regions"]), rs)
        for p in parts:
            if trace(p) is not None:
                self._region(p, 0, None, rs)
            else:
                # a piece with a hole or a pinch is not a simple closed curve: draw its cells one by one
                for c in sorted(p):
                    self._region([c], 0, None, rs)
        self._int_area2 = []
        for cur, cs in zip(self.curves, self.cellsets):
            cur.finish()
            # exact measures from integer arithmetic
            L = inset(trace(cs), cur.depth + 1)
            a2 = int_area2(L)
            per = sum(abs(L[k][0] - L[(k + 1) % len(L)][0]) + abs(L[k][1] - L[(k + 1) % len(L)][1]) for k in range(len(L)))
            cur.area = self.s * self.s * a2 / 2.0
            cur.perimeter = self.s * per
            self._int_area2.append(a2)
        self._summarise()
        self.extra_labels = self._labels()

    def _region(self, cells, depth, parent, rs):
        if len(self.curves) >= gd.MAX_CURVES or depth >= self.maxdepth:
            return
        loop = trace(cells)
        P = np.array(inset(loop, depth + 1), dtype=np.int64)
        cur = gd.Curve("poly", (self.o + P.mean(axis=0)) * self.s, depth, parent)
        cur.nodes = (self.o + P).astype(np.float64) * self.s  # exact: integers times a power of two
        cur.mids = [None] * len(P)
        cur.lattice = P
        index = len(self.curves)
        self.curves.append(cur)
        self.cellsets.append(list(cells))
        if parent is not None:
            self.curves[parent].children.append(index)
        if depth + 1 >= self.maxdepth:
            return
        u = rs.uniform()
        if u < 0.2:
            return
        if u < 0.6 or len(cells) < 2:
            self._region(cells, depth + 1, index, rs)
            return
        pieces = grow_partition(cells, 2 + int(rs.uniform() < 0.4), rs)
        drawn = 0
        for p in pieces:
            if trace(p) is None:
                continue
            if drawn and rs.uniform() < 0.25:
                continue
            self._region(p, depth + 1, index, rs)
            drawn += 1

    def _labels(self):
        out = ["family:lattice"]
        if self.spec.get("template"):
            out.append("lattice:template")
        else:
            out.append("lattice:grown")
        concave = [len(c.nodes) > 4 for c in self.curves]
        if any(concave):
            out.append("concave_curve")
        for i, c in enumerate(self.curves):
            if c.parent is not None and concave[i] and concave[c.parent]:
                out.append("concave_in_concave")
                if not point_in_poly(c.centroid, self.curves[c.parent].nodes):
                    out.append("hole_centroid_outside_shell")
                if not point_in_poly(c.centroid, c.nodes):
                    out.append("centroid_outside_own_curve")
        # interleaved without nesting: B in the bounding box of A, centroid of B inside A, B not a descendant of A
        anc = []
        for i, c in enumerate(self.curves):
            a = set()
            p = c.parent
            while p is not None:
                a.add(p)
                p = self.curves[p].parent
            anc.append(a)
        for i, a in enumerate(self.curves):
            for j, b in enumerate(self.curves):
                if i == j or i in anc[j]:
                    continue
                if (b.bounds[0] >= a.bounds[0]).all() and (b.bounds[1] <= a.bounds[1]).all():
                    out.append("bbox_inside_not_nested")
                    if point_in_poly(b.centroid, a.nodes):
                        out.append("centroid_inside_not_nested")
        return sorted(set(out))


def make_drawing(spec):
    if spec.get("family") == "lattice":
        return LatticeDrawing(spec)
    return gd.Drawing(spec)
