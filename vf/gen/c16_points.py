"""Point-set generator for C16.  A *spec* is small JSON data; points(spec) -> (n, d) float64.

    {"d": 2|3, "kind": ..., "n": int, "seed": int,            base shape in unit coordinates
     "k": int                                                  lattice side (kind lattice*)
     "pts": [[...], ...]                                       explicit coordinates (kind explicit)
     "flat": e  (0 or 3..6), "flat_axis": a, "rot": seed|None  one axis scaled by 10^-e, then optional rotation
     "scale": 10^s, "offset": [..]}                            similarity placement

The base shape is built first, then flattened, rotated, scaled and translated, in that order, all in
float64, so the set that reaches trimesh is exactly the array returned here (the oracles use the same
array)."""

import math

import numpy as np
from hypothesis import strategies as st

KINDS3 = ["gauss", "uniform", "lattice", "lattice_shell", "cluster", "sphere", "cap", "explicit"]
KINDS2 = ["gauss", "uniform", "lattice", "cluster", "sphere", "cap", "explicit"]


def _rot(d, seed):
    rs = np.random.RandomState(seed & 0x7FFFFFFF)
    if d == 2:
        a = rs.uniform(0, 2 * math.pi)
        return np.array([[math.cos(a), -math.sin(a)], [math.sin(a), math.cos(a)]])
    # QR of a gaussian matrix, sign fixed: haar rotation
    Q, R = np.linalg.qr(rs.normal(size=(3, 3)))
    Q = Q * np.sign(np.diag(R))
    if np.linalg.det(Q) < 0:
        Q[:, 0] = -Q[:, 0]
    return Q


def base(spec):
    d = int(spec["d"])
    kind = spec["kind"]
    if kind == "explicit":
        return np.array(spec["pts"], dtype=np.float64).reshape((-1, d))
    n = int(spec["n"])
    rs = np.random.RandomState(int(spec["seed"]) & 0x7FFFFFFF)
    if kind == "gauss":
        return rs.normal(size=(n, d)) / 3.0
    if kind == "uniform":
        return rs.uniform(-1, 1, (n, d))
    if kind == "lattice":
        # subset (with repetition: duplicates are legal input) of the k^d integer grid
        k = int(spec.get("k", 3))
        return rs.randint(0, k, (n, d)).astype(np.float64)
    if kind == "lattice_shell":
        # grid points on the surface of the k-cube: every hull facet carries many coplanar points
        k = int(spec.get("k", 3))
        P = rs.randint(0, k, (n, d))
        ax = rs.randint(0, d, n)
        P[np.arange(n), ax] = rs.randint(0, 2, n) * (k - 1)
        return P.astype(np.float64)
    if kind == "cluster":
        nc = 2 + int(rs.randint(0, 4))
        cen = rs.uniform(-1, 1, (nc, d))
        sig = 10.0 ** rs.uniform(-4, -1.5, nc)
        lab = rs.randint(0, nc, n)
        P = cen[lab] + rs.normal(size=(n, d)) * sig[lab][:, None]
        nout = min(n, 1 + int(rs.randint(0, 4)))
        P[:nout] = rs.uniform(-3, 3, (nout, d))  # outliers
        return P
    if kind in ("sphere", "cap"):
        # points on a common sphere/circle (cocircular / cospherical ties); cap: all within a cone around +x
        V = rs.normal(size=(n, d))
        V /= np.linalg.norm(V, axis=1)[:, None]
        if kind == "cap":
            half = float(spec.get("cap", 0.6))
            V[:, 0] = np.abs(V[:, 0]) + 1.0 / math.tan(half) * np.linalg.norm(V[:, 1:], axis=1)
            V /= np.linalg.norm(V, axis=1)[:, None]
        return V
    raise ValueError(kind)


def points(spec):
    d = int(spec["d"])
    P = base(spec)
    e = int(spec.get("flat", 0) or 0)
    if e:
        P = P.copy()
        ax = int(spec.get("flat_axis", d - 1)) % d
        if spec.get("needle"):
            # needle: every axis but one is scaled down (a plate when only one is)
            for a in range(d):
                if a != ax:
                    P[:, a] *= 10.0 ** (-e)
        else:
            P[:, ax] *= 10.0 ** (-e)
    if spec.get("rot") is not None:
        P = P @ _rot(d, int(spec["rot"])).T
    P = P * float(spec.get("scale", 1.0))
    off = spec.get("offset")
    if off is not None:
        P = P + np.asarray(off, dtype=np.float64)[:d]
    return np.ascontiguousarray(P, dtype=np.float64)


def kind_label(spec):
    lab = f"d{spec['d']}:{spec['kind']}"
    if spec.get("flat"):
        lab += ":needle" if spec.get("needle") else ":flat"
    return lab


@st.composite
def placement(draw, d, allow_flat=True, allow_rot=True):
    out = {}
    if allow_flat and draw(st.integers(0, 3)) == 0:
        out["flat"] = draw(st.sampled_from([3, 4, 5, 6]))
        out["flat_axis"] = draw(st.integers(0, d - 1))
        if d == 3 and draw(st.integers(0, 2)) == 0:
            out["needle"] = True
    if allow_rot and draw(st.booleans()):
        out["rot"] = draw(st.integers(0, 2**31 - 1))
    out["scale"] = 10.0 ** draw(st.sampled_from([0, 0, 0, -5, -4, -3, -2, -1, 1, 2, 3, 4, 5, 6]))
    mag = draw(st.sampled_from([0.0, 0.0, 1.0, 1e3, 1e6]))
    if mag:
        sign = [draw(st.sampled_from([-1.0, 1.0, 0.37])) for _ in range(d)]
        out["offset"] = [mag * s for s in sign]
    return out


@st.composite
def point_spec(draw, d=3, kinds=None, nmax=300, nmin=4):
    kinds = kinds or (KINDS3 if d == 3 else KINDS2)
    kind = draw(st.sampled_from(kinds))
    spec = {"d": d, "kind": kind}
    if kind == "explicit":
        # small, fully drawn by Hypothesis so that a failure shrinks to a readable set: small integers
        # (ties) optionally perturbed by dyadic fractions
        m = draw(st.integers(nmin, 12))
        hi = draw(st.sampled_from([1, 2, 3, 4]))
        frac = draw(st.booleans())
        el = st.integers(-hi, hi)
        if frac:
            el = st.one_of(el, st.integers(-hi * 8, hi * 8).map(lambda v: v / 8.0))
        spec["pts"] = [[float(draw(el)) for _ in range(d)] for _ in range(m)]
    else:
        big = draw(st.integers(0, 3)) == 0
        spec["n"] = draw(st.integers(nmin, nmax if big else 40))
        spec["seed"] = draw(st.integers(0, 2**31 - 1))
        if kind in ("lattice", "lattice_shell"):
            spec["k"] = draw(st.sampled_from([2, 3, 3, 4, 5, 8]))
        if kind == "cap":
            spec["cap"] = draw(st.sampled_from([0.2, 0.6, 1.2]))
    allow_flat = kind not in ("sphere", "cap")
    spec.update(draw(placement(d, allow_flat=allow_flat)))
    return spec
