"""C07 helper: "dirty" tagged meshes (DESIGN section 3).

A *dirty spec* is small JSON data; build_dirty(spec, dv) -> dict of plain numpy arrays.  Everything random inside
comes from np.random.RandomState(spec["seed"]).  Vertex positions of the clean base lie on the decimal lattice
0.01*scale, i.e. in the middle of every rounding cell of width 10^-d (d >= 2) that trimesh.grouping.merge_vertices
uses, so that a duplicate displaced by 0.3 cells is certainly in the same cell and one displaced by >= 1.7 cells is
certainly not.

Tags: every per-face / per-vertex array is a unique encoding of the element index in the final (relabelled,
permuted) mesh, so the source element of any output datum can be looked up by value."""

import numpy as np
from hypothesis import strategies as st

from . import meshes

KINDS = ["tetra", "box", "octa", "icos", "prism", "torus", "uvsphere", "pillow"]

# unit (or near unit) directions whose components are multiples of 0.01: centres of the digits_norm>=2 cells
DIRS = np.array(
    [
        [1, 0, 0], [0, 1, 0], [0, 0, 1], [-1, 0, 0], [0, -1, 0], [0, 0, -1],
        [0.6, 0.8, 0], [0, 0.6, 0.8], [0.8, 0, 0.6], [-0.6, 0, 0.8], [0.28, 0.96, 0], [0, -0.96, 0.28],
    ],
    dtype=np.float64,
)  # fmt: skip

DERIVED = [
    "triangles", "triangles_cross", "triangles_center", "area_faces", "face_normals", "face_angles", "edges", "edges_sorted",
    "edges_face", "edges_unique", "face_adjacency", "vertex_normals", "vertex_degree", "referenced_vertices", "area",
]  # fmt: skip
DUP_MODES = ["exact", "within", "straddle", "outside"]
UV_SHIFTS = [(1.0, 0.0), (-1.0, 0.0), (0.0, 1.0), (2.0, 0.0), (1.0, 1.0), (3.0, -2.0)]


def _variant(face, how):
    a, b, c = [int(x) for x in face]
    return [(a, b, c), (b, c, a), (c, a, b), (c, b, a), (b, a, c), (a, c, b)][how % 6]


def build_dirty(spec, dv=8):
    """-> dict(V, F, cu, cn, noff, info) ; dv = number of decimal digits the duplicate offsets are scaled to"""
    rs = np.random.RandomState(int(spec.get("seed", 0)) & 0x7FFFFFFF)
    scale = float(spec.get("scale", 1.0))
    unit = 10.0 ** (-int(dv))
    base = spec["base"]
    info = []
    if base["kind"] == "spec":
        V, F = meshes.build(base["spec"])
        V = np.round(V * 100.0) / 100.0
        drop = min(int(base.get("drop", 0)), len(F) - 1)
        if drop > 0:
            keep = np.ones(len(F), dtype=bool)
            keep[rs.choice(len(F), size=drop, replace=False)] = False
            F = F[keep]
            info.append("open")
    elif base["kind"] == "lattice":
        # distinct points of a small integer lattice that contains 0 (grid / origin anchored meshes)
        V = np.array(base["pts"], dtype=np.float64).reshape((-1, 3)) * float(base.get("step", 1.0))
        F = np.array(base["faces"], dtype=np.int64).reshape((-1, 3))
        info.append("lattice")
    else:
        nv = int(base["nv"])
        F = np.array(base["faces"], dtype=np.int64).reshape((-1, 3))
        V = rs.randint(-150, 150, (nv, 3)).astype(np.float64) / 100.0
        V[:, 0] = (np.arange(nv) * 7 + rs.randint(0, 5, nv) - 20) / 100.0  # distinct points
        info.append("soup")
    V = V * scale
    V = [row for row in V]
    F = [[int(x) for x in f] for f in F]
    n0 = len(V)
    cu = list(range(n0))  # uv class of every vertex
    shift = {}  # vertex -> whole-number offset of its uv
    cn = [int(x) for x in rs.randint(0, len(DIRS), n0)]  # normal direction class
    noff = [0.0] * n0  # offset of the first normal component

    # ---- duplicated vertices: a copy of vertex v displaced by a chosen number of rounding cells, and some of the
    # face corners that referenced v now reference the copy
    modes = spec.get("dup_modes") or ["exact"]
    for _ in range(int(spec.get("dupv", 0))):
        v = int(rs.randint(len(V)))
        mode = modes[int(rs.randint(len(modes)))]
        d = np.zeros(3)
        if mode != "exact":
            d = rs.choice([-1.0, 1.0], 3) * rs.uniform(0.05, 0.3, 3) * unit
            ax = int(rs.randint(3))
            if mode == "straddle":
                d[ax] = rs.choice([-1.0, 1.0]) * 0.7 * unit
            elif mode == "outside":
                d[ax] = rs.choice([-1.0, 1.0]) * rs.uniform(1.7, 5.0) * unit
        new = len(V)
        V.append(V[v] + d)
        cu.append(cu[v] if rs.rand() < 0.5 else 1000 + new)
        if cu[-1] == cu[v] and rs.rand() < 0.4:
            # same place in the texture up to a whole number of periods (the two sides of a seam: u = 0 and u = 1)
            shift[new] = UV_SHIFTS[int(rs.randint(len(UV_SHIFTS)))]
            info.append("uv_integer_shift")
        cn.append(cn[v] if rs.rand() < 0.6 else int(rs.randint(len(DIRS))))
        noff.append(float(rs.choice([0.0, 0.0, 0.003, 0.007])))
        slots = [(i, c) for i, f in enumerate(F) for c in range(3) if f[c] == v]
        moved = 0
        for i, c in slots:
            if rs.rand() < 0.5:
                F[i][c] = new
                moved += 1
        if slots and not moved:
            i, c = slots[int(rs.randint(len(slots)))]
            F[i][c] = new
        info.append("dupv_" + mode)

    # ---- vertices with a non-finite coordinate that collide with another referenced vertex once the non-finite slot is
    # ignored or sanitised: "zero" = copy of a vertex that has 0 in that slot, "any" = copy of any vertex, "same" = exact
    # copy of an earlier non-finite vertex, "other" = copy of it with another non-finite value in the slot
    NFV = {"nan": np.nan, "inf": np.inf, "-inf": -np.inf}
    made = []  # (index, axis)
    for ent in spec.get("nfdup") or []:
        mode, val = ent["mode"], NFV[ent["val"]]
        if mode in ("same", "other") and made:
            w0, ax = made[int(rs.randint(len(made)))]
            p = V[w0].copy()
            if mode == "other":
                p[ax] = [x for x in (np.inf, -np.inf, np.nan) if not (x == V[w0][ax] or (np.isnan(x) and np.isnan(V[w0][ax])))][int(rs.randint(2))]
            v = w0
        else:
            fin = [i for i in range(len(V)) if np.isfinite(V[i]).all()]
            if not fin:
                continue
            zero = [(i, a) for i in fin for a in range(3) if V[i][a] == 0.0]
            if mode == "zero" and zero:
                v, ax = zero[int(rs.randint(len(zero)))]
            else:
                v, ax = fin[int(rs.randint(len(fin)))], int(rs.randint(3))
            p = V[v].copy()
            p[ax] = val
        new = len(V)
        V.append(p)
        made.append((new, ax))
        same_data = rs.rand() < 0.7
        cu.append(cu[v] if same_data else 4000 + new)
        cn.append(cn[v] if same_data else int(rs.randint(len(DIRS))))
        noff.append(noff[v] if same_data else 0.0)
        slots = [(i, c) for i, f in enumerate(F) for c in range(3) if f[c] == v]
        if len(slots) >= 2 and rs.rand() < 0.5:
            # re-point some (not all) corners of v
            k = int(rs.randint(1, len(slots)))
            for j in rs.choice(len(slots), size=k, replace=False):
                i, c = slots[int(j)]
                F[i][c] = new
        else:
            others = [i for i in range(len(V) - 1) if i != v]
            if len(others) >= 2:
                a, b = [int(x) for x in rs.choice(others, 2, replace=False)]
                F.append(list(_variant((new, a, b), int(rs.randint(3)))))
                if not slots:
                    F.append(list(_variant((v, b, a), int(rs.randint(3)))))
        info.append("nfdup_" + mode)

    # ---- repeated faces (same, rotated or reversed index order)
    for _ in range(int(spec.get("repf", 0))):
        if not F:
            break
        F.append(list(_variant(F[int(rs.randint(len(F)))], int(rs.randint(6)))))
        info.append("repf")

    # ---- degenerate faces
    for _ in range(int(spec.get("degen", 0))):
        how = int(rs.randint(3))
        if how == 0 and len(V) >= 2:
            a, b = [int(x) for x in rs.choice(len(V), 2, replace=False)]
            F.append(list(_variant((a, a, b), int(rs.randint(3)))))
            info.append("degen_aab")
        elif how == 1:
            a = int(rs.randint(len(V)))
            F.append([a, a, a])
            info.append("degen_aaa")
        else:
            p = rs.randint(-100, 100, 3).astype(np.float64) / 100.0 * scale + np.array([7.0, 0, 0]) * scale
            e = rs.randint(1, 20, 3).astype(np.float64) / 100.0 * scale
            k = len(V)
            for t in (0.0, 1.0, 2.0):
                V.append(p + t * e)
                cu.append(2000 + len(V))
                cn.append(int(rs.randint(len(DIRS))))
                noff.append(0.0)
            F.append(list(_variant((k, k + 1, k + 2), int(rs.randint(6)))))
            info.append("degen_collinear")

    # ---- unreferenced vertices (some of them exact copies of referenced ones)
    for _ in range(int(spec.get("unref", 0))):
        if rs.rand() < 0.4 and len(V):
            V.append(V[int(rs.randint(len(V)))].copy())
        else:
            V.append(rs.randint(-300, 300, 3).astype(np.float64) / 100.0 * scale)
        cu.append(3000 + len(V))
        cn.append(int(rs.randint(len(DIRS))))
        noff.append(0.0)
        info.append("unref")

    V = np.array(V, dtype=np.float64).reshape((-1, 3))
    F = np.array(F, dtype=np.int64).reshape((-1, 3))
    cu = np.array(cu, dtype=np.int64)
    uvs = np.zeros((len(V), 2))
    for k_, sh_ in shift.items():
        uvs[k_] = sh_
    cn = np.array(cn, dtype=np.int64)
    noff = np.array(noff, dtype=np.float64)

    # ---- non-finite coordinates
    nonfin = int(spec.get("nonfinite", 0))
    if nonfin:
        ref = np.zeros(len(V), dtype=bool)
        ref[F.reshape(-1)] = True
        pool = np.nonzero(ref)[0] if spec.get("nonfinite_ref") else np.nonzero(~ref)[0]
        if len(pool):
            for v in rs.choice(pool, size=min(nonfin, len(pool)), replace=False):
                V[int(v), int(rs.randint(3))] = [np.nan, np.inf, -np.inf][int(rs.randint(3))]
            info.append("nonfinite_ref" if spec.get("nonfinite_ref") else "nonfinite_unref")

    # ---- relabel vertices, permute faces
    if spec.get("relabel") and len(V) > 1:
        perm = rs.permutation(len(V))  # new index of old vertex v is perm[v]
        inv = np.empty_like(perm)
        inv[perm] = np.arange(len(V))
        V, cu, cn, noff, uvs = V[inv], cu[inv], cn[inv], noff[inv], uvs[inv]
        F = perm[F]
        info.append("relabel")
    if spec.get("permute") and len(F) > 1:
        F = F[rs.permutation(len(F))]
        info.append("permute")
    return {"V": np.ascontiguousarray(V), "F": np.ascontiguousarray(F), "cu": cu, "cn": cn, "noff": noff, "uvs": uvs, "info": info, "rs": rs}


def unit_normals(V, F):
    """own cross-product normals; zero rows where the cross product is (numerically) zero or not finite"""
    with np.errstate(all="ignore"):
        T = V[F]
        c = np.cross(T[:, 1] - T[:, 0], T[:, 2] - T[:, 0])
        n = np.sqrt((c * c).sum(axis=1))
        ok = np.isfinite(n) & (n > 1e-12)
        out = np.zeros((len(F), 3))
        out[ok] = c[ok] / n[ok][:, None]
    return out, ok


def make_tags(D, id_offset=0):
    """tag arrays for the arrays of build_dirty; id_offset makes tags of several meshes disjoint"""
    V, F, cu, cn, noff, rs = D["V"], D["F"], D["cu"], D["cn"], D["noff"], D["rs"]
    nv, nf = len(V), len(F)
    fi = np.arange(nf, dtype=np.int64) + id_offset
    vi = np.arange(nv, dtype=np.int64) + id_offset
    c = fi * 7 + 3
    FC = np.column_stack((c & 255, (c >> 8) & 255, np.full(nf, 77), 200 + fi % 56)).astype(np.uint8).reshape((-1, 4))
    c = vi * 5 + 1
    VC = np.column_stack(((c >> 8) & 255, np.full(nv, 191), c & 255, 150 + vi % 100)).astype(np.uint8).reshape((-1, 4))
    UV = np.column_stack((cu * 0.01 + (vi + 1) * 1e-9, 0.5 + 0.01 * (cu % 13))).reshape((-1, 2))
    if "uvs" in D and len(D["uvs"]) == nv:
        UV = UV + D["uvs"]
    VN = DIRS[cn] + (vi + 1)[:, None] * 1e-7 * np.array([1.0, 0.5, 0.25])
    VN[:, 0] += noff
    FN, ok = unit_normals(V, F)
    FN = FN + 4e-9 * rs.uniform(-1, 1, (nf, 3))
    return {
        "FC": FC,
        "VC": VC,
        "UV": UV,
        "VN": VN.reshape((-1, 3)),
        "FN": FN.reshape((-1, 3)),
        "FA_tag": fi * 3 + 1,
        "FA_vec": np.column_stack((fi * 0.5, -fi.astype(np.float64))).reshape((-1, 2)),
        "VA_tag": vi * 11 + 2,
        "VA_vec": np.column_stack((vi * 0.25, vi + 0.5, -vi.astype(np.float64))).reshape((-1, 3)),
    }


# ----------------------------------------------------------------------------------------- strategies


@st.composite
def base_spec(draw, max_parts=2, soup_p=True):
    if soup_p and draw(st.integers(0, 3)) == 0:
        nv = draw(st.integers(3, 9))
        idx = st.integers(0, nv - 1)
        distinct = st.lists(idx, min_size=3, max_size=3, unique=True)
        free = st.lists(idx, min_size=3, max_size=3)
        faces = draw(st.lists(st.one_of(distinct, distinct, distinct, free), min_size=1, max_size=10))
        return {"kind": "soup", "nv": nv, "faces": faces}
    spec = draw(meshes.mesh_spec(kinds=KINDS, max_parts=max_parts, jitter=False, max_faces=100))
    return {"kind": "spec", "spec": spec, "drop": draw(st.sampled_from([0, 0, 1, 2, 4]))}


@st.composite
def dirty_spec(draw, nonfinite=False, max_parts=2, clean_p=False):
    d = {
        "base": draw(base_spec(max_parts=max_parts)),
        "seed": draw(st.integers(0, 2**31 - 1)),
        "scale": draw(st.sampled_from([1.0, 1.0, 100.0])),
        "dupv": draw(st.sampled_from([0, 1, 2, 3, 6])),
        "dup_modes": draw(st.lists(st.sampled_from(DUP_MODES), min_size=1, max_size=3, unique=True)),
        "repf": draw(st.sampled_from([0, 0, 1, 3])),
        "degen": draw(st.sampled_from([0, 0, 1, 3])),
        "unref": draw(st.sampled_from([0, 0, 1, 3])),
        "relabel": draw(st.booleans()),
        "permute": draw(st.booleans()),
    }
    if nonfinite:
        d["nonfinite"] = draw(st.sampled_from([0, 1, 2]))
        d["nonfinite_ref"] = draw(st.sampled_from([False, False, False, True]))
    return d


@st.composite
def lattice_spec(draw):
    """dirty spec on a small lattice containing 0, with colliding non-finite vertices"""
    coord = st.integers(-1, 2)
    pts = draw(st.lists(st.tuples(coord, coord, coord), min_size=4, max_size=9, unique=True))
    idx = st.integers(0, len(pts) - 1)
    faces = draw(st.lists(st.lists(idx, min_size=3, max_size=3, unique=True), min_size=2, max_size=10))
    ent = st.fixed_dictionaries({"mode": st.sampled_from(["zero", "zero", "any", "same", "other"]), "val": st.sampled_from(["nan", "nan", "inf", "-inf"])})
    return {
        "base": {"kind": "lattice", "pts": [list(p) for p in pts], "faces": faces, "step": draw(st.sampled_from([1.0, 1.0, 0.5, 0.01]))},
        "seed": draw(st.integers(0, 2**31 - 1)),
        "scale": 1.0,
        "dupv": draw(st.sampled_from([0, 0, 1, 2])),
        "dup_modes": draw(st.lists(st.sampled_from(DUP_MODES), min_size=1, max_size=2, unique=True)),
        "nfdup": draw(st.lists(ent, min_size=1, max_size=3)),
        "repf": draw(st.sampled_from([0, 0, 1])),
        "degen": 0,
        "unref": draw(st.sampled_from([0, 0, 1, 2])),
        "relabel": draw(st.booleans()),
        "permute": draw(st.booleans()),
    }


@st.composite
def attach_spec(draw):
    return {
        # painted_*: no colours assigned; the lazily created default colour array is edited in place
        "visual": draw(st.sampled_from(["face", "vertex", "texture", "none", "face", "vertex", "texture", "painted_vertex", "painted_face"])),
        "paint_read": draw(st.booleans()),
        # derived values read (and so cached) before the operation
        "derived": draw(st.one_of(st.just([]), st.lists(st.sampled_from(DERIVED), min_size=1, max_size=4, unique=True))),
        "fattr": draw(st.booleans()),
        "vattr": draw(st.booleans()),
        "fnorm": draw(st.booleans()),
        "vnorm": draw(st.booleans()),
        "warm": draw(st.sampled_from([False, False, True])),
    }
