"""Matrix classes (DESIGN section 3). Every strategy returns JSON data {"cls": label, "M": 4x4 nested list}.
The formulas here are written from the definitions (Rodrigues, Householder), not taken from trimesh."""

import math

import numpy as np
from hypothesis import strategies as st

ALL_CLASSES = [
    "identity",
    "translation",
    "rotation",
    "rigid",
    "similarity",
    "mirror",
    "neg_uniform",
    "anisotropic",
    "shear",
    "general_affine",
    "near_identity",
]
RIGID_CLASSES = ["identity", "translation", "rotation", "rigid"]
SIMILARITY_CLASSES = RIGID_CLASSES + ["similarity"]

_f = lambda lo, hi: st.floats(lo, hi, allow_nan=False, allow_infinity=False)  # noqa


def rodrigues(axis, angle):
    a = np.asarray(axis, dtype=np.float64)
    a = a / np.linalg.norm(a)
    K = np.array([[0, -a[2], a[1]], [a[2], 0, -a[0]], [-a[1], a[0], 0]])
    return np.eye(3) + math.sin(angle) * K + (1 - math.cos(angle)) * (K @ K)


def householder(normal):
    n = np.asarray(normal, dtype=np.float64)
    n = n / np.linalg.norm(n)
    return np.eye(3) - 2.0 * np.outer(n, n)


@st.composite
def unit_vec(draw):
    kind = draw(st.integers(0, 3))
    if kind == 0:
        v = [0.0, 0.0, 0.0]
        v[draw(st.integers(0, 2))] = draw(st.sampled_from([1.0, -1.0]))
        return v
    v = [draw(_f(-1, 1)) for _ in range(3)]
    n = math.sqrt(sum(x * x for x in v))
    if n < 1e-2:
        return [1.0, 0.0, 0.0]
    return [x / n for x in v]


@st.composite
def rot3(draw):
    kind = draw(st.integers(0, 2))
    if kind == 0:
        # axis-aligned quarter turns
        ax = [0.0, 0.0, 0.0]
        ax[draw(st.integers(0, 2))] = 1.0
        ang = draw(st.sampled_from([1, 2, 3])) * math.pi / 2
        R = np.round(rodrigues(ax, ang))
        return R
    ang = draw(_f(0.05, math.pi)) * draw(st.sampled_from([1.0, -1.0]))
    return rodrigues(draw(unit_vec()), ang)


def _translation(draw, scale):
    """translation components are exactly zero or at least 1e-6 in size: trimesh documents that matrices within 1e-8
    of identity (apply_transform) or of the stored edge (SceneGraph.update) are treated as unchanged, and Hypothesis
    shrinks floats into that window; the window itself is probed on purpose by the near_identity class only"""
    out = []
    for _ in range(3):
        t = draw(_f(-1, 1)) * scale
        out.append(t if abs(t) >= 1e-6 else 0.0)
    return out


def _hom(L, t):
    M = np.eye(4)
    M[:3, :3] = L
    M[:3, 3] = t
    return M


@st.composite
def matrix(draw, classes=None, tscale=None):
    """-> {"cls": str, "M": 4x4 list, "delta": float (near_identity only)}"""
    cls = draw(st.sampled_from(classes or ALL_CLASSES))
    ts = tscale if tscale is not None else draw(st.sampled_from([0.0, 1.0, 10.0, 1000.0]))
    out = {"cls": cls}
    if cls == "identity":
        M = np.eye(4)
    elif cls == "translation":
        t = _translation(draw, max(ts, 1.0))
        M = _hom(np.eye(3), t)
    elif cls == "rotation":
        M = _hom(draw(rot3()), [0, 0, 0])
    elif cls == "rigid":
        M = _hom(draw(rot3()), _translation(draw, ts))
    elif cls == "similarity":
        s = draw(st.one_of(_f(0.01, 0.9), _f(1.1, 100.0)))
        M = _hom(s * draw(rot3()), _translation(draw, ts))
    elif cls == "mirror":
        H = householder(draw(unit_vec()))
        R = draw(rot3()) if draw(st.booleans()) else np.eye(3)
        # include very small and very large uniform factors: det = -s^3 spans 1e-12 .. 1e9 (tests on the
        # determinant with an absolute epsilon only show at those ends)
        s = draw(st.sampled_from([1.0, 1.0, 0.5, 3.0, 1e-3, 2e-3, 1e-4, 1e3]))
        M = _hom(s * (R @ H), _translation(draw, ts))
    elif cls == "neg_uniform":
        s = -draw(st.one_of(_f(0.2, 5.0), st.sampled_from([1e-3, 1e-4, 2.5e-3, 1e3])))
        M = _hom(s * np.eye(3), _translation(draw, ts))
    elif cls == "anisotropic":
        d = [draw(st.one_of(_f(0.1, 0.8), _f(1.25, 10.0))) for _ in range(2)] + [1.0]
        order = draw(st.permutations([0, 1, 2]))
        D = np.diag([d[i] for i in order])
        if draw(st.booleans()):
            R = draw(rot3())
            L = R @ D @ R.T if draw(st.booleans()) else R @ D
        else:
            L = D
        M = _hom(L, _translation(draw, ts))
    elif cls == "shear":
        L = np.eye(3)
        i, j = draw(st.sampled_from([(0, 1), (0, 2), (1, 2), (1, 0), (2, 0), (2, 1)]))
        L[i, j] = draw(st.one_of(_f(0.2, 2.0), _f(-2.0, -0.2)))
        if draw(st.booleans()):
            L = draw(rot3()) @ L
        M = _hom(L, _translation(draw, ts))
    elif cls == "general_affine":
        # product of rotation, well conditioned diagonal (possibly negative), rotation
        if draw(st.integers(0, 2)) == 0:
            # a skew basis whose three columns have the same length (rhombohedral / hexagonal lattice basis): not
            # conformal although every "are the axes scaled alike" shortcut says so
            a = draw(st.sampled_from([0.25, 0.5, -0.3, 0.8]))
            L0 = np.eye(3) + a * (np.ones((3, 3)) - np.eye(3))
            L = draw(st.sampled_from([1.0, 0.5, 3.0])) * (draw(rot3()) @ L0)
            if draw(st.booleans()):
                L = L @ np.diag([1.0, 1.0, -1.0])
        else:
            d = [draw(st.one_of(_f(0.2, 0.8), _f(1.25, 5.0))) * draw(st.sampled_from([1.0, 1.0, -1.0])) for _ in range(3)]
            L = draw(rot3()) @ np.diag(d) @ draw(rot3())
        M = _hom(L, _translation(draw, ts))
    elif cls == "near_identity":
        # delta log-uniform in [1e-10, 1e-4] : populates both sides of the 1e-8 and 1e-6 shortcuts
        e = draw(_f(-10.0, -4.0))
        delta = 10.0**e
        P = np.array([[draw(_f(-1, 1)) for _ in range(4)] for _ in range(3)])
        # make the largest entry exactly +-1 so that max|M - I| == delta
        P = P / max(np.abs(P).max(), 1e-3)
        M = np.eye(4)
        M[:3, :] += delta * P
        out["delta"] = delta
    else:
        raise ValueError(cls)
    out["M"] = np.asarray(M, dtype=np.float64).tolist()
    return out


def classify(M, tol=1e-9):
    """Classify a 4x4 (for evidence / signatures): returns dict(det, is_similarity, is_rigid, scale)"""
    M = np.asarray(M, dtype=np.float64)
    L = M[:3, :3]
    det = float(np.linalg.det(L))
    s = abs(det) ** (1.0 / 3.0) if det != 0 else 0.0
    is_sim = s > 0 and np.allclose(L.T @ L, (s * s) * np.eye(3), rtol=0, atol=tol * max(1.0, s * s))
    return {"det": det, "scale": s, "is_similarity": bool(is_sim), "is_rigid": bool(is_sim and abs(s - 1) < 1e-9), "flip": det < 0}


# ---- 2D (3x3 homogeneous) for paths


@st.composite
def matrix2d(draw, classes=("rigid", "similarity", "mirror", "translation", "identity")):
    cls = draw(st.sampled_from(list(classes)))
    M = np.eye(3)
    if cls != "identity":
        M[:2, 2] = [draw(_f(-10, 10)), draw(_f(-10, 10))]
    if cls in ("rigid", "similarity", "mirror"):
        a = draw(_f(-math.pi, math.pi))
        R = np.array([[math.cos(a), -math.sin(a)], [math.sin(a), math.cos(a)]])
        if cls == "similarity":
            R = R * draw(st.one_of(_f(0.05, 0.9), _f(1.1, 20.0)))
        if cls == "mirror":
            R = R @ np.diag([1.0, -1.0]) * draw(st.sampled_from([1.0, 0.5, 2.0]))
        M[:2, :2] = R
    return {"cls": cls, "M": M.tolist()}
