"""C11 helper: extruded polyomino solids (own construction, independent of trimesh.creation).

A boolean cell mask on a rectilinear grid (column / row widths are positive integers) is extruded to height h.  Every
filled cell contributes its top and bottom square, every side between a filled cell and an empty one (or the outside) a
wall; all vertices are grid points, so the surface is closed, consistently wound and free of T-junctions as long as no
two filled cells touch only in a corner (sanitize() removes those).  Empty regions enclosed by filled cells are
through-holes; outline and holes are arbitrary rectilinear polygons (L, U, C, comb, ring with a tongue ...), i.e. the
section by any plane is a known non-convex polygon with non-convex holes."""

import numpy as np
from hypothesis import strategies as st


def _components(mask, value):
    m, n = mask.shape
    lab = -np.ones((m, n), dtype=np.int64)
    comps = []
    for i in range(m):
        for j in range(n):
            if mask[i, j] == value and lab[i, j] < 0:
                k = len(comps)
                stack = [(i, j)]
                lab[i, j] = k
                cells = []
                while stack:
                    a, b = stack.pop()
                    cells.append((a, b))
                    for c, d in ((a + 1, b), (a - 1, b), (a, b + 1), (a, b - 1)):
                        if 0 <= c < m and 0 <= d < n and mask[c, d] == value and lab[c, d] < 0:
                            lab[c, d] = k
                            stack.append((c, d))
                comps.append(cells)
    return comps


def sanitize(mask, keep_all=False):
    """largest edge-connected component (all components when keep_all: islands inside holes are separate bodies),
    corner-only contacts filled in; never empty"""
    mask = np.array(mask, dtype=bool)
    if mask.ndim != 2 or mask.size == 0:
        mask = np.ones((1, 1), dtype=bool)
    if not mask.any():
        mask = mask.copy()
        mask[0, 0] = True
    comps = _components(mask, True)
    big = max(comps, key=len)
    out = np.zeros_like(mask)
    for a, b in ([c for comp in comps for c in comp] if keep_all else big):
        out[a, b] = True
    changed = True
    while changed:
        changed = False
        for i in range(out.shape[0] - 1):
            for j in range(out.shape[1] - 1):
                q = out[i : i + 2, j : j + 2]
                if (q[0, 0] and q[1, 1] and not q[0, 1] and not q[1, 0]) or (q[0, 1] and q[1, 0] and not q[0, 0] and not q[1, 1]):
                    out[i : i + 2, j : j + 2] = True
                    changed = True
    return out


def analyse(mask, xs, ys):
    """-> dict(holes, hole_nonconvex, hole_centroid_in_material, outline_nonconvex)"""
    mask = np.asarray(mask, dtype=bool)
    pad = np.zeros((mask.shape[0] + 2, mask.shape[1] + 2), dtype=bool)
    pad[1:-1, 1:-1] = mask
    X = np.concatenate(([0], np.cumsum(xs)))
    Y = np.concatenate(([0], np.cumsum(ys)))
    holes = [c for c in _components(pad, False) if (0, 0) not in c]
    nonconvex = cim = False
    for cells in holes:
        cc = [(a - 1, b - 1) for a, b in cells]
        ii = [a for a, _ in cc]
        jj = [b for _, b in cc]
        if len(cc) != (max(ii) - min(ii) + 1) * (max(jj) - min(jj) + 1):
            nonconvex = True
        ar = np.array([xs[a] * ys[b] for a, b in cc], dtype=np.float64)
        cx = float((ar * np.array([(X[a] + X[a + 1]) / 2 for a, _ in cc])).sum() / ar.sum())
        cy = float((ar * np.array([(Y[b] + Y[b + 1]) / 2 for _, b in cc])).sum() / ar.sum())
        ci = int(np.searchsorted(X, cx, side="right") - 1)
        cj = int(np.searchsorted(Y, cy, side="right") - 1)
        if 0 <= ci < mask.shape[0] and 0 <= cj < mask.shape[1] and mask[ci, cj]:
            cim = True
    filled = np.argwhere(mask)
    bb = (np.ptp(filled[:, 0]) + 1) * (np.ptp(filled[:, 1]) + 1)
    # nesting depth of the horizontal section: alternate flood fills from the outside (empty, filled, empty ...)
    depth, reach, val = 0, np.zeros_like(pad), False
    front = {(0, 0)}
    seen = np.zeros_like(pad)
    cur = [(0, 0)]
    seen[0, 0] = True
    while cur:
        nxt = []
        stack = list(cur)
        while stack:
            a, b = stack.pop()
            for c, d in ((a + 1, b), (a - 1, b), (a, b + 1), (a, b - 1)):
                if 0 <= c < pad.shape[0] and 0 <= d < pad.shape[1] and not seen[c, d]:
                    seen[c, d] = True
                    (stack if pad[c, d] == val else nxt).append((c, d))
        if nxt:
            depth += 1
            val = not val
        cur = nxt
    return {"depth": depth, "holes": len(holes), "hole_nonconvex": nonconvex, "hole_centroid_in_material": cim,
            "outline_nonconvex": bool(len(filled) + sum(len(h) for h in holes) != bb)}


def build(spec):
    """spec: {"mask": rows of 0/1 (first index = x), "xs": column widths, "ys": row widths, "h": height, "diag": int}
    -> V (float64, integer valued), F, info"""
    mask = sanitize(spec["mask"], keep_all=bool(spec.get("multi")))
    m, n = mask.shape
    xs = [max(1, int(v)) for v in (list(spec.get("xs") or []) + [1] * m)[:m]]
    ys = [max(1, int(v)) for v in (list(spec.get("ys") or []) + [1] * n)[:n]]
    h = max(1, int(spec.get("h", 2)))
    diag = int(spec.get("diag", 0))
    X = np.concatenate(([0], np.cumsum(xs)))
    Y = np.concatenate(([0], np.cumsum(ys)))
    index = {}
    V = []

    def vid(i, j, k):
        key = (i, j, k)
        if key not in index:
            index[key] = len(V)
            V.append([float(X[i]), float(Y[j]), float(h * k)])
        return index[key]

    F = []

    def quad(a, b, c, d, flip):
        # a,b,c,d counter clockwise seen from outside; the diagonal alternates for variety
        if flip:
            F.append([a, b, d])
            F.append([b, c, d])
        else:
            F.append([a, b, c])
            F.append([a, c, d])

    def filled(i, j):
        return 0 <= i < m and 0 <= j < n and bool(mask[i, j])

    for i in range(m):
        for j in range(n):
            if not mask[i, j]:
                continue
            fl = bool((i * 3 + j * 5 + diag) % 2) if diag else False
            quad(vid(i, j, 1), vid(i + 1, j, 1), vid(i + 1, j + 1, 1), vid(i, j + 1, 1), fl)
            quad(vid(i, j, 0), vid(i, j + 1, 0), vid(i + 1, j + 1, 0), vid(i + 1, j, 0), fl)
            if not filled(i + 1, j):
                quad(vid(i + 1, j, 0), vid(i + 1, j + 1, 0), vid(i + 1, j + 1, 1), vid(i + 1, j, 1), fl)
            if not filled(i - 1, j):
                quad(vid(i, j, 0), vid(i, j, 1), vid(i, j + 1, 1), vid(i, j + 1, 0), fl)
            if not filled(i, j + 1):
                quad(vid(i, j + 1, 0), vid(i, j + 1, 1), vid(i + 1, j + 1, 1), vid(i + 1, j + 1, 0), fl)
            if not filled(i, j - 1):
                quad(vid(i, j, 0), vid(i + 1, j, 0), vid(i + 1, j, 1), vid(i, j, 1), fl)
    info = analyse(mask, xs, ys)
    info["cells"] = int(mask.sum())
    info["volume"] = float(sum(xs[i] * ys[j] for i, j in np.argwhere(mask)) * h)
    return np.array(V, dtype=np.float64), np.array(F, dtype=np.int64), info


# ------------------------------------------------------------------------------------------------ strategies


def _ring_tongue(W, H, side, pos, length, second):
    g = np.zeros((W, H), dtype=bool)
    g[0, :] = g[-1, :] = True
    g[:, 0] = g[:, -1] = True
    pos = 1 + pos % max(1, (W if side in (0, 1) else H) - 2)
    length = 1 + length % max(1, (H if side in (0, 1) else W) - 3)
    if side == 0:
        g[pos, 1 : 1 + length] = True
    elif side == 1:
        g[pos, H - 1 - length : H - 1] = True
    elif side == 2:
        g[1 : 1 + length, pos] = True
    else:
        g[W - 1 - length : W - 1, pos] = True
    if second and W >= 7:
        g[W // 2, :] = True  # a wall: two holes
    return g


def _outline(kind, W, H, t):
    g = np.zeros((W, H), dtype=bool)
    if kind == "L":
        g[0, :] = True
        g[:, 0] = True
    elif kind == "U":
        g[0, :] = g[-1, :] = True
        g[:, 0] = True
    elif kind == "C":
        g[:, 0] = g[:, -1] = True
        g[0, :] = True
    else:  # comb
        g[:, 0] = True
        g[::2, :] = True
    if t:
        g[1, 1] = True
    return g


def _nested(rings, ex, ey, solid_core, shift):
    """concentric rectangular rings one cell thick, one cell apart: frame > hole > island (> hole in island > ...)"""
    core = 1 if solid_core else 3
    W = 4 * (rings - 1) + core + ex
    H = 4 * (rings - 1) + core + ey
    g = np.zeros((W, H), dtype=bool)
    for r in range(rings):
        o = 2 * r
        a0, a1, b0, b1 = o, W - 1 - o, o, H - 1 - o
        if r == rings - 1 and solid_core:
            g[a0 : a1 + 1, b0 : b1 + 1] = True
        else:
            g[a0, b0 : b1 + 1] = g[a1, b0 : b1 + 1] = True
            g[a0 : a1 + 1, b0] = g[a0 : a1 + 1, b1] = True
    if shift and rings == 2 and ex >= 2:
        # move the island off centre inside the (wider) hole
        inner = g[2:-2, 2:-2].copy()
        g[2:-2, 2:-2] = False
        g[2 : 2 + inner.shape[0] - 1, 2:-2] = inner[1:, :] if inner.shape[0] > 1 else inner
    return g


@st.composite
def cells_spec(draw, families=None):
    fam = draw(st.sampled_from(families or ["u_hole", "u_hole", "u_hole", "ring_tongue", "ring_tongue", "outline", "random", "ring_in_outline", "nested"]))
    W = draw(st.integers(4, 7))
    H = draw(st.integers(4, 7))
    if fam == "u_hole":
        # frame around a 3 x k opening with a long central tongue: the U shaped hole has its centroid in the tongue
        k = draw(st.integers(3, 5))
        g = np.ones((5, k + 2), dtype=bool)
        g[1:4, 1 : k + 1] = False
        g[2, 1:k] = True
        if draw(st.booleans()):
            g = g[:, ::-1]
        if draw(st.booleans()):
            g = g.T
        if draw(st.booleans()):  # non-convex outline as well: an arm
            g = np.pad(g, ((0, 2), (0, 0)))
            g[-2:, : 1 + draw(st.integers(0, 1))] = True
    elif fam == "nested":
        g = _nested(draw(st.sampled_from([2, 2, 2, 3])), draw(st.integers(0, 1)), draw(st.integers(0, 1)), draw(st.booleans()), False)
        if draw(st.booleans()):
            g = g.T
    elif fam == "ring_tongue":
        g = _ring_tongue(W, H, draw(st.integers(0, 3)), draw(st.integers(0, 5)), draw(st.integers(0, 5)), draw(st.booleans()))
    elif fam == "outline":
        g = _outline(draw(st.sampled_from(["L", "U", "C", "comb"])), W, H, draw(st.booleans()))
    elif fam == "ring_in_outline":
        # an L / U shaped plate two cells thick with a ring+tongue hole punched into its corner block
        g = np.zeros((W + 3, H + 3), dtype=bool)
        g[:W, :H] = _ring_tongue(W, H, draw(st.integers(0, 3)), draw(st.integers(0, 5)), draw(st.integers(0, 5)), False)
        g[W:, :2] = True
        if draw(st.booleans()):
            g[:2, H:] = True
    else:
        bits = draw(st.lists(st.booleans(), min_size=W * H, max_size=W * H))
        g = np.array(bits, dtype=bool).reshape((W, H))
        if draw(st.booleans()):
            g[0, :] = g[-1, :] = True
            g[:, 0] = g[:, -1] = True
    for _ in range(draw(st.integers(0, 2)) if fam != "nested" else 0):
        i, j = draw(st.integers(0, g.shape[0] - 1)), draw(st.integers(0, g.shape[1] - 1))
        g[i, j] = not g[i, j]
    uniform = draw(st.booleans())
    xs = [1 if uniform else draw(st.integers(1, 3)) for _ in range(g.shape[0])]
    ys = [1 if uniform else draw(st.integers(1, 3)) for _ in range(g.shape[1])]
    out = {"mask": g.astype(int).tolist(), "xs": xs, "ys": ys, "h": draw(st.sampled_from([2, 2, 3, 4, 6])), "diag": draw(st.integers(0, 3))}
    if fam == "nested":
        out["multi"] = True
    return out
