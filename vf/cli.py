"""./check <ID> [--tier quick|thorough] [--replay FILE]   (see vf/core.py)"""

import argparse
import glob
import hashlib
import importlib
import json
import multiprocessing as mp
import os
import sys
import time
import traceback

from . import core
from .core import Ctx, HarnessError, Violation

HOME = core.HOME


def load_ledger(prop):
    """KNOWN_FINDINGS.txt lines:
    known: property=C02 sig=<sig> witness=<path relative to /verif> :: text
    fixed: property=C09 <commit> <text>
    """
    known = []
    path = os.path.join(HOME, "KNOWN_FINDINGS.txt")
    if not os.path.exists(path):
        return known
    for line in open(path):
        line = line.strip()
        if not line.startswith("known:"):
            continue
        head, _, text = line[len("known:") :].partition("::")
        kv = dict(tok.split("=", 1) for tok in head.split() if "=" in tok)
        if kv.get("property") != prop:
            continue
        known.append({"sig": kv["sig"], "witness": kv.get("witness"), "text": text.strip()})
    return known


def _quiet():
    import logging
    import warnings

    logging.disable(logging.CRITICAL)
    warnings.simplefilter("ignore")


def _task(args):
    prop, tier, seed, subname, shard, nshards, known_sigs, deadline = args
    _quiet()
    try:
        importlib.import_module(f"vf.props.{prop.lower()}")
        sub = [s for s in core.SUBCHECKS[prop] if s["name"] == subname][0]
        ctx = Ctx(prop, tier, seed, subname, shard, nshards, known_sigs, deadline)
        t0 = time.time()
        sub["fn"](ctx)
        res = ctx.result()
        res["wall_s"] = time.time() - t0
        return res
    except HarnessError as e:
        return {"sub": subname, "shard": shard, "harness_error": str(e)}
    except BaseException as e:  # noqa
        return {
            "sub": subname,
            "shard": shard,
            "harness_error": "".join(traceback.format_exception(type(e), e, e.__traceback__))[-4000:],
        }


def save_failure(prop, f):
    d = os.path.join(os.environ.get("VERIF_REPLAY_OUT") or os.path.join(HOME, "replay_out"), prop)
    os.makedirs(d, exist_ok=True)
    blob = json.dumps(f, sort_keys=True, allow_nan=True)
    name = f["body"].replace(".", "_").replace("/", "_") + "-" + hashlib.sha1(blob.encode()).hexdigest()[:8] + ".json"
    path = os.path.join(d, name)
    with open(path, "w") as fh:
        fh.write(json.dumps(f, sort_keys=True, allow_nan=True, indent=1))
    return path


def replay_one(prop, path, known_sigs):
    """-> (status, sig, msg); status in pass / violation / known"""
    f = json.load(open(path))
    ctx = Ctx(prop, "quick", 0, "replay", 0, 1, [], time.time() + 3600)
    try:
        ctx.run_case(f["body"], f["case"])
    except Violation as v:
        tmp = Ctx(prop, "quick", 0, "replay", 0, 1, known_sigs, 0)
        if tmp.is_known(v.sig):
            return "known", v.sig, v.msg
        return "violation", v.sig, v.msg
    return "pass", None, None


def main(argv=None):
    ap = argparse.ArgumentParser()
    ap.add_argument("prop")
    ap.add_argument("--tier", default=os.environ.get("VERIF_TIER") or "quick", choices=["quick", "thorough"])
    ap.add_argument("--replay", default=None)
    ap.add_argument("--only", default=None, help="comma separated sub-check names (development)")
    ap.add_argument("--jobs", type=int, default=int(os.environ.get("VERIF_JOBS", "16")))
    a = ap.parse_args(argv)
    prop = a.prop.upper()
    t0 = time.time()
    _quiet()
    try:
        seed = int(os.environ.get("VERIF_SEED", "1") or 1)
    except ValueError:
        seed = 1

    try:
        import trimesh

        tf = os.path.realpath(trimesh.__file__)
        if not tf.startswith(core.REPO + os.sep):
            print(f"HARNESS-ERROR: trimesh imported from {tf}, not from {core.REPO}")
            return 2
        importlib.import_module(f"vf.props.{prop.lower()}")
    except BaseException as e:  # noqa
        fr = None
        if not isinstance(e, (ImportError, SyntaxError)) or True:
            traceback.print_exc()
        print(f"HARNESS-ERROR: cannot import trimesh / property module for {prop}: {type(e).__name__}: {e}")
        return 2

    ledger = load_ledger(prop)
    known_sigs = [k["sig"] for k in ledger]
    # development only: continue the search behind a defect that is not dispositioned yet
    dev_known = [x for x in (os.environ.get("VERIF_EXTRA_KNOWN") or "").split(";;") if x]
    known_sigs += dev_known

    # ---- replay mode
    if a.replay:
        path = a.replay if os.path.isabs(a.replay) else os.path.join(HOME, a.replay) if not os.path.exists(a.replay) else os.path.abspath(a.replay)
        try:
            status, sig, msg = replay_one(prop, path, known_sigs)
        except HarnessError as e:
            print(f"HARNESS-ERROR: {e}")
            return 2
        if status == "violation":
            print(f"replay: {sig} :: {msg}")
            print(f"VIOLATION property={prop} replay={path}")
            return 1
        if status == "known":
            print(f"KNOWN-FINDING: property={prop} {sig} :: {msg}")
        else:
            print(f"replay {path}: property holds on this case")
        return 0

    violations = []  # (path, sig, msg)
    harness_errors = []
    out_lines = []

    # ---- regression tier: every committed replay file, and the witness of every known finding
    replayed = 0
    known_confirmed = {}
    for k in ledger:
        if not k["witness"]:
            continue
        wp = os.path.join(HOME, k["witness"])
        try:
            status, sig, msg = replay_one(prop, wp, known_sigs)
            replayed += 1
        except BaseException as e:  # noqa
            harness_errors.append(f"known witness {wp}: {type(e).__name__}: {e}")
            continue
        if status == "known":
            known_confirmed[k["sig"]] = k
            print(f"KNOWN-FINDING: property={prop} sig={k['sig']} :: {k['text']}")
        elif status == "violation":
            violations.append((wp, sig, msg))
        else:
            print(f"note: known finding {k['sig']} no longer reproduces from its witness (fixed?)")
    witness_paths = {os.path.realpath(os.path.join(HOME, k["witness"])) for k in ledger if k["witness"]}
    for path in sorted(glob.glob(os.path.join(HOME, "replay", prop, "*.json"))):
        if os.path.realpath(path) in witness_paths:
            continue
        try:
            status, sig, msg = replay_one(prop, path, known_sigs)
            replayed += 1
        except BaseException as e:  # noqa
            harness_errors.append(f"replay {path}: {type(e).__name__}: {e}")
            continue
        if status == "violation":
            violations.append((path, sig, msg))

    # ---- generated search
    wall = float(os.environ.get("VERIF_WALL", "0") or 0) or (170.0 if a.tier == "quick" else 2400.0)
    deadline = t0 + wall
    subs = core.SUBCHECKS.get(prop, [])
    if a.only:
        names = set(a.only.split(","))
        subs = [s for s in subs if s["name"] in names]
    tasks = []
    for s in subs:
        n = int(s["shards"].get(a.tier, 1))
        for sh in range(n):
            tasks.append((prop, a.tier, seed, s["name"], sh, n, known_sigs, deadline))
    results = []
    abandoned = []
    if tasks:
        jobs = max(1, min(a.jobs, len(tasks)))
        if jobs == 1:
            results = [_task(t) for t in tasks]
        else:
            ctx_mp = mp.get_context("spawn")
            # the soft deadline is honoured between cases; a single case that never returns (an endless loop inside a
            # compiled third-party routine cannot be interrupted from Python) is cut off here: the pool is terminated at
            # a hard limit and the shards that had not answered are reported as inconclusive, never as violations
            hard = deadline + max(180.0, 0.5 * wall)
            with ctx_mp.Pool(jobs, maxtasksperchild=1) as pool:
                it = pool.imap_unordered(_task, tasks, chunksize=1)
                for _ in range(len(tasks)):
                    try:
                        results.append(it.next(timeout=max(hard - time.time(), 0.1)))
                    except mp.TimeoutError:
                        break
                pool.terminate()
            answered = {(r["sub"], r["shard"]) for r in results}
            for t in tasks:
                if (t[3], t[4]) not in answered:
                    abandoned.append(f"{t[3]}[{t[4]}]: no answer by the hard wall limit ({int(hard - t0)} s): a case did not return; shard abandoned")
    results.sort(key=lambda r: (r["sub"], r["shard"]))

    evaluations = 0
    nontriv = set()
    nontriv_enum = 0
    classes = {}
    samples = {}
    excluded = {}
    inconclusive = list(abandoned)
    exhaustive = []
    per_sub = {}
    per_body = {}
    for r in results:
        if "harness_error" in r:
            harness_errors.append(f"{r['sub']}[{r['shard']}]: {r['harness_error']}")
            continue
        evaluations += r["evaluations"]
        nontriv.update(r["nontrivial"])
        nontriv_enum += r["nontrivial_enum"]
        for k, v in r["classes"].items():
            classes[k] = classes.get(k, 0) + v
        for k, v in r["samples"].items():
            samples.setdefault(k, v)
        for k, v in r["excluded_known"].items():
            excluded[k] = excluded.get(k, 0) + v
        inconclusive += r["inconclusive"]
        for e in r["exhaustive"]:
            exhaustive.append(e)
        ps = per_sub.setdefault(r["sub"], {"evaluations": 0, "wall_s": 0.0, "shards": 0})
        ps["evaluations"] += r["evaluations"]
        ps["wall_s"] = round(max(ps["wall_s"], r.get("wall_s", 0.0)), 2)
        ps["shards"] += 1
        for k, v in r["per_body"].items():
            per_body[k] = per_body.get(k, 0) + v
        for f in r["failures"]:
            f = dict(f)
            f.update({"property": prop, "sub": r["sub"], "shard": r["shard"], "seed": seed, "tier": a.tier,
                      "pythonhashseed": os.environ.get("PYTHONHASHSEED")})
            path = save_failure(prop, f)
            violations.append((path, f["sig"], f["msg"]))
    # an enumeration is complete only if every shard completed it
    nshards_of = {s["name"]: int(s["shards"].get(a.tier, 1)) for s in subs}
    from collections import Counter

    exc = Counter(exhaustive)
    sub_of_label = {}
    for r in results:
        for e in r.get("exhaustive", []):
            sub_of_label[e] = r["sub"]
    exhaustive_done = sorted(e for e, c in exc.items() if c >= nshards_of.get(sub_of_label.get(e), 1))

    # required classes (vacuity guard)
    missing = []
    if not a.only and not harness_errors and not inconclusive:
        for c in core.REQUIRED_CLASSES.get(prop, []):
            if classes.get(c, 0) == 0:
                missing.append(c)
    if missing and not violations:
        harness_errors.append(f"generator did not reach required classes: {missing}")

    level = core.LEVELS.get(prop, "exploration")
    sample_list = []
    for k in sorted(samples):
        try:
            cj = json.loads(samples[k])
        except Exception:
            cj = samples[k]
        sample_list.append({"body|class": k, "case": cj})
    distinct = len(nontriv) + nontriv_enum
    evidence = {
        "property_id": prop,
        "tier": a.tier,
        "seed": seed,
        "level": level,
        "coverage": {
            "evaluations": evaluations + replayed,
            "distinct_nontrivial": distinct,
            "rule": core.RULES.get(prop, ""),
            "samples": sample_list[:12],
            "per_subcheck": per_sub,
            "per_body": per_body,
            "class_histogram": dict(sorted(classes.items())),
            "excluded_known": excluded,
            "known_findings_reconfirmed": sorted(known_confirmed),
            "inconclusive": inconclusive,
            "exhaustive_subdomains": exhaustive_done,
            "exhaustive": False,
            "replayed_regression_cases": replayed,
            "pythonhashseed": os.environ.get("PYTHONHASHSEED"),
            "repo": core.REPO,
        },
        "assumptions": core.ASSUMPTIONS.get(prop, []),
        "wall_s": round(time.time() - t0, 2),
        "violations": len(violations),
    }
    if harness_errors:
        evidence["coverage"]["harness_errors"] = [h[:1000] for h in harness_errors]
    evdir = os.environ.get("VERIF_EVIDENCE_DIR") or os.path.join(HOME, "evidence")
    os.makedirs(evdir, exist_ok=True)
    def _finite(x):
        # strict JSON has no NaN / Infinity: write them as strings in samples
        if isinstance(x, float) and (x != x or x in (float("inf"), float("-inf"))):
            return repr(x)
        if isinstance(x, dict):
            return {k: _finite(v) for k, v in x.items()}
        if isinstance(x, (list, tuple)):
            return [_finite(v) for v in x]
        return x

    evidence = _finite(evidence)
    with open(os.path.join(evdir, f"{prop}.json"), "w") as fh:
        json.dump(evidence, fh, indent=1, sort_keys=False, allow_nan=False, default=str)
        fh.write("\n")

    print(
        f"{prop} tier={a.tier} seed={seed}: evaluations={evidence['coverage']['evaluations']} "
        f"distinct_nontrivial={distinct} excluded_known={sum(excluded.values())} "
        f"inconclusive={len(inconclusive)} wall={evidence['wall_s']}s"
    )
    for k, v in sorted(excluded.items()):
        print(f"  excluded (listed known finding) {v}x: {k}")
    for path, sig, msg in violations:
        print(f"  violation: {sig} :: {msg[:600]}")
        print(f"VIOLATION property={prop} replay={path}")
    if violations:
        return 1
    if harness_errors:
        for h in harness_errors:
            print("HARNESS-ERROR:", h[:3000])
        return 2
    return 0


if __name__ == "__main__":
    sys.exit(main())
