"""
vf.core — the runner shared by every property check.

A property module (vf/props/cNN.py) registers

  * bodies:     @body("C06.unique_rows")  def b(case, ctx): ...      plain function of a JSON-able case;
                raises Violation(sig, msg) when the property is broken on that case.
  * sub-checks: @subcheck("C06", "unique_rows", shards={"quick": 2, "thorough": 16}) def s(ctx): ...
                which call ctx.given(bodyname, strategy, n=...) (Hypothesis) or
                ctx.enumerate(bodyname, iterable) (finite domain) any number of times.

All randomness comes from Hypothesis draws (seeded from VERIF_SEED, the sub-check name and
the shard index); every generated case is plain JSON data so that a failure is replayed
without Hypothesis by calling the body on the saved case.
"""

import hashlib
import json
import math
import os
import sys
import time
import traceback
import zlib
from collections import Counter

import numpy as np

HOME = os.environ.get("VERIF_HOME", os.path.dirname(os.path.dirname(os.path.abspath(__file__))))
REPO = os.path.realpath(os.environ.get("VERIF_REPO", "/repo"))

BODIES = {}
SUBCHECKS = {}  # prop -> list of dict(name, fn, shards)
REQUIRED_CLASSES = {}  # prop -> list of class labels which must be non-zero in the merged histogram
RULES = {}  # prop -> text for evidence.coverage.rule
LEVELS = {}  # prop -> evidence level
ASSUMPTIONS = {}  # prop -> list of strings


class Violation(Exception):
    """The property is broken on the current case. `sig` is a narrow root-cause signature."""

    def __init__(self, sig, msg=""):
        super().__init__(f"{sig} :: {msg}")
        self.sig = str(sig)
        self.msg = str(msg)


class HarnessError(Exception):
    pass


def body(name):
    def deco(fn):
        BODIES[name] = fn
        fn.body_name = name
        return fn

    return deco


def subcheck(prop, name, shards=None):
    shards = shards or {"quick": 1, "thorough": 1}

    def deco(fn):
        SUBCHECKS.setdefault(prop, []).append({"name": name, "fn": fn, "shards": shards})
        return fn

    return deco


# --------------------------------------------------------------------------------------
# JSON helpers


def jsonable(x):
    """Convert numpy containers to plain python for saving a case."""
    if isinstance(x, dict):
        return {str(k): jsonable(v) for k, v in x.items()}
    if isinstance(x, (list, tuple)):
        return [jsonable(v) for v in x]
    if isinstance(x, np.ndarray):
        return jsonable(x.tolist())
    if isinstance(x, (np.integer,)):
        return int(x)
    if isinstance(x, (np.floating,)):
        return float(x)
    if isinstance(x, (np.bool_,)):
        return bool(x)
    if isinstance(x, bytes):
        return {"__bytes__": x.hex()}
    return x


def unjson(x):
    if isinstance(x, dict):
        if set(x.keys()) == {"__bytes__"}:
            return bytes.fromhex(x["__bytes__"])
        return {k: unjson(v) for k, v in x.items()}
    if isinstance(x, list):
        return [unjson(v) for v in x]
    return x


def case_dumps(case):
    return json.dumps(jsonable(case), sort_keys=True, allow_nan=True, separators=(",", ":"))


def case_hash(case):
    return hashlib.sha1(case_dumps(case).encode()).digest()[:8]


def trimesh_frame(exc):
    """Innermost frame of the traceback that lives in the trimesh package under test,
    or None when the exception never passed through trimesh."""
    found = None
    for fs in traceback.extract_tb(exc.__traceback__):
        fn = os.path.realpath(fs.filename)
        if fn.startswith(os.path.join(REPO, "trimesh") + os.sep):
            rel = os.path.relpath(fn, REPO)
            # the array-tracking hooks of caching.py sit under every numpy call on a tracked array: they are never
            # the informative frame unless nothing else in trimesh is on the stack
            if found is not None and rel.endswith("caching.py") and fs.name in ("__array_function__", "__array_ufunc__", "__array_wrap__"):
                continue
            found = (rel, fs.name)
    return found


# --------------------------------------------------------------------------------------


class Ctx:
    def __init__(self, prop, tier, seed, sub, shard, nshards, known, deadline):
        self.prop = prop
        self.tier = tier
        self.seed = seed
        self.sub = sub
        self.shard = shard
        self.nshards = nshards
        self.known = known  # list of known-finding sig strings (exact or prefix*)
        self.deadline = deadline
        self.evaluations = 0
        self.nontrivial = set()
        self.nontrivial_enum = 0
        self.classes = Counter()
        self.samples = {}
        self.excluded_known = Counter()
        self.known_witness = {}
        self.failures = []  # dict(body, sig, msg, case)
        self.inconclusive = []
        self.exhaustive = []
        self.per_body = Counter()
        self._case_nontrivial = False
        self._case_classes = []
        self._in_enum = False

    # ---- notes made by a body while it runs one case
    def note(self, nontrivial=None, cls=None):
        if nontrivial:
            self._case_nontrivial = True
        if cls is not None:
            if isinstance(cls, (list, tuple, set)):
                self._case_classes.extend(str(c) for c in cls)
            else:
                self._case_classes.append(str(cls))

    def is_known(self, sig):
        for k in self.known:
            if k.endswith("*"):
                if sig.startswith(k[:-1]):
                    return k
            elif k == sig:
                return k
        return None

    def run_case(self, bodyname, case):
        """Run one case. Returns None if fine / excluded-known, raises Violation otherwise."""
        fn = BODIES[bodyname]
        self._case_nontrivial = False
        self._case_classes = []
        dumped = None
        try:
            dumped = case_dumps(case)
        except (TypeError, ValueError) as e:
            raise HarnessError(f"case of {bodyname} is not JSON-able: {e}")
        np.random.seed(zlib.crc32(dumped.encode()) & 0xFFFFFFFF)
        self.evaluations += 1
        self.per_body[bodyname] += 1
        try:
            fn(unjson(json.loads(dumped)), self)
            err = None
        except Violation as v:
            err = v
        except (HarnessError, KeyboardInterrupt, SystemExit):
            raise
        except BaseException as e:  # noqa
            if type(e).__module__.startswith("hypothesis"):
                raise
            fr = trimesh_frame(e)
            if fr is None:
                raise HarnessError(
                    f"exception outside trimesh in body {bodyname}: {type(e).__name__}: {e}\n"
                    + "".join(traceback.format_exception(type(e), e, e.__traceback__))[-3000:]
                    + "\ncase="
                    + dumped[:2000]
                )
            err = Violation(
                f"{bodyname}|exc|{type(e).__name__}|{fr[0]}:{fr[1]}", f"{type(e).__name__}: {e}"
            )
        # bookkeeping for evidence
        for c in self._case_classes:
            self.classes[c] += 1
        if self._case_nontrivial:
            if self._in_enum:
                self.nontrivial_enum += 1
            else:
                self.nontrivial.add(hashlib.sha1(dumped.encode()).digest()[:8])
        key = bodyname + "|" + (self._case_classes[0] if self._case_classes else "")
        if self._case_nontrivial and key not in self.samples and len(self.samples) < 24:
            self.samples[key] = dumped if len(dumped) <= 1500 else dumped[:1500] + "...(truncated)"
        if err is None:
            return None
        k = self.is_known(err.sig)
        if k is not None:
            self.excluded_known[err.sig] += 1
            if k not in self.known_witness:
                self.known_witness[k] = {"body": bodyname, "case": json.loads(dumped), "sig": err.sig, "msg": err.msg[:500]}
            return None
        raise err

    # ---- drivers
    def _past_deadline(self):
        return time.time() > self.deadline

    def given(self, bodyname, strategy, n, max_shrink_s=None):
        """Hypothesis-driven search. n = {"quick": N, "thorough": M} total cases over all shards."""
        import hypothesis
        from hypothesis import HealthCheck, Phase, given, seed, settings

        total = n[self.tier] if isinstance(n, dict) else int(n)
        per = max(1, int(math.ceil(total / float(self.nshards))))
        if self._past_deadline():
            self.inconclusive.append(f"{bodyname}: skipped, tier wall budget exhausted")
            return
        if max_shrink_s is None:
            max_shrink_s = 45.0 if self.tier == "quick" else 240.0
        hseed = zlib.crc32(f"{self.seed}|{self.prop}|{self.sub}|{bodyname}|{self.shard}".encode())
        state = {"first_fail_t": None, "last": None, "skipped": 0}
        failed = {}  # dumped case -> (sig, msg) of every failing case seen, so a replay by hypothesis fails again
        ctx = self

        @seed(hseed)
        @settings(
            max_examples=per,
            database=None,
            deadline=None,
            derandomize=False,
            report_multiple_bugs=False,
            print_blob=False,
            suppress_health_check=[HealthCheck.too_slow, HealthCheck.data_too_large, HealthCheck.large_base_example],
            phases=[Phase.generate, Phase.shrink],
            verbosity=hypothesis.Verbosity.quiet,
        )
        @given(strategy)
        def test(case):
            if state["first_fail_t"] is not None and time.time() - state["first_fail_t"] > max_shrink_s:
                # shrink budget exhausted: known-failing cases fail again, everything else passes,
                # so the shrinker finishes at once with the best case found so far
                d = case_dumps(case)
                if d in failed:
                    state["last"] = {"body": bodyname, "case": jsonable(case), "sig": failed[d][0], "msg": failed[d][1]}
                    raise Violation(*failed[d])
                return
            if state["first_fail_t"] is None and ctx._past_deadline():
                state["skipped"] += 1
                return
            try:
                ctx.run_case(bodyname, case)
            except Violation as v:
                if state["first_fail_t"] is None:
                    state["first_fail_t"] = time.time()
                state["last"] = {"body": bodyname, "case": jsonable(case), "sig": v.sig, "msg": v.msg[:2000]}
                failed[case_dumps(case)] = (v.sig, v.msg[:2000])
                raise

        try:
            test()
        except Violation:
            self.failures.append(state["last"])
        except hypothesis.errors.FailedHealthCheck as e:
            raise HarnessError(f"health check failed in {bodyname}: {e}")
        except hypothesis.errors.Unsatisfiable as e:
            raise HarnessError(f"unsatisfiable generator in {bodyname}: {e}")
        except hypothesis.errors.Flaky as e:
            # the body must be a pure function of the case; report as harness error with the last failure
            raise HarnessError(f"flaky body {bodyname}: {e}; last={state['last']}")
        if state["skipped"]:
            self.inconclusive.append(f"{bodyname}: {state['skipped']} cases skipped, tier wall budget exhausted")

    def enumerate(self, bodyname, cases, label=None, complete=True):
        """Finite-domain enumeration, sharded by index. Stops at first unknown violation."""
        self._in_enum = True
        done = True
        try:
            for i, case in enumerate(cases):
                if i % self.nshards != self.shard:
                    continue
                if (i & 0xFF) == 0 and self._past_deadline():
                    self.inconclusive.append(f"{bodyname}: enumeration {label} cut at index {i}, wall budget exhausted")
                    done = False
                    break
                try:
                    self.run_case(bodyname, case)
                except Violation as v:
                    self.failures.append({"body": bodyname, "case": jsonable(case), "sig": v.sig, "msg": v.msg[:2000]})
                    done = False
                    break
        finally:
            self._in_enum = False
        if done and complete and label:
            self.exhaustive.append(label)

    def result(self):
        return {
            "sub": self.sub,
            "shard": self.shard,
            "evaluations": self.evaluations,
            "nontrivial": [h.hex() for h in self.nontrivial],
            "nontrivial_enum": self.nontrivial_enum,
            "classes": dict(self.classes),
            "samples": self.samples,
            "excluded_known": dict(self.excluded_known),
            "known_witness": self.known_witness,
            "failures": self.failures,
            "inconclusive": self.inconclusive,
            "exhaustive": self.exhaustive,
            "per_body": dict(self.per_body),
        }


def check(cond, sig, msg=""):
    if not cond:
        raise Violation(sig, msg() if callable(msg) else msg)
