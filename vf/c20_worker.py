"""Isolated worker for C20: reads one JSON case per line on stdin, loads the mutated bytes with trimesh under an
address-space limit and a CPU timer, and answers one JSON line:
  {"status": "ok"|"exception"|"cpu_timeout", "exc": name, "base": is-Exception-subclass, "frame": [file, func] | None,
   "cpu_s": float, "peak_kb": int, "fd_leak": [targets], "n": len(input), "kind": type of the result}
"""

import gc
import json
import os
import resource
import signal
import sys
import time
import traceback
import warnings


class CpuTimeout(BaseException):
    pass


def _on_timer(signum, frame):
    raise CpuTimeout()


def fds():
    out = {}
    try:
        for name in os.listdir("/proc/self/fd"):
            try:
                out[int(name)] = os.readlink(f"/proc/self/fd/{name}")
            except OSError:
                pass
    except OSError:
        pass
    return out


def peak_reset():
    try:
        with open("/proc/self/clear_refs", "w") as f:
            f.write("5")
    except OSError:
        pass


def peak_kb():
    try:
        with open("/proc/self/status") as f:
            for line in f:
                if line.startswith("VmHWM:"):
                    return int(line.split()[1])
    except OSError:
        pass
    return 0


def vm_peak_kb():
    """peak virtual size so far (monotonic): a buffer that is requested but never touched shows here, not in VmHWM"""
    try:
        with open("/proc/self/status") as f:
            for line in f:
                if line.startswith("VmPeak:"):
                    return int(line.split()[1])
    except OSError:
        pass
    return 0


def rss_kb():
    try:
        with open("/proc/self/status") as f:
            for line in f:
                if line.startswith("VmRSS:"):
                    return int(line.split()[1])
    except OSError:
        pass
    return 0


def main():
    import logging

    logging.disable(logging.CRITICAL)
    warnings.simplefilter("ignore")
    import numpy as np  # noqa
    import trimesh
    from trimesh.util import wrap_as_stream

    from vf import c20_common as cc

    repo = os.path.realpath(os.environ.get("VERIF_REPO", "/repo"))
    cc.seeds()
    # address space: current + 1 GiB (legitimate loads of the corpus need < 150 MB; a loader that keeps growing is stopped
    # by a MemoryError long before the CPU budget, independently of machine load)
    try:
        with open("/proc/self/status") as f:
            vm = [int(l.split()[1]) for l in f if l.startswith("VmSize:")][0] * 1024
        resource.setrlimit(resource.RLIMIT_AS, (vm + 2**30, vm + 2**30))
    except BaseException:  # noqa
        pass
    signal.signal(signal.SIGVTALRM, _on_timer)
    out = sys.stdout
    out.write(json.dumps({"ready": True, "formats": sorted(cc.seeds()), "sizes": {k: [len(x) for x in v] for k, v in cc.seeds().items()}}) + "\n")
    out.flush()
    workdir = os.getcwd()
    for line in sys.stdin:
        line = line.strip()
        if not line:
            continue
        case = json.loads(line)
        data = cc.build_input(case)
        fmt = case["fmt"]
        budget = float(case.get("cpu_budget", 5.0 + 0.002 * len(data)))
        entry = case["entry"]
        fn = {"load": trimesh.load, "load_mesh": trimesh.load_mesh, "load_scene": trimesh.load_scene, "load_path": trimesh.load_path}[entry]
        path = None
        res = {"n": len(data)}
        before = fds()
        peak_reset()
        rss0 = rss_kb()
        vmp0 = vm_peak_kb()
        t0 = time.process_time()
        result = None
        wrec = warnings.catch_warnings(record=True)
        wlist = wrec.__enter__()
        warnings.simplefilter("always", ResourceWarning)
        try:
            signal.setitimer(signal.ITIMER_VIRTUAL, budget)
            try:
                if case["via_path"]:
                    path = os.path.join(workdir, f"c20_{os.getpid()}.{ {'stl_ascii': 'stl', 'ply_ascii': 'ply'}.get(fmt, fmt) }")
                    with open(path, "wb") as f:
                        f.write(data)
                    result = fn(path) if fmt != "stl_ascii" else fn(path, file_type="stl_ascii")
                else:
                    result = fn(wrap_as_stream(data), file_type="ply" if fmt == "ply_ascii" else fmt)
                res["status"] = "ok"
                res["kind"] = type(result).__name__
            finally:
                signal.setitimer(signal.ITIMER_VIRTUAL, 0)
        except CpuTimeout:
            res["status"] = "cpu_timeout"
        except BaseException as e:  # noqa
            res["status"] = "exception"
            res["exc"] = type(e).__name__
            res["base"] = isinstance(e, Exception) and not isinstance(e, (MemoryError, RecursionError))
            fr = None
            for fs in traceback.extract_tb(e.__traceback__):
                fname = os.path.realpath(fs.filename)
                if fname.startswith(os.path.join(repo, "trimesh") + os.sep):
                    rel = os.path.relpath(fname, repo)
                    if fr is not None and rel.endswith("caching.py"):
                        continue
                    fr = [rel, fs.name]
            res["frame"] = fr
            res["msg"] = str(e)[:200]
            del e
        res["cpu_s"] = round(time.process_time() - t0, 4)
        res["peak_kb"] = max(0, peak_kb() - rss0)
        res["vm_peak_growth_kb"] = max(0, vm_peak_kb() - vmp0)
        # drop the result, then look at the descriptor table: nothing the loader opened may still be open
        result = None
        after = fds()
        # a file object that is only closed because it was garbage collected announces itself with a ResourceWarning
        # (the loader only opens files itself when it is given a path)
        if case["via_path"]:
            gc.collect()
        wrec.__exit__(None, None, None)
        rw = [str(w.message)[:160] for w in wlist if issubclass(w.category, ResourceWarning) and "unclosed file" in str(w.message)]
        if rw:
            res["resource_warnings"] = rw[:3]
        leak = sorted(t for k, t in after.items() if k not in before and not t.startswith(("pipe:", "anon_inode:", "socket:", "/dev/")) and "/proc/" not in t)
        if leak:
            gc.collect()
            after2 = fds()
            still = sorted(t for k, t in after2.items() if k not in before and not t.startswith(("pipe:", "anon_inode:", "socket:", "/dev/")) and "/proc/" not in t)
            res["fd_leak"] = leak
            res["fd_leak_after_gc"] = still
            for k in list(after2):
                if k not in before:
                    try:
                        os.close(k)
                    except OSError:
                        pass
        if path is not None:
            try:
                os.remove(path)
            except OSError:
                pass
        out.write(json.dumps(res) + "\n")
        out.flush()


if __name__ == "__main__":
    main()
