"""C08 — export then load round-trips geometry in every supported format; exporting never modifies the source."""

import json
import os

import numpy as np
from hypothesis import strategies as st

import trimesh
from trimesh.util import wrap_as_stream

from ..core import ASSUMPTIONS, REQUIRED_CLASSES, RULES, Violation, body, check, subcheck
from ..gen import matrices as gm
from ..gen import meshes as gmesh

RULES["C08"] = (
    "geometry (single face, small solids from the pool, random soups with all-distinct asymmetric vertices, negative and "
    "1e-30..1e30 coordinates inside the float32 range, face or vertex colours, PLY attributes, >=65536 vertices in the "
    "thorough tier; point clouds with colours; instanced scenes with nested rigid/similarity transforms) x exporter "
    "(stl, stl_ascii, ply binary/ascii(+vertex_normal,+attributes), off, obj(+normals/colour options, digits), glb, "
    "gltf(dict of files through a resolver, merge_buffers), 3mf, dae, dict, dict64, xyz) x loader entry (load, load_mesh, "
    "load_scene; stream and file path), always process=False. Oracle: loaded.triangles[i] == Q_fmt(source.triangles[i]) "
    "for every i in order, where Q_fmt is the storage rule read from the exporter (float32 cast: stl/ply/glb/gltf, "
    "bit-exact; fixed decimals: obj digits=8, off digits=10, xyz digits=8 -> |d| <= 0.5*10^-digits + ulp; exact: "
    "stl_ascii/3mf/dict/dict64; dae: declared relative 2e-6); counts, colours where the format carries them, scene "
    "placement of every instance; purity: hash / bytes of the source identical before and after export and two exports "
    "give identical bytes. Non-trivial: >=2 faces with all-distinct vertices; distinct by (format, options, case)."
    " Voxel grids: cubic grids n=2..16 (binvox stores one scale), random / slab / explicit run-length fills with runs "
    "around 255 and its multiples, dense / RLE / BRLE backing, both axis orders, stream and file: loaded.matrix == "
    "source cells exactly, same shape, transform and cell centres to a few ulp. Paths: lines (open / closed polylines), "
    "arcs and circles through dxf / svg / dict: same entity kinds in the same order, line points within the precision "
    "the writer prints (dict exact, svg 1e-12, dxf 1e-9 relative to the drawing size), arc centre / radius / end "
    "points / side. (Region-level path invariants are C14's, codec-level run-length laws are C13's.)"
)
ASSUMPTIONS["C08"] = [
    "svg stores a circle as two semicircular arcs in endpoint parametrisation; the centre recovered from that form is conditioned like sqrt(eps*R*size), which is the precision compared for svg circles (lines, open arcs and the other formats are compared at print precision)",
    "binvox: only cubic grids with n >= 2 and uniform positive voxel scale are exportable (export_binvox raises ValueError otherwise; a 1x1x1 grid has no defined scale in the format)",
    "DAE goes through the third-party pycollada writer: coordinates compared at a declared relative 2e-6 (order, counts and placement still exact)",
    "formats that only store vertex colours (obj, glb/gltf) are compared on vertex-coloured sources; face colours are compared for ply and dict",
    "3mf archives embed fresh UUIDs and pycollada writes a creation time, so 'two exports give identical bytes' is not asserted for 3mf / dae",
    "ascii PLY stores float32 values printed with 8 fixed decimals and carries no face colours (as coded in export_ply); PLY attributes are read back from metadata['_ply_raw'] as the in-tree tests do",
]

_f = lambda lo, hi: st.floats(lo, hi, allow_nan=False, allow_infinity=False)  # noqa

F32 = {"stl", "ply", "glb", "gltf"}
EXACT = {"stl_ascii", "3mf", "dict", "dict64"}
DIGITS = {"obj": 8, "off": 10}
INDEXED = {"ply", "off", "obj", "glb", "gltf", "3mf", "dict", "dict64"}  # dae goes through pycollada which re-indexes
SCENE_FORMATS = ["glb", "gltf", "3mf"]
FLAT_SCENE_FORMATS = ["stl", "ply", "obj"]  # the triangles of every instance are baked into one file (to_mesh / dump)  # the DAE exporter is registered for single meshes only (scene.export raises ValueError)


class DictResolver(trimesh.resolvers.Resolver):
    def __init__(self, files):
        self.files = files

    def get(self, key):
        return self.files[key]

    def keys(self):
        return self.files.keys()

    def namespaced(self, namespace):
        return self

    def write(self, name, data):
        self.files[name] = data


def build_mesh(spec):
    rs = np.random.RandomState(spec["seed"])
    if spec["kind"] == "soup":
        nv, nf = spec["nv"], spec["nf"]
        V = rs.uniform(-1, 1, (nv, 3))
        F = np.array([rs.choice(nv, 3, replace=False) for _ in range(nf)], dtype=np.int64).reshape((-1, 3))
    elif spec["kind"] == "big":
        n = spec["nv"]
        V = rs.uniform(-1, 1, (n, 3))
        F = np.column_stack((np.arange(n - 2), np.arange(1, n - 1), np.arange(2, n))).astype(np.int64)
        F = F[:: max(1, len(F) // 4000)]
        F = np.vstack((F, [[n - 1, n - 2, 0]]))
    else:
        V, F = gmesh.build(spec["mesh"])
        V = V + rs.uniform(-1e-3, 1e-3, V.shape)
    V = V * spec["scale"] + np.array(spec["offset"])
    m = trimesh.Trimesh(V.copy(), F.copy(), process=False)
    nf, nv = len(F), len(V)
    if spec.get("colors") == "face":
        m.visual.face_colors = np.column_stack((np.arange(nf) % 251, (np.arange(nf) // 251) % 251, rs.randint(0, 255, nf), np.full(nf, 255))).astype(np.uint8)
    elif spec.get("colors") == "vertex":
        m.visual.vertex_colors = np.column_stack((np.arange(nv) % 251, (np.arange(nv) // 251) % 251, rs.randint(0, 255, nv), np.full(nv, 255))).astype(np.uint8)
    if spec.get("attributes"):
        m.face_attributes["ftag"] = (np.arange(nf) * 3).astype(np.int32)
        m.vertex_attributes["vtag"] = (np.arange(nv) * 0.5).astype(np.float32)
    m.metadata["name"] = "vfmesh"
    return m


def source_state(g):
    out = [g.__hash__()]
    if hasattr(g, "vertices"):
        out.append(np.asarray(g.vertices).tobytes())
    if hasattr(g, "faces"):
        out.append(np.asarray(g.faces).tobytes())
    vis = getattr(g, "visual", None)
    if vis is not None and hasattr(vis, "__hash__"):
        try:
            out.append(vis.__hash__())
        except BaseException:  # noqa
            pass
    return out


def do_export(g, fmt, kw):
    return g.export(file_type=fmt, **kw)


def as_bytes(data):
    if isinstance(data, str):
        return data.encode("utf-8")
    return data


def do_load(data, fmt, entry, via_path):
    """-> list of (Trimesh|PointCloud, world 4x4)"""
    kwargs = {"process": False}
    if fmt == "gltf":
        files = dict(data)
        kwargs["resolver"] = DictResolver(files)
        payload = files["model.gltf"]
    elif fmt in ("dict", "dict64"):
        payload = data
    else:
        payload = as_bytes(data)
    ftype = "dict" if fmt == "dict64" else fmt
    if fmt in ("dict", "dict64"):
        obj = payload
        if entry == "load_scene":
            loaded = trimesh.load_scene(obj, file_type=ftype, **kwargs)
        elif entry == "load_mesh":
            loaded = trimesh.load_mesh(obj, file_type=ftype, **kwargs)
        else:
            loaded = trimesh.load(obj, file_type=ftype, **kwargs)
    elif via_path and fmt != "gltf":
        path = os.path.join(os.getcwd(), f"vf_c08_{os.getpid()}.{fmt}")
        with open(path, "wb") as f:
            f.write(payload)
        try:
            fn = {"load": trimesh.load, "load_mesh": trimesh.load_mesh, "load_scene": trimesh.load_scene}[entry]
            loaded = fn(path, **kwargs) if fmt != "stl_ascii" else fn(path, file_type="stl_ascii", **kwargs)
        finally:
            os.remove(path)
    else:
        fn = {"load": trimesh.load, "load_mesh": trimesh.load_mesh, "load_scene": trimesh.load_scene}[entry]
        loaded = fn(wrap_as_stream(payload), file_type=ftype, **kwargs)
    return loaded


def flatten(loaded):
    """-> list of (geometry, 4x4 world transform) for every instance, in graph order"""
    if isinstance(loaded, trimesh.Scene):
        out = []
        for node in loaded.graph.nodes_geometry:
            T, name = loaded.graph[node]
            out.append((loaded.geometry[name], np.array(T)))
        return out
    if isinstance(loaded, (list, tuple)):
        return [(g, np.eye(4)) for g in loaded]
    return [(loaded, np.eye(4))]


def ulp(x):
    return np.spacing(np.abs(np.asarray(x, dtype=np.float64)))


def compare_triangles(fmt, kw, got, src, sig):
    got = np.asarray(got, dtype=np.float64)
    src = np.asarray(src, dtype=np.float64)
    check(got.shape == src.shape, sig + "|triangle_count", f"{got.shape} vs {src.shape}")
    if src.size == 0:
        return
    if fmt == "ply" and kw.get("encoding") == "ascii":
        # ascii PLY prints the float32 value with 8 fixed decimals (util.structured_array_to_string default)
        want = src.astype(np.float32).astype(np.float64)
        # ... and the reader stores the parsed number as float32 again: half a float32 ulp on top of half a decimal unit
        tol = 0.5e-8 + np.spacing(np.abs(want).astype(np.float32)).astype(np.float64)
        bad = np.abs(got - want) > tol
        if bad.any():
            i = tuple(int(x) for x in np.argwhere(bad)[0])
            raise Violation(sig + "|coordinates_beyond_text_precision", f"triangle/vertex/axis {i}: loaded {got[i]!r} vs float32(source) {want[i]!r}")
    elif fmt in F32:
        want = src.astype(np.float32).astype(np.float64)
        bad = got != want
        if bad.any():
            i = tuple(int(x) for x in np.argwhere(bad)[0])
            raise Violation(sig + "|coordinates_not_float32_cast", f"triangle/vertex/axis {i}: loaded {got[i]!r}, float32(source) {want[i]!r}, source {src[i]!r}")
    elif fmt in EXACT:
        bad = got != src
        if bad.any():
            i = tuple(int(x) for x in np.argwhere(bad)[0])
            raise Violation(sig + "|coordinates_not_exact", f"triangle/vertex/axis {i}: loaded {got[i]!r} vs source {src[i]!r}")
    elif fmt in DIGITS or fmt == "xyz":
        d = kw.get("digits", DIGITS.get(fmt, 8))
        tol = 0.5 * 10.0 ** (-d) + 2 * ulp(src)
        bad = np.abs(got - src) > tol
        if bad.any():
            i = tuple(int(x) for x in np.argwhere(bad)[0])
            raise Violation(sig + "|coordinates_beyond_text_precision", f"triangle/vertex/axis {i}: loaded {got[i]!r} vs source {src[i]!r} (digits={d})")
    elif fmt == "dae":
        tol = 2e-6 * np.abs(src) + 1e-30
        bad = np.abs(got - src) > tol
        if bad.any():
            i = tuple(int(x) for x in np.argwhere(bad)[0])
            raise Violation(sig + "|coordinates_beyond_declared", f"{i}: {got[i]!r} vs {src[i]!r}")
    else:
        raise ValueError(fmt)


@body("C08.mesh")
def b_mesh(case, ctx):
    with np.errstate(all="ignore"):
        m = build_mesh(case["mesh"])
        fmt, kw = case["fmt"], dict(case["kw"])
        sig = f"C08.mesh|{fmt}"
        nf = len(m.faces)
        ctx.note(nontrivial=nf >= 2, cls=[f"fmt:{fmt}", f"entry:{case['entry']}", f"colors:{case['mesh'].get('colors')}", "path" if case["via_path"] else "stream"])
        tri0 = np.array(m.triangles)
        if kw.get("vertex_normal") or kw.get("include_normals"):
            _ = m.vertex_normals
        st0 = source_state(m)
        data = do_export(m, fmt, kw)
        check(source_state(m) == st0, sig + "|export_modified_source", "hash / vertices / faces / visual of the source changed during export")
        if fmt not in ("3mf", "dae"):
            data2 = do_export(m, fmt, kw)
            same = (data == data2) if not isinstance(data, dict) else (json.dumps(data, sort_keys=True, default=lambda o: o.hex() if isinstance(o, bytes) else str(o)) == json.dumps(data2, sort_keys=True, default=lambda o: o.hex() if isinstance(o, bytes) else str(o)))
            check(same, sig + "|export_not_deterministic", "two exports of the same object differ")
        # independent reading of the exported bytes for the two simplest formats (a writer and reader that share a wrong
        # record layout would round-trip with each other)
        if fmt == "stl":
            raw = as_bytes(data)
            n = int(np.frombuffer(raw[80:84], dtype="<u4")[0])
            check(n == nf and len(raw) == 84 + 50 * nf, sig + "|stl_layout|count_or_length", f"count {n}, length {len(raw)} for {nf} faces")
            rec = np.frombuffer(raw[84:], dtype=np.dtype([("n", "<f4", (3,)), ("v", "<f4", (3, 3)), ("a", "<u2")]))
            check(np.array_equal(rec["v"].astype(np.float64), tri0.astype(np.float32).astype(np.float64)), sig + "|stl_layout|vertices", "little-endian float32 records do not hold the triangles")
        if fmt == "off":
            toks = as_bytes(data).decode().split()
            check(toks[0] == "OFF" and int(toks[1]) == len(m.vertices) and int(toks[2]) == nf, sig + "|off_layout|header", str(toks[:4]))
            vv = np.array(toks[4 : 4 + 3 * len(m.vertices)], dtype=np.float64).reshape((-1, 3))
            ff = np.array(toks[4 + 3 * len(m.vertices) :], dtype=np.int64).reshape((-1, 4))
            check((ff[:, 0] == 3).all() and np.array_equal(ff[:, 1:], np.asarray(m.faces)), sig + "|off_layout|faces", "face rows are not '3 a b c' in source order")
            check((np.abs(vv - np.asarray(m.vertices)) <= 0.5 * 10.0 ** (-kw.get("digits", 10)) + 2 * ulp(np.asarray(m.vertices))).all(), sig + "|off_layout|vertices", "")
        loaded = do_load(data, fmt, case["entry"], case["via_path"])
        inst = flatten(loaded)
        meshes = [(g, T) for g, T in inst if isinstance(g, trimesh.Trimesh)]
        check(len(meshes) == 1, sig + "|instance_count", f"{len(meshes)} meshes loaded from a single mesh export")
        g, T = meshes[0]
        check(np.allclose(T, np.eye(4), rtol=0, atol=0), sig + "|spurious_transform", str(T.tolist()))
        compare_triangles(fmt, kw, g.triangles, tri0, sig)
        check(len(g.faces) == nf, sig + "|face_count", f"{len(g.faces)} vs {nf}")
        merged = fmt == "obj"  # the obj exporter documents de-duplication of identical vertex rows only
        if fmt in INDEXED and not merged:
            check(len(g.vertices) == len(m.vertices), sig + "|vertex_count", f"{len(g.vertices)} vs {len(m.vertices)}")
            check(np.array_equal(np.asarray(g.faces), np.asarray(m.faces)), sig + "|faces_changed", "face indices differ")
        col = case["mesh"].get("colors")
        if col == "face" and fmt in ("ply", "dict", "dict64") and not (fmt == "ply" and kw.get("encoding") == "ascii"):
            check(g.visual.kind == "face" and np.array_equal(np.asarray(g.visual.face_colors), np.asarray(m.visual.face_colors)), sig + "|face_colors", "face colours not preserved in order")
        if col == "vertex" and fmt in ("ply", "dict", "dict64", "glb", "gltf", "obj"):
            if fmt == "obj" and not kw.get("include_color", True):
                pass
            else:
                check(g.visual.kind == "vertex", sig + "|vertex_colors|kind", str(g.visual.kind))
                # vertex colours follow their vertex: compare per face corner so that it holds for any indexing
                gc = np.asarray(g.visual.vertex_colors)[np.asarray(g.faces)]
                mc = np.asarray(m.visual.vertex_colors)[np.asarray(m.faces)]
                check(np.array_equal(gc, mc), sig + "|vertex_colors", "vertex colours not attached to the same corners")
        if case["mesh"].get("attributes") and fmt == "ply" and kw.get("include_attributes", True):
            # the loader documents (tests/test_ply.py) extra PLY properties under metadata['_ply_raw'][element]['data']
            raw = g.metadata.get("_ply_raw", {})
            fd = raw.get("face", {}).get("data", {})
            vd = raw.get("vertex", {}).get("data", {})
            names_f = fd.dtype.names if hasattr(fd, "dtype") and fd.dtype.names else list(fd)
            names_v = vd.dtype.names if hasattr(vd, "dtype") and vd.dtype.names else list(vd)
            check("ftag" in names_f and np.array_equal(np.asarray(fd["ftag"]).reshape(-1), np.asarray(m.face_attributes["ftag"])), sig + "|face_attributes", str(names_f))
            check("vtag" in names_v and np.array_equal(np.asarray(vd["vtag"]).reshape(-1).astype(np.float32), np.asarray(m.vertex_attributes["vtag"])), sig + "|vertex_attributes", str(names_v))


@body("C08.points")
def b_points(case, ctx):
    rs = np.random.RandomState(case["seed"])
    n = case["n"]
    P = rs.uniform(-1, 1, (n, 3)) * case["scale"] + np.array(case["offset"])
    C = np.column_stack((np.arange(n) % 251, rs.randint(0, 255, (n, 2)), np.full(n, 255))).astype(np.uint8)
    pc = trimesh.PointCloud(P.copy(), colors=C.copy() if case["colors"] else None)
    fmt = case["fmt"]
    sig = f"C08.points|{fmt}"
    ctx.note(nontrivial=n >= 2, cls=f"points:{fmt}:colors={case['colors']}")
    st0 = source_state(pc)
    data = pc.export(file_type=fmt)
    check(source_state(pc) == st0, sig + "|export_modified_source", "")
    loaded = do_load(data, fmt, "load", False)
    inst = flatten(loaded)
    check(len(inst) == 1, sig + "|instance_count", str(len(inst)))
    g = inst[0][0]
    got = np.asarray(g.vertices, dtype=np.float64)
    check(got.shape == P.shape, sig + "|point_count", f"{got.shape} vs {P.shape}")
    if fmt in ("ply", "glb"):
        want = P.astype(np.float32).astype(np.float64)
        check(np.array_equal(got, want), sig + "|coordinates_not_float32_cast", f"max diff {np.abs(got - want).max() if n else 0}")
    else:
        tol = 0.5e-8 + 2 * ulp(P)
        check((np.abs(got - P) <= tol).all(), sig + "|coordinates_beyond_text_precision", f"max diff {np.abs(got - P).max() if n else 0}")
    if case["colors"] and n:
        gc = np.asarray(g.colors)
        check(gc.shape[0] == n and np.array_equal(gc[:, :3], C[:, :3]), sig + "|colors", "point colours not preserved in order")


def build_scene(spec):
    s = trimesh.Scene()
    rs = np.random.RandomState(spec["seed"])
    box = trimesh.Trimesh(*gmesh.build({"parts": [{"kind": "box", "ext": [1.0, 2.0, 3.0]}]}), process=False)
    box.vertices += rs.uniform(-1e-2, 1e-2, box.vertices.shape)
    tet = trimesh.Trimesh(*gmesh.build({"parts": [{"kind": "tetra"}]}), process=False)
    tet.vertices += rs.uniform(-1e-2, 1e-2, tet.vertices.shape)
    mats = [np.array(m, dtype=np.float64) for m in spec["edges"]]
    shape = spec.get("shape", "full")
    if shape == "single":
        # one geometry, one node: the placement lives in the node's transform only
        s.add_geometry(box, node_name="n0", geom_name="box", transform=mats[0])
        return s
    if shape == "single_under_parent":
        s.graph.update(frame_to="p", frame_from=s.graph.base_frame, matrix=mats[0])
        s.add_geometry(tet, node_name="n0", geom_name="tet", parent_node_name="p", transform=mats[1])
        return s
    if spec.get("cloud_first"):
        # a geometry that has vertices but no faces (a point cloud), stored before the meshes
        s.add_geometry(trimesh.PointCloud(rs.uniform(-1, 1, (5, 3))), node_name="npc", geom_name="aaa_cloud", transform=mats[3])
    if spec.get("empty_first"):
        # an empty geometry referenced by a node, stored before the others
        s.add_geometry(trimesh.Trimesh(), node_name="ne", geom_name="aaa_empty", transform=mats[1])
    s.add_geometry(box, node_name="n0", geom_name="box", transform=mats[0])
    s.add_geometry(tet, node_name="n1", geom_name="tet", parent_node_name="n0", transform=mats[1])
    s.graph.update(frame_to="n2", frame_from=s.graph.base_frame, matrix=mats[2], geometry="box")
    s.graph.update(frame_to="n3", frame_from="n1", matrix=mats[3], geometry="tet")
    return s


def placed(s):
    out = []
    for node in s.graph.nodes_geometry:
        T, name = s.graph[node]
        g = s.geometry[name]
        if isinstance(g, trimesh.Trimesh) and len(g.faces):
            t = np.asarray(g.triangles).reshape((-1, 3))
            out.append(((T[:3, :3] @ t.T).T + T[:3, 3]).reshape((-1, 3, 3)))
    return out


@body("C08.scene")
def b_scene(case, ctx):
    with np.errstate(all="ignore"):
        s = build_scene(case["scene"])
        fmt = case["fmt"]
        sig = f"C08.scene|{fmt}"
        ctx.note(nontrivial=True, cls=[f"scene:{fmt}", f"scene:shape={case['scene'].get('shape', 'full')}"] + (["scene:vertices_only_geometry_first"] if case["scene"].get("cloud_first") and case["scene"].get("shape", "full") == "full" else []))
        want = placed(s)
        h0 = s.__hash__()
        g0 = {k: source_state(g) for k, g in s.geometry.items()}
        kw = dict(case["kw"])
        data = s.export(file_type=fmt, **kw)
        check(s.__hash__() == h0 and {k: source_state(g) for k, g in s.geometry.items()} == g0, sig + "|export_modified_source", "")
        loaded = do_load(data, fmt, case["entry"], False)
        if fmt in FLAT_SCENE_FORMATS:
            # formats without a scene graph store the baked triangles of every instance in one mesh
            geoms = [g for g, _ in flatten(loaded)]
            check(all(isinstance(g, trimesh.Trimesh) for g in geoms), sig + "|loaded_type", str([type(g).__name__ for g in geoms]))
            gt = np.vstack([np.asarray(g.triangles) for g in geoms]) if geoms else np.zeros((0, 3, 3))
            w = np.vstack(want) if want else np.zeros((0, 3, 3))
            check(gt.shape == w.shape, sig + "|triangle_count", f"{gt.shape} vs {w.shape}")
            scale = max(1.0, np.abs(w).max())
            key = lambda a: a[np.lexsort(np.round(a.reshape((-1, 9)) / (1e-4 * scale)).T[::-1])]  # noqa
            d = np.abs(key(gt) - key(w)).max() if len(w) else 0.0
            check(d <= (4e-6 if fmt != "obj" else 1e-7) * scale + (1e-8 if fmt == "obj" else 0.0), sig + "|placement", f"baked triangles differ from the placed source triangles by {d:.3g} (scale {scale:.3g})")
            return
        check(isinstance(loaded, trimesh.Scene), sig + "|not_a_scene", type(loaded).__name__)
        got = placed(loaded)
        check(len(got) == len(want), sig + "|instance_count", f"{len(got)} instances loaded, {len(want)} exported")
        # match instances by triangle count + centroid (order of nodes is not documented)
        scale = max(1.0, max(np.abs(w).max() for w in want))
        tol = (4e-6 if fmt != "3mf" else 1e-9) * scale
        used = set()
        for w in want:
            best = None
            for j, gt in enumerate(got):
                if j in used or gt.shape != w.shape:
                    continue
                d = np.abs(gt - w).max()
                if best is None or d < best[0]:
                    best = (d, j)
            check(best is not None and best[0] <= tol, sig + "|placement", f"an exported instance has no loaded counterpart within {tol:.3g} (best {None if best is None else best[0]})")
            used.add(best[1])


# ------------------------------------------------------------------------------- strategies

MESH_FORMATS = {
    "stl": [{}],
    "stl_ascii": [{}],
    "ply": [{}, {"encoding": "ascii"}, {"vertex_normal": True}, {"include_attributes": False}, {"encoding": "ascii", "vertex_normal": True}],
    "off": [{}, {"digits": 6}],
    "obj": [{}, {"include_normals": True}, {"include_color": False}, {"digits": 5}, {"include_texture": False}],
    "glb": [{}],
    "gltf": [{}, {"merge_buffers": True}],
    "3mf": [{}],
    "dae": [{}],
    "dict": [{}],
    "dict64": [{}],
}


@body("C08.stl_multi")
def b_stl_multi(case, ctx):
    """several ascii STL exports written one after the other into one file (what slicers and CAD tools produce): every
    solid comes back, whatever the solids are called"""
    rs = np.random.RandomState(case["seed"])
    parts, blobs = [], []
    for k, (kind, name) in enumerate(case["parts"]):
        V, F = gmesh.build({"parts": [{"kind": kind}]})
        m = trimesh.Trimesh(V + rs.uniform(-1e-2, 1e-2, V.shape) + [7.0 * k, 0, 0], F, process=False)
        if name is not None:
            m.metadata["name"] = name
        parts.append(m)
        blobs.append(as_bytes(m.export(file_type="stl_ascii")))
    names = [n for _, n in case["parts"]]
    ctx.note(nontrivial=len(parts) >= 2, cls=["stl_multi"] + (["stl_multi:repeated_solid_name"] if len({n for n in names if n}) < len([n for n in names if n]) else []))
    data = b"".join(blobs)
    loaded = do_load(data, "stl_ascii", case["entry"], case["via_path"])
    geoms = [g for g, _ in flatten(loaded)]
    check(len(geoms) == len(parts), "C08.stl_multi|solid_count", f"{len(geoms)} geometries loaded from {len(parts)} solids named {names}")
    want = np.vstack([np.asarray(m.triangles) for m in parts])
    got = np.vstack([np.asarray(g.triangles) for g in geoms]) if geoms else np.zeros((0, 3, 3))
    check(got.shape == want.shape, "C08.stl_multi|triangle_count", f"{got.shape} vs {want.shape}")
    key = lambda a: a[np.lexsort(np.round(a.reshape((-1, 9)) * 1e4).T[::-1])]  # noqa
    check(np.abs(key(got) - key(want)).max() <= 1e-9 * np.abs(want).max(), "C08.stl_multi|triangles", "the loaded triangles are not the exported ones")


# ------------------------------------------------------------------ voxel grids (binvox) and paths (dxf / svg / dict)


def build_voxel(spec):
    """cubic grids (the binvox header has one scale for all axes, so export_binvox refuses anything else)"""
    from trimesh.voxel import encoding as E

    n = spec["n"]
    shp = tuple(spec.get("shape") or (n, n, n))
    rs = np.random.RandomState(spec["seed"])
    fill = spec["fill"]
    if fill[0] == "random":
        dense = rs.rand(*shp) < fill[1]
    elif fill[0] == "slab":
        dense = np.zeros(shp, dtype=bool)
        dense[fill[1] % shp[0] : fill[1] % shp[0] + fill[2]] = True
    else:
        # explicit run lengths over the flattened grid, alternating empty / filled
        flat = np.zeros(int(np.prod(shp)), dtype=bool)
        i, val = 0, bool(fill[2])
        for ln in fill[1]:
            flat[i : i + ln] = val
            i += ln
            val = not val
            if i >= len(flat):
                break
        dense = flat.reshape(shp)
    if spec["backing"] == "dense":
        enc = E.DenseEncoding(dense)
    elif spec["backing"] == "rle":
        enc = E.RunLengthEncoding.from_dense(dense.reshape(-1), dtype=bool).reshape(dense.shape)
    else:
        enc = E.BinaryRunLengthEncoding.from_dense(dense.reshape(-1)).reshape(dense.shape)
    T = np.eye(4)
    if spec.get("shape"):
        # a non-cubic grid is exportable when its extent is the same along every axis: pitch_i = L / (n_i - 1)
        L = spec["scale"] * (max(shp) - 1)
        T[:3, :3] = np.diag([L / (k - 1) for k in shp])
    else:
        T[:3, :3] *= spec["scale"]
    T[:3, 3] = spec["offset"]
    return trimesh.voxel.VoxelGrid(enc, transform=T), dense, T


@body("C08.voxel")
def b_voxel(case, ctx):
    vg, dense, T = build_voxel(case["spec"])
    ao = case["axis_order"]
    flat = dense.reshape(-1) if ao == "xyz" else dense.transpose((0, 2, 1)).reshape(-1)
    edges = np.flatnonzero(np.diff(flat.astype(np.int8))) + 1
    runs = np.diff(np.concatenate(([0], edges, [len(flat)])))
    longest = int(runs.max()) if len(runs) else 0
    ctx.note(nontrivial=bool(dense.any() and not dense.all()), cls=[f"voxel:{case['spec']['backing']}:{ao}", "voxel:noncubic" if len(set(dense.shape)) > 1 else "voxel:cubic", "voxel:run>=510" if longest >= 510 else "voxel:run>=255" if longest >= 255 else "voxel:short_runs"]
             + (["voxel:run_is_multiple_of_255"] if len(runs) and bool(((runs % 255) == 0).any()) else []))
    before = (np.array(vg.matrix).tobytes(), np.array(vg.transform).tobytes())
    kw = {} if ao == "xzy" and case.get("default_kw") else {"axis_order": ao}
    data = vg.export(file_type="binvox", **kw)
    check(isinstance(data, bytes) and data.startswith(b"#binvox"), "C08.voxel|export_type", str(type(data)))
    check((np.array(vg.matrix).tobytes(), np.array(vg.transform).tobytes()) == before, "C08.voxel|export_modified_source", "")
    check(vg.export(file_type="binvox", **kw) == data, "C08.voxel|export_not_deterministic", "")
    if case["via_path"]:
        path = os.path.join(os.getcwd(), f"vf_c08_{os.getpid()}.binvox")
        with open(path, "wb") as f:
            f.write(data)
        try:
            loaded = trimesh.load(path, **kw)
        finally:
            os.remove(path)
    else:
        loaded = trimesh.load(wrap_as_stream(data), file_type="binvox", **kw)
    check(isinstance(loaded, trimesh.voxel.VoxelGrid), "C08.voxel|loaded_type", type(loaded).__name__)
    check(tuple(loaded.shape) == dense.shape, "C08.voxel|shape", f"{loaded.shape} vs {dense.shape}")
    got = np.asarray(loaded.matrix)
    if not np.array_equal(got, dense):
        bad = np.argwhere(got != dense)
        raise Violation(f"C08.voxel|cells|axis_order={ao}", f"{len(bad)} of {dense.size} cells differ, first {bad[0].tolist()}: loaded {bool(got[tuple(bad[0])])}; longest run {longest}")
    check(int(loaded.filled_count) == int(dense.sum()), "C08.voxel|filled_count", f"{loaded.filled_count} vs {int(dense.sum())}")
    tolT = 16 * np.finfo(np.float64).eps * max(1.0, np.abs(T).max()) * max(dense.shape)
    check(np.abs(np.asarray(loaded.transform) - T).max() <= tolT, "C08.voxel|transform", f"{np.asarray(loaded.transform).tolist()} vs {T.tolist()}")
    # the filled cells sit where they sat (as a set: the point order follows the storage order)
    if dense.any():
        a = np.asarray(loaded.points)
        b = np.asarray(vg.points)
        a = a[np.lexsort(a.T[::-1])]
        b = b[np.lexsort(b.T[::-1])]
        check(a.shape == b.shape and np.abs(a - b).max() <= tolT * 4 + 1e-12 * np.abs(b).max(), "C08.voxel|points", "centres of the filled cells moved")


def build_path(spec):
    from trimesh.path.entities import Arc, Line

    rs = np.random.RandomState(spec["seed"])
    verts, ents, kinds = [], [], []
    for k, e in enumerate(spec["entities"]):
        c = np.array([k * 7.0, (k % 3) * 5.0]) * spec["scale"] + np.array(spec["offset"])
        if e[0] == "line":
            n = e[1]
            ang = np.sort(rs.uniform(0, 2 * np.pi, n))
            pts = c + np.column_stack((np.cos(ang), np.sin(ang))) * rs.uniform(0.5, 2.5, (n, 1)) * spec["scale"]
            i0 = len(verts)
            verts += pts.tolist()
            idx = list(range(i0, i0 + n)) + ([i0] if e[2] and n >= 3 else [])
            ents.append(Line(idx))
            kinds.append("line_closed" if e[2] and n >= 3 else "line_open")
        else:
            r = rs.uniform(0.5, 2.5) * spec["scale"]
            if e[1] == "circle":
                t = np.array([0.0, 2.0, 4.0]) + rs.uniform(0, 1)
            else:
                t0 = rs.uniform(0, 2 * np.pi)
                span = rs.uniform(0.3, 5.5)
                t = t0 + np.array([0.0, 0.5, 1.0]) * span * (1 if e[2] else -1)
            i0 = len(verts)
            verts += (c + np.column_stack((np.cos(t), np.sin(t))) * r).tolist()
            ents.append(Arc([i0, i0 + 1, i0 + 2], closed=e[1] == "circle"))
            kinds.append("circle" if e[1] == "circle" else "arc")
    return trimesh.path.Path2D(entities=ents, vertices=np.array(verts, dtype=np.float64), process=False), kinds


def describe_path(q):
    """per entity: ('line', points) | ('arc', centre, radius, end points, mid direction) | ('circle', centre, radius)"""
    from trimesh.path.entities import Arc, Line

    out = []
    V = np.asarray(q.vertices)
    for e in q.entities:
        if isinstance(e, Line):
            out.append(("line", V[e.points]))
        elif isinstance(e, Arc):
            cen = e.center(V)
            pts = V[e.points]
            if e.closed:
                out.append(("circle", np.array(cen.center), float(cen.radius)))
            else:
                mid = pts[1] - np.array(cen.center)
                out.append(("arc", np.array(cen.center), float(cen.radius), pts[[0, 2]], mid / np.linalg.norm(mid)))
        else:
            out.append((type(e).__name__,))
    return out


@body("C08.path")
def b_path(case, ctx):
    from trimesh.path.exchange.misc import dict_to_path

    p, kinds = build_path(case["spec"])
    fmt = case["fmt"]
    ctx.note(nontrivial=len(kinds) >= 2, cls=[f"path:{fmt}"] + sorted({f"path:{k}" for k in kinds}))
    src = describe_path(p)
    before = (np.array(p.vertices).tobytes(), [np.array(e.points).tobytes() for e in p.entities])
    data = p.export(file_type=fmt)
    check((np.array(p.vertices).tobytes(), [np.array(e.points).tobytes() for e in p.entities]) == before, f"C08.path|{fmt}|export_modified_source", "")
    if fmt == "dict":
        q = trimesh.path.Path2D(**dict_to_path(data))
    else:
        payload = data.encode("utf-8") if isinstance(data, str) else data
        if case["via_path"]:
            path = os.path.join(os.getcwd(), f"vf_c08_{os.getpid()}.{fmt}")
            with open(path, "wb") as f:
                f.write(payload)
            try:
                q = trimesh.load_path(path)
            finally:
                os.remove(path)
        else:
            q = trimesh.load_path(wrap_as_stream(payload), file_type=fmt)
    got = describe_path(q)
    check([g[0] for g in got] == [s_[0] for s_ in src], f"C08.path|{fmt}|entities", f"loaded {[g[0] for g in got]} vs exported {[s_[0] for s_ in src]}")
    size = max(1.0, float(np.abs(np.asarray(p.vertices)).max()))
    tol = {"dict": 0.0, "svg": 1e-12 * size, "dxf": 1e-9 * size}[fmt]
    for k, (a, b) in enumerate(zip(src, got)):
        if a[0] == "line":
            check(a[1].shape == b[1].shape, f"C08.path|{fmt}|line_point_count", f"entity {k}: {b[1].shape} vs {a[1].shape}")
            fwd = np.abs(a[1] - b[1]).max()
            check(fwd <= tol, f"C08.path|{fmt}|line_points", f"entity {k}: points differ by {fwd} > {tol}")
        elif a[0] in ("arc", "circle"):
            atol = max(tol, 1e-9 * size) * 10
            if fmt == "svg" and a[0] == "circle":
                # export_svg writes a circle as two exact semicircles in endpoint form (end points 2R apart): the centre
                # is recovered from sqrt(R^2 - (d/2)^2) with R^2 - (d/2)^2 ~ eps*R*size, i.e. to sqrt(eps*R*size) only
                atol = max(atol, 32 * np.sqrt(np.finfo(np.float64).eps * a[2] * size))
            check(np.abs(a[1] - b[1]).max() <= atol and abs(a[2] - b[2]) <= atol, f"C08.path|{fmt}|{a[0]}_centre_radius", f"entity {k}: centre {b[1].tolist()} r {b[2]} vs {a[1].tolist()} r {a[2]}")
            if a[0] == "arc":
                same = np.abs(a[3] - b[3]).max() <= atol
                swapped = np.abs(a[3] - b[3][::-1]).max() <= atol
                check(same or swapped, f"C08.path|{fmt}|arc_end_points", f"entity {k}: {b[3].tolist()} vs {a[3].tolist()}")
                check(float(np.dot(a[4], b[4])) > 0.0, f"C08.path|{fmt}|arc_other_side", f"entity {k}: the loaded arc runs through the complementary side of the circle")


@st.composite
def mesh_spec(draw, big=False):
    kind = draw(st.sampled_from(["soup", "soup", "pool", "single"]))
    spec = {"seed": draw(st.integers(0, 10**6))}
    if big:
        spec.update({"kind": "big", "nv": draw(st.sampled_from([65535, 65536, 65537, 70000]))})
    elif kind == "soup":
        spec.update({"kind": "soup", "nv": draw(st.integers(3, 12)), "nf": draw(st.integers(1, 10))})
    elif kind == "single":
        spec.update({"kind": "soup", "nv": 3, "nf": 1})
    else:
        spec.update({"kind": "pool", "mesh": draw(gmesh.mesh_spec(kinds=["tetra", "box", "octa", "prism", "icos"], max_parts=2, jitter=False))})
    spec["scale"] = draw(st.sampled_from([1.0, 1.0, 1e-3, 1e3, 1e-30, 1e30, 123.456]))
    off = draw(st.sampled_from([[0.0, 0.0, 0.0], [-5.0, 7.0, 11.0], [1e3, -1e3, 1e-3]]))
    spec["offset"] = [o * (spec["scale"] if abs(np.log10(spec["scale"])) > 10 else 1.0) for o in off]
    spec["colors"] = draw(st.sampled_from([None, "face", "vertex"]))
    spec["attributes"] = draw(st.booleans())
    return spec


@st.composite
def mesh_case(draw, formats=None, big=False):
    fmt = draw(st.sampled_from(formats or sorted(MESH_FORMATS)))
    spec = draw(mesh_spec(big=big))
    if fmt in ("obj", "off", "dae") and abs(np.log10(spec["scale"])) > 10:
        # fixed-decimal text formats cannot hold 1e-30 (documented digits) and print 1e30 with ~40 characters: keep them in range
        spec["scale"] = 1.0
        spec["offset"] = [0.0, 0.0, 0.0]
    return {
        "mesh": spec,
        "fmt": fmt,
        "kw": draw(st.sampled_from(MESH_FORMATS[fmt])),
        "entry": draw(st.sampled_from(["load", "load_mesh", "load_scene"])),
        "via_path": draw(st.booleans()),
    }


@st.composite
def points_case(draw):
    return {"fmt": draw(st.sampled_from(["xyz", "ply", "glb"])), "n": draw(st.integers(1, 20)), "seed": draw(st.integers(0, 10**6)),
            "scale": draw(st.sampled_from([1.0, 1e-3, 1e3])), "offset": draw(st.sampled_from([[0.0, 0.0, 0.0], [10.0, -20.0, 5.0]])), "colors": draw(st.booleans())}


@st.composite
def scene_case(draw):
    edges = [draw(gm.matrix(classes=["rigid", "translation", "rotation", "similarity"], tscale=5.0))["M"] for _ in range(4)]
    fmt = draw(st.sampled_from(SCENE_FORMATS + FLAT_SCENE_FORMATS))
    kw = draw(st.sampled_from(MESH_FORMATS[fmt])) if fmt in SCENE_FORMATS else {}
    shape = draw(st.sampled_from(["full", "full", "single", "single_under_parent"]))
    return {"scene": {"seed": draw(st.integers(0, 10**6)), "edges": edges, "empty_first": draw(st.booleans()), "cloud_first": draw(st.booleans()), "shape": shape}, "fmt": fmt, "kw": kw, "entry": draw(st.sampled_from(["load", "load_scene"]))}


@st.composite
def stl_multi_case(draw):
    name = st.sampled_from([None, "part", "part", "body", "", "a b", "part_1"])
    parts = draw(st.lists(st.tuples(st.sampled_from(["tetra", "box", "octa"]), name), min_size=1, max_size=4))
    return {"seed": draw(st.integers(0, 10**6)), "parts": [list(p) for p in parts], "entry": draw(st.sampled_from(["load", "load_scene"])), "via_path": draw(st.booleans())}


@st.composite
def voxel_case(draw):
    n = draw(st.sampled_from([2, 3, 5, 8, 8, 9, 12, 16]))
    kind = draw(st.sampled_from(["random", "random", "slab", "runs", "runs"]))
    if kind == "random":
        fill = ["random", draw(st.sampled_from([0.03, 0.5, 0.97]))]
    elif kind == "slab":
        a = draw(st.integers(0, n - 1))
        fill = ["slab", a, draw(st.integers(1, n - a))]
    else:
        # run lengths around the one-byte count limit of the format and its multiples
        fill = ["runs", draw(st.lists(st.one_of(st.integers(1, 40), st.sampled_from([254, 255, 256, 509, 510, 511, 765, 1020, 1275])), min_size=1, max_size=30)), draw(st.integers(0, 1))]
    shape = None
    if draw(st.integers(0, 2)) == 0:
        shape = [draw(st.integers(2, 9)) for _ in range(3)]
    return {
        "spec": {"n": n, "shape": shape, "seed": draw(st.integers(0, 10**6)), "fill": fill, "backing": draw(st.sampled_from(["dense", "rle", "brle"])),
                 "scale": draw(st.sampled_from([1.0, 0.37, 25.0, 1e-3])), "offset": [draw(_f(-100, 100)) for _ in range(3)]},
        "axis_order": draw(st.sampled_from(["xzy", "xyz"])),
        "default_kw": draw(st.booleans()),
        "via_path": draw(st.booleans()),
    }


@st.composite
def path_case(draw):
    ents = draw(st.lists(st.one_of(
        st.tuples(st.just("line"), st.integers(2, 7), st.booleans()),
        st.tuples(st.just("arc"), st.sampled_from(["circle", "open"]), st.booleans()),
    ), min_size=1, max_size=6))
    return {
        "spec": {"seed": draw(st.integers(0, 10**6)), "entities": [list(e) for e in ents], "scale": draw(st.sampled_from([1.0, 1e-2, 1e3])), "offset": [draw(_f(-1000, 1000)) for _ in range(2)]},
        "fmt": draw(st.sampled_from(["dxf", "svg", "dict"])),
        "via_path": draw(st.booleans()),
    }


@subcheck("C08", "mesh", shards={"quick": 10, "thorough": 16})
def s_mesh(ctx):
    ctx.given("C08.mesh", mesh_case(), n={"quick": 2500, "thorough": 60000})


@subcheck("C08", "grid", shards={"quick": 4, "thorough": 4})
def s_grid(ctx):
    """every format x option set x loader entry x stream/path on one asymmetric coloured mesh"""
    cases = []
    for fmt, kws in sorted(MESH_FORMATS.items()):
        for kw in kws:
            for entry in ("load", "load_mesh", "load_scene"):
                for via in (False, True):
                    for col in (None, "face", "vertex"):
                        cases.append({"mesh": {"kind": "soup", "nv": 7, "nf": 5, "seed": 11, "scale": 123.456, "offset": [-5.0, 7.0, 11.0], "colors": col, "attributes": True}, "fmt": fmt, "kw": kw, "entry": entry, "via_path": via})
    ctx.enumerate("C08.mesh", cases, label="format_x_options_x_entry_x_transport_x_colours")


@subcheck("C08", "points_scenes", shards={"quick": 2, "thorough": 6})
def s_points(ctx):
    ctx.given("C08.points", points_case(), n={"quick": 400, "thorough": 8000})
    ctx.given("C08.scene", scene_case(), n={"quick": 300, "thorough": 6000})


@subcheck("C08", "big_index", shards={"quick": 1, "thorough": 4})
def s_big(ctx):
    # index width switch at 65536 vertices
    ctx.given("C08.mesh", mesh_case(formats=["glb", "ply", "stl", "off"], big=True), n={"quick": 6, "thorough": 80})


@subcheck("C08", "voxel_path", shards={"quick": 4, "thorough": 8})
def s_voxel_path(ctx):
    ctx.given("C08.voxel", voxel_case(), n={"quick": 600, "thorough": 20000})
    ctx.given("C08.path", path_case(), n={"quick": 600, "thorough": 20000})
    ctx.given("C08.stl_multi", stl_multi_case(), n={"quick": 300, "thorough": 6000})


REQUIRED_CLASSES["C08"] = ["fmt:stl", "fmt:ply", "fmt:obj", "fmt:glb", "fmt:gltf", "fmt:3mf", "fmt:dae", "fmt:off", "fmt:dict64", "fmt:stl_ascii", "scene:glb", "scene:3mf", "points:xyz:colors=True", "points:xyz:colors=False",
                           "scene:stl", "scene:ply", "scene:obj", "scene:vertices_only_geometry_first", "stl_multi:repeated_solid_name", "scene:shape=single", "scene:shape=single_under_parent", "voxel:noncubic", "voxel:run>=510", "voxel:run_is_multiple_of_255", "path:dxf", "path:svg", "path:dict", "path:arc", "path:circle"]
