"""C11 — plane sections lie on plane and surface; slices partition the solid
(trimesh/intersections.py, Trimesh.section / section_multiplane / slice_plane, lines_to_path, triangulate_polygon)."""

import math
from collections import Counter, defaultdict
from functools import reduce

import numpy as np
from hypothesis import strategies as st

import trimesh
from trimesh import creation, intersections

from ..core import ASSUMPTIONS, REQUIRED_CLASSES, RULES, Violation, body, check, subcheck
from ..gen import c11_cells as gcells
from ..gen import matrices as gmat
from ..gen import meshes as gmesh
from ..oracle import c11_ref as ref

RULES["C11"] = (
    "Meshes from the template pool (tetra, box, octa, icosphere, UV sphere = convex; star prisms, torus = non-convex / genus 1; "
    "two disjoint bodies; open by face deletion; extruded polyominoes (own grid construction: L / U / C / comb outlines, frames with "
    "tongues = non-convex through-holes whose centroid lies in the material; concentric rings = islands with holes inside through-holes) and "
    "cavity shells (2-4 concentric copies of a template wound alternately outward / inward: body floating in a cavity) for the capping "
    "sub-checks cap_holes / cap_nested (sections nested 3 and 4 deep), either with INTEGER coordinates (lattice 1..100, unrotated) or jittered / rotated / "
    "translated / scaled (1e-2..1e2) floats. Planes: general position; through a mesh vertex; along a mesh edge; in a face; through "
    "three vertices; through 1-3 edge midpoints; lattice point with small integer normal; each of these optionally perturbed by "
    "1e-10..1e-7 (near class) — on lattice meshes the normal is an integer vector so every dot product is exact and all 10 sign "
    "codes of triangle_cases / all 27 ordered sign patterns / inside, outside, quad, tri, vertex-on-plane and coplanar cases of "
    "slice_faces_plane are produced on purpose (class histogram code:*, sp:*, slice:*). Calls: mesh_plane(+return_faces, "
    "local_faces), Trimesh.section, mesh_multiplane / section_multiplane(heights through vertices and random), "
    "slice_plane(cap=False) for +n and -n, (k,3) plane lists, face_index; slice_plane(cap=True) per engine earcut/triangle/manifold. "
    "Oracle (own code): signs by the documented |dot|<=1e-8 rule (exact integers on lattices); per-triangle segment by linear "
    "interpolation; Sutherland-Hodgman clipping for exact positive-side area / vector area / volume (divergence theorem from a point "
    "in the plane); own point-triangle distance; own closedness and convexity. Capping failures are bucketed by input class (pinched cap boundary, vertex within tol.merge, "
    "zero-area cap face before a further plane, crossing point on a rounding boundary of the 1e-8 merge grid) before engine / shape / plane kind. "
    "Non-trivial: the plane separates the vertices "
    "(at least one segment / both sides non-empty); distinct by case."
)
ASSUMPTIONS["C11"] = [
    "|(v-o).n| <= tol.merge (1e-8, un-normalised normal as documented) means 'on the plane'; cases with a dot within 10% of the threshold skip the exact clauses",
    "float64 interpolation trusted; matching tolerance 1e-12*scale + 64 eps*scale/sin(edge,plane)",
    "a face lying in the plane belongs to the slice whose normal opposes the face normal (source comment of slice_faces_plane; regularised solid semantics)",
    "when the plane contains mesh edges only the documented convention of triangle_cases is checked (on-edge faces with the third vertex on the positive side report the edge), coverage is not demanded",
    "Path3D.is_closed / path length are demanded only for distinct expected section points > 1e-4 apart (path merge tolerance 1e-5; for the processed Path2D of section_multiplane 1e-4 * path scale, as Path.merge_vertices works at tol_path.merge * scale); closedness also needs closed input and no vertex on the plane",
    "'general position' for closedness also requires every crossing point reproducible in float64 to 1e-6 (64 eps scale / sin(edge, plane)): the faces sharing a cut edge compute it independently; the same conditioning bounds the difference between a local_faces call and the full call",
    "capping works at the resolution tol.merge: exact volume / watertightness of capped halves is demanded only when distinct expected section points are > 1e-6 apart and every crossing point is reproducible to 1e-9 (8 eps scale / sin(edge, plane)); a vertex taken as on-plane within tolerance widens the area / volume tolerance by the band it may move (and points within tol.merge of the surface count as on it)",
    "near-plane offsets avoid the half-grid value 5e-9 where the 1e-8 rounding grid of grouping.unique_rows may 'go either way' (documented there)",
    "transform_points' documented identity shortcut (|M - I| < 1e-8) is allowed for in the 2D round trip of section_multiplane",
    "solids used for capping are embedded: convex by an exact test, polyominoes by construction, every other pool / shell mesh passes an exhaustive own edge-through-face test (lattice 10 non-convex meshes are not used)",
    "slice_plane(face_index=...) is read as 'the positive part of the selected faces', like local_faces of mesh_plane",
    "per capped half (single plane): zero total vector area, area = clipped surface + exact section area (flux of the clipped surface through the plane), every cap triangle's centroid has winding number 1 w.r.t. the source solid; for the constructed polyomino solids and engines triangle / manifold every edge must be used equally often in both directions (allows two parts of a half touching along an edge); earcut is exempt from that clause because it merges collinear boundary points (T-junctions, zero geometric gap)",
    "winding consistency (is_volume) of a capped convex half is demanded only if the half has no zero-area face (a cap over collinear points)",
]

_f = lambda lo, hi: st.floats(lo, hi, allow_nan=False, allow_infinity=False)  # noqa
EPS = ref.EPS
THR = ref.THR
ENGINES = [name for name, ok in creation._engines if ok]

# --------------------------------------------------------------------------------------------- builders


def build_mesh(ms):
    """-> dict(V, F, E, lattice(bool), closed(bool), solid(bool), convex(bool), label)"""
    cells_info = None
    if ms.get("cells") is not None:
        # extruded polyomino (own construction): non-convex outline, non-convex through-holes; optional placement
        V, F, cells_info = gcells.build(ms["cells"])
        if ms.get("place") is not None:
            Mx = np.asarray(ms["place"], dtype=np.float64)
            V = V @ Mx[:3, :3].T + Mx[:3, 3]
    elif ms.get("shells") is not None:
        # concentric scaled copies of one centred, star-shaped template, alternately wound outward / inward:
        # shell > cavity > body floating in the cavity > cavity in that body (sections nested 2..4 deep)
        sh = ms["shells"]
        V0, F0 = gmesh.build({"parts": [dict(sh["part"], offset=[0.0, 0.0, 0.0], scale=1.0)]})
        Vs, Fs, n0 = [], [], 0
        for i, f in enumerate(sh["factors"]):
            Vs.append(V0 * float(f))
            Fs.append((F0[:, ::-1] if i % 2 else F0) + n0)
            n0 += len(V0)
        V, F = np.vstack(Vs), np.vstack(Fs)
        if sh.get("lattice"):
            V = np.round(V * int(sh["lattice"]))
        if ms.get("place") is not None:
            Mx = np.asarray(ms["place"], dtype=np.float64)
            V = V @ Mx[:3, :3].T + Mx[:3, 3]
    else:
        V, F = gmesh.build(ms["spec"])
    if ms.get("drop"):
        keep = np.ones(len(F), dtype=bool)
        keep[[i % len(F) for i in ms["drop"]]] = False
        if keep.sum() >= 2:
            F = F[keep]
    if ms.get("scale"):
        V = V * float(ms["scale"])
    V = np.ascontiguousarray(V, dtype=np.float64)
    F = np.ascontiguousarray(F, dtype=np.int64)
    lattice = bool(np.array_equal(V, np.round(V))) and float(np.abs(V).max()) < 2**20
    e = np.sort(np.vstack((F[:, [0, 1]], F[:, [1, 2]], F[:, [2, 0]])), axis=1)
    E = np.unique(e, axis=0)
    closed = ref.closed_oriented(F)
    T = V[F]
    cr = np.cross(T[:, 1] - T[:, 0], T[:, 2] - T[:, 0])
    sc = max(float(np.ptp(V, axis=0).max()), 1e-300)
    nondeg = bool((np.linalg.norm(cr, axis=1) > 1e-9 * sc * sc).all()) and len(np.unique(V[np.unique(F)], axis=0)) == len(np.unique(F))
    ncomp = ref.n_components(F, len(V))
    convex = bool(closed and nondeg and ncomp == 1 and ref.weakly_convex(V, F, integer=lattice))
    if cells_info is not None:
        trusted, kinds = True, "cells"  # embedded by construction
    elif ms.get("shells") is not None:
        trusted, kinds = True, "shells%d" % len(ms["shells"]["factors"])  # factors >= 0.2 apart: disjoint nested surfaces
    else:
        trusted = (ms["spec"].get("lattice") or 100) >= 100  # displacement <= 0.005 keeps templates embedded
        kinds = ms["spec"]["parts"][0]["kind"] if len(ms["spec"]["parts"]) == 1 else "multibody"
    # an embedded solid: convex by the exact test, embedded by construction (polyominoes), or free of edge / face
    # piercings by the exhaustive own test (a jittered thin torus of 3 x 3 rings can intersect itself)
    embedded = convex or cells_info is not None or (trusted and closed and nondeg and not ref.self_pierced(V, F, E))
    solid = bool(closed and nondeg and ref.volume_of(V, F) > 0 and embedded)
    return {"V": V, "F": F, "E": E, "lattice": lattice, "closed": closed, "solid": solid, "convex": convex, "ncomp": ncomp,
            "cells": cells_info, "label": ("lat:" if lattice else "flt:") + kinds + ("" if closed else ":open")}


def _igcd(v):
    g = reduce(math.gcd, [abs(int(x)) for x in v])
    return [int(x) // g for x in v] if g else [int(x) for x in v]


def _cross_fallback(d, w):
    """a vector orthogonal to d built from w (or an axis when w is parallel to d)"""
    for cand in (w, [1, 0, 0], [0, 1, 0], [0, 0, 1]):
        c = np.cross(d, np.asarray(cand, dtype=np.float64))
        if np.abs(c).max() > 1e-9 * max(np.abs(d).max(), 1e-300):
            return c
    return np.array([0.0, 0.0, 1.0])


def make_plane(M, p):
    """resolve a plane spec against the built mesh -> origin (3,), normal (3,), kind label"""
    V, F, E = M["V"], M["F"], M["E"]
    kind = p["kind"]
    i = [int(x) for x in p.get("i", [0, 0, 0])]
    w = np.array(p.get("w", [0, 0, 1]), dtype=np.float64)
    if not np.abs(w).any():
        w = np.array([0.0, 0.0, 1.0])
    if kind == "general":
        u = np.abs(np.array(p["u"], dtype=np.float64)) + 0.05
        u = u / u.sum()
        o = u[0] * V[i[0] % len(V)] + u[1] * V[i[1] % len(V)] + u[2] * V[i[2] % len(V)]
        n = np.array(p["nv"], dtype=np.float64)
        if np.linalg.norm(n) < 1e-2:
            n = np.array([0.0, 0.0, 1.0])
    elif kind == "vertex":
        o = V[F.reshape(-1)[i[0] % F.size]].copy()
        n = w.copy() if not p.get("nfloat") else np.array(p["nv"], dtype=np.float64)
        if np.linalg.norm(n) < 1e-2:
            n = np.array([0.0, 0.0, 1.0])
    elif kind == "edge":
        a, b = V[E[i[0] % len(E)]]
        o = a.copy()
        n = _cross_fallback(b - a, w)
    elif kind in ("face", "three"):
        if kind == "face":
            a, b, c = V[F[i[0] % len(F)]]
        else:
            ids = np.unique(F)
            a, b, c = V[ids[i[0] % len(ids)]], V[ids[i[1] % len(ids)]], V[ids[i[2] % len(ids)]]
        o = a.copy()
        n = np.cross(b - a, c - a)
        if np.abs(n).max() <= 1e-9 * max(np.abs(b - a).max(), np.abs(c - a).max(), 1e-300) ** 2:
            d = b - a if np.abs(b - a).any() else c - a
            n = _cross_fallback(d, w) if np.abs(d).any() else w.copy()
    elif kind == "mid":
        ms = [V[E[k % len(E)]].sum(axis=0) for k in i]  # doubled midpoints (integers on a lattice)
        o = ms[0] / 2.0
        nm = int(p.get("nm", 1))
        if nm == 1:
            n = w.copy()
        elif nm == 2 or not np.abs(np.cross(ms[1] - ms[0], ms[2] - ms[0])).any():
            d = ms[1] - ms[0]
            n = _cross_fallback(d, w) if np.abs(d).any() else w.copy()
        else:
            n = np.cross(ms[1] - ms[0], ms[2] - ms[0])
    elif kind == "axis":
        lo, hi = V.min(axis=0), V.max(axis=0)
        u = np.array(p["u"], dtype=np.float64)
        o = lo + u * (hi - lo)
        if M["lattice"]:
            o = np.round(o)
        n = w.copy()
    else:
        raise ValueError(kind)
    form = p.get("form", "unit")
    integer = M["lattice"] and bool(np.array_equal(n, np.round(n))) and bool(np.array_equal(2 * o, np.round(2 * o)))
    if form == "int" and integer and kind != "general":
        n = np.array(_igcd(np.round(n).astype(np.int64).tolist()), dtype=np.float64)
        if np.abs(n).max() > 2**26:
            n = ref.unit(n)
    else:
        n = ref.unit(n)
        if form == "scaled":
            n = n * float(p.get("s", 1.0))
    near = p.get("near")
    if near:
        nh = ref.unit(n)
        o = o + float(near["delta"]) * nh
        n = ref.unit(nh + float(near["eps"]) * np.array(near["r"], dtype=np.float64))
    if p.get("flip"):
        n = -n
    return np.ascontiguousarray(o, dtype=np.float64), np.ascontiguousarray(n, dtype=np.float64), kind + ("~near" if near else "")


def oracle_signs(M, o, n):
    """-> dots, signs, ambiguous, snapped, exact(bool)"""
    V = M["V"]
    dots = ref.dots_of(V, o, n)
    exact = False
    if M["lattice"] and np.array_equal(n, np.round(n)) and np.array_equal(2 * o, np.round(2 * o)) and np.abs(n).max() <= 2**26:
        d2 = ref.exact_int_dots(V, o, n)
        if any(abs(x) >= 2**52 for x in d2):
            raise RuntimeError("integer dots too large for exact float arithmetic")
        if not np.array_equal(np.array(d2, dtype=np.float64) / 2.0, dots):
            raise RuntimeError("harness: float dots differ from exact integer dots on a lattice case")
        exact = True
    s, amb, snapped = ref.classify(dots)
    return dots, s, amb, snapped, exact


def scale_of(M, o):
    return max(float(np.abs(M["V"]).max()), float(np.abs(o).max()), 1e-300)


def code_classes(sf):
    codes = sorted(set(int(c) for c in ref.case_codes(sf)))
    pats = sorted(set(ref.pattern_labels(sf)))
    return [f"code:{c}" for c in codes] + [f"sp:{p}" for p in pats]


# --------------------------------------------------------------------------------------------- section oracle


def expected_segments(M, dots, signs, faces=None):
    """face -> (P(2,3), cond(2,)) for straddling faces and (documented convention) faces with signs (0,0,+)"""
    V, F = M["V"], M["F"]
    exp = ref.straddle_segments(V, F, dots, signs)
    sf = signs[F]
    conv = {}
    for f in np.nonzero(((sf == 0).sum(axis=1) == 2) & (sf.max(axis=1) == 1))[0]:
        idx = F[f][sf[f] == 0]
        conv[int(f)] = (V[idx].copy(), np.zeros(2))
    if faces is not None:
        fs = set(int(x) for x in faces)
        exp = {k: v for k, v in exp.items() if k in fs}
        conv = {k: v for k, v in conv.items() if k in fs}
    return exp, conv


def check_segments(sig, M, o, n, dots, signs, amb, lines, fi, faces=None, extra_tol=0.0):
    """clauses (1) and (2) for one plane; lines (k,2,3), fi (k,)"""
    V, F = M["V"], M["F"]
    lines = np.asarray(lines, dtype=np.float64)
    fi = np.asarray(fi)
    check(lines.ndim == 3 and lines.shape[1:] == (2, 3), sig + "|shape", f"lines shape {lines.shape}")
    check(fi.shape == (len(lines),) and fi.dtype.kind in "iu", sig + "|face_index_shape", f"{fi.shape} {fi.dtype} for {len(lines)} lines")
    if len(lines) == 0 and not len(F):
        return
    check(len(fi) == 0 or (fi.min() >= 0 and fi.max() < len(F)), sig + "|face_index_range", f"{fi.tolist()[:10]}")
    scale = scale_of(M, o)
    nlen = float(np.linalg.norm(n))
    # (1) on the plane, and on the triangle named by the face index
    if len(lines):
        P = lines.reshape((-1, 3))
        dist = np.abs((P - o) @ n) / nlen
        tol_plane = THR / nlen + 1e-12 * scale + extra_tol
        k = int(np.argmax(dist))
        check(dist[k] <= tol_plane, sig + "|off_plane", lambda: f"endpoint {P[k].tolist()} of segment {k // 2} (face {int(fi[k // 2])}) is {dist[k]:.3g} from the plane (tol {tol_plane:.3g})")
        T = V[F[np.repeat(fi, 2)]]
        dt = ref.point_tri_dist(P, T[:, 0], T[:, 1], T[:, 2])
        tol_tri = 1e-12 * scale + extra_tol
        k = int(np.argmax(dt))
        check(dt[k] <= tol_tri, sig + "|off_triangle", lambda: f"endpoint {P[k].tolist()} of segment {k // 2} is {dt[k]:.3g} from its face {int(fi[k // 2])} {V[F[fi[k // 2]]].tolist()} (tol {tol_tri:.3g})")
    if amb:
        return
    # (2) exactly the per-triangle segments
    exp, conv = expected_segments(M, dots, signs, faces)
    got = defaultdict(list)
    for k, f in enumerate(fi.tolist()):
        got[int(f)].append(lines[k])
    edge_in = ref.edges_in_plane(F if faces is None else F[np.asarray(list(faces), dtype=np.int64).reshape(-1)], signs)
    suffix = "|edge_in_plane" if edge_in else ""
    sf = signs[F]
    for f, (Pe, cond) in exp.items():
        if f not in got:
            raise Violation(sig + "|missing" + suffix, f"face {f} signs {sf[f].tolist()} straddles the plane (segment {Pe.tolist()}) but no segment is reported")
    for f, (Pe, cond) in conv.items():
        if f not in got:
            raise Violation(sig + "|on_edge_convention|missing", f"face {f} signs {sf[f].tolist()} has an edge in the plane and its third vertex on the positive side: documented to report the edge {Pe.tolist()}")
    for f, segs in got.items():
        if f in exp:
            Pe, cond = exp[f]
            what = "|wrong" + suffix
        elif f in conv:
            Pe, cond = conv[f]
            what = "|on_edge_convention|wrong"
        else:
            code = int(ref.case_codes(sf[f][None])[0])
            what = "|on_edge_convention|extra" if code in (6, 14) else "|extra" + suffix
            raise Violation(sig + what, f"face {f} signs {sf[f].tolist()} (code {code}) has no segment in the plane but {np.asarray(segs).tolist()} is reported")
        check(len(segs) == 1, sig + "|duplicate" + suffix, lambda: f"face {f} reported {len(segs)} times")
        S = segs[0]
        tau = 1e-12 * scale + 64 * EPS * scale * cond * nlen + extra_tol
        e0 = max(np.linalg.norm(S[0] - Pe[0]) / tau[0], np.linalg.norm(S[1] - Pe[1]) / tau[1])
        e1 = max(np.linalg.norm(S[0] - Pe[1]) / tau[1], np.linalg.norm(S[1] - Pe[0]) / tau[0])
        check(min(e0, e1) <= 1.0, sig + what, lambda: f"face {f} signs {sf[f].tolist()} vertices {V[F[f]].tolist()}: reported {S.tolist()} expected {Pe.tolist()} (tol {tau.tolist()})")


def endpoints_separated(M, dots, signs, min_dist=1e-4):
    """distinct expected segment endpoints (one per cut mesh edge, one per on-plane vertex of a straddling face) are
    farther apart than the path merge tolerance (tol_path.merge = 1e-5 rounding grid), so that assembling the
    segments into a Path cannot fuse different points"""
    V, E, F = M["V"], M["E"], M["F"]
    cut = E[signs[E[:, 0]] * signs[E[:, 1]] < 0]
    da, db = dots[cut[:, 0]], dots[cut[:, 1]]
    P = V[cut[:, 0]] + (da / np.where(da == db, 1.0, da - db))[:, None] * (V[cut[:, 1]] - V[cut[:, 0]])
    zs = np.unique(F[signs[F] == 0])
    P = np.vstack((P, V[zs])) if len(zs) else P
    if len(P) == 0:
        return False
    if len(P) > 1:
        D = np.linalg.norm(P[:, None, :] - P[None, :, :], axis=2)
        D[np.arange(len(P)), np.arange(len(P))] = np.inf
        if D.min() <= min_dist:
            return False
    return True


def endpoints_resolved(M, dots, signs, nlen=1.0):
    """capping works at the documented resolution tol.merge = 1e-8 (vertices closer than that are one vertex; the two
    faces sharing a cut edge each compute its crossing point and rely on that merge): exact volumes / watertightness
    are demanded when all distinct expected section points are > 100 tol.merge apart and every crossing point is
    reproducible in float64 to tol.merge / 10 (error ~ 8 eps scale / sin(edge, plane))"""
    V, F = M["V"], M["F"]
    E = M["E"] if "E" in M else edges_of(F)
    cut = E[signs[E[:, 0]] * signs[E[:, 1]] < 0]
    if len(cut):
        L = np.linalg.norm(V[cut[:, 1]] - V[cut[:, 0]], axis=1)
        inv_sin = L * nlen / np.abs(dots[cut[:, 0]] - dots[cut[:, 1]])
        if 8 * EPS * max(float(np.abs(V).max()), 1e-300) * float(inv_sin.max()) > 0.1 * THR:
            return False
    sep = endpoints_separated({"V": V, "E": E, "F": F}, dots, signs, min_dist=100 * THR)
    return sep or not ((signs[F].min(axis=1) < 0) & (signs[F].max(axis=1) > 0)).any() and not (signs == 0).any()


def merge_grid_safe(M, dots, signs, nlen=1.0):
    """capping fuses the copies of a crossing point (one per adjacent face) with grouping.unique_rows, which rounds
    x * 1e8 - 1e-6 to integers: copies that differ by float noise are NOT fused when a coordinate sits on a rounding
    boundary (noise / cell ~ 1e-4 at coordinates ~1e4), the cap loop stays open and the capped volume is wrong.
    Input class of that finding (signature C11.cap|merge_grid_boundary|...): some expected crossing point has a
    coordinate within its float64 uncertainty (64 eps scale / sin(edge, plane)) of such a boundary -> returns False."""
    V, F = M["V"], M["F"]
    E = M["E"] if "E" in M else edges_of(F)
    cut = E[signs[E[:, 0]] * signs[E[:, 1]] < 0]
    if len(cut) == 0:
        return True
    da, db = dots[cut[:, 0]], dots[cut[:, 1]]
    P = V[cut[:, 0]] + (da / (da - db))[:, None] * (V[cut[:, 1]] - V[cut[:, 0]])
    L = np.linalg.norm(V[cut[:, 1]] - V[cut[:, 0]], axis=1)
    unc = 64 * EPS * max(float(np.abs(V).max()), 1e-300) * L * nlen / np.abs(da - db) + 16 * EPS * np.abs(P).max(axis=1)
    cell = P * 1e8 - 1e-6
    frac = cell - np.floor(cell)
    return bool((np.abs(frac - 0.5) > (unc * 1e8 + 1e-6)[:, None]).all())


def edges_of(F):
    e = np.sort(np.vstack((F[:, [0, 1]], F[:, [1, 2]], F[:, [2, 0]])), axis=1)
    return np.unique(e, axis=0)


def closed_precondition(M, dots, signs, amb, min_dist=1e-4, nlen=1.0):
    """'closed mesh in general position': closed input, no vertex on the plane, distinct crossing points farther apart
    than the path merge tolerance, and every crossing point reproducible in float64 to a tenth of tol_path.merge (the
    two faces sharing a cut edge each compute its crossing point, error ~ 64 eps scale / sin(edge, plane), and the
    path is closed only if the two copies are fused): an edge with both ends within ~1e-7 of the plane at
    coordinates ~1e4 is cut at 1e-11 rad and is not general position"""
    if not M["closed"] or amb or (signs == 0).any():
        return False
    V, E = M["V"], M["E"]
    cut = E[signs[E[:, 0]] * signs[E[:, 1]] < 0]
    if len(cut):
        L = np.linalg.norm(V[cut[:, 1]] - V[cut[:, 0]], axis=1)
        inv_sin = L * nlen / np.abs(dots[cut[:, 0]] - dots[cut[:, 1]])
        if 64 * EPS * max(float(np.abs(V).max()), 1e-300) * float(inv_sin.max()) > 1e-6:
            return False
    return endpoints_separated(M, dots, signs, min_dist=min_dist)


# --------------------------------------------------------------------------------------------- C11.section


@body("C11.section")
def b_section(case, ctx):
    with np.errstate(all="ignore"):
        M = build_mesh(case["mesh"])
        V, F = M["V"], M["F"]
        o, n, pk = make_plane(M, case["plane"])
        dots, signs, amb, snapped, exact = oracle_signs(M, o, n)
        sf = signs[F]
        scale = scale_of(M, o)
        nlen = float(np.linalg.norm(n))
        exp, conv = expected_segments(M, dots, signs)
        mode = ("exact" if exact else "tol") + ("+snap" if snapped and not exact and ((np.abs(dots) > 1e-11 * scale * nlen) & (signs == 0)).any() else "")
        ctx.note(nontrivial=len(exp) > 0, cls=[M["label"], "plane:" + pk, "signs:" + mode] + code_classes(sf) + (["ambiguous"] if amb else []))
        mesh = trimesh.Trimesh(V.copy(), F.copy(), process=False)
        base = f"C11.section|mesh_plane|{pk}"

        lines, fi = intersections.mesh_plane(mesh, plane_normal=n.copy(), plane_origin=o.copy(), return_faces=True)
        check_segments(base, M, o, n, dots, signs, amb, lines, fi)
        only = intersections.mesh_plane(mesh, plane_normal=n.copy(), plane_origin=o.copy())
        check(np.array_equal(np.asarray(only), np.asarray(lines)), base + "|return_faces_changes_lines", "lines differ between return_faces=True and False")
        check(np.array_equal(mesh.vertices, V) and np.array_equal(mesh.faces, F), base + "|input_modified", "mesh changed by mesh_plane")

        # (7) face subsets
        sub = case.get("subset")
        if sub is not None:
            subset = list(dict.fromkeys(int(i) % len(F) for i in sub))
            ctx.note(cls="subset:%s" % ("empty" if not subset else "some"))
            ls, fs = intersections.mesh_plane(mesh, plane_normal=n, plane_origin=o, return_faces=True, local_faces=np.array(subset, dtype=np.int64))
            sb = f"C11.section|local_faces|{pk}"
            check(set(np.asarray(fs).tolist()) <= set(subset), sb + "|index_outside_subset", lambda: f"{sorted(set(np.asarray(fs).tolist()) - set(subset))}")
            check_segments(sb, M, o, n, dots, signs, amb, ls, fs, faces=subset)
            full = defaultdict(list)
            for k, f in enumerate(np.asarray(fi).tolist()):
                if f in set(subset):
                    full[f].append(np.sort(lines[k], axis=0))
            part = defaultdict(list)
            for k, f in enumerate(np.asarray(fs).tolist()):
                part[f].append(np.sort(np.asarray(ls)[k], axis=0))
            check(sorted(full) == sorted(part), sb + "|differs_from_full", lambda: f"faces with segments: subset call {sorted(part)} full call restricted {sorted(full)}")
            for f in full:
                a = np.array(sorted(np.asarray(x).reshape(-1).tolist() for x in full[f]))
                b = np.array(sorted(np.asarray(x).reshape(-1).tolist() for x in part[f]))
                # the subset call evaluates the same formulas on shorter arrays (other BLAS blocking): the two results may
                # differ by the float64 conditioning of the crossing points, 64 eps scale / sin(edge, plane), as in clause (2)
                cf = exp[f][1] if f in exp else conv[f][1] if f in conv else np.zeros(2)
                tf_ = 1e-12 * scale + 64 * EPS * scale * float(np.max(cf)) * nlen
                check(a.shape == b.shape and np.abs(a - b).max() <= tf_, sb + "|differs_from_full", lambda: f"face {f}: {b.tolist()} vs {a.tolist()} (tol {tf_:.3g})")

        # Trimesh.section -> Path3D
        path = mesh.section(plane_normal=n.copy(), plane_origin=o.copy())
        sp = f"C11.section|section|{pk}"
        check((path is None) == (len(lines) == 0), sp + "|none_iff_empty", f"{len(lines)} segments but section returned {path}")
        edge_in = ref.edges_in_plane(F, signs)
        if path is not None:
            PV = np.asarray(path.vertices, dtype=np.float64)
            check(PV.ndim == 2 and PV.shape[1] == 3, sp + "|shape", str(PV.shape))
            used = np.unique(np.concatenate([np.asarray(e.points).reshape(-1) for e in path.entities]))
            PVu = PV[used]
            d = np.abs((PVu - o) @ n) / nlen
            check(d.max() <= THR / nlen + 1e-12 * scale, sp + "|off_plane", lambda: f"path vertex {PVu[int(np.argmax(d))].tolist()} is {d.max():.3g} from the plane")
            dm = ref.dist_to_mesh(PVu, V, F)
            check(dm.max() <= 1e-12 * scale, sp + "|off_surface", lambda: f"path vertex {PVu[int(np.argmax(dm))].tolist()} is {dm.max():.3g} from the surface")
            if not amb and not edge_in and endpoints_separated(M, dots, signs):
                L0 = float(np.linalg.norm(lines[:, 1] - lines[:, 0], axis=1).sum())
                L1 = float(sum(np.linalg.norm(np.diff(PV[np.asarray(e.points)], axis=0), axis=1).sum() for e in path.entities))
                check(abs(L0 - L1) <= 1e-9 * L0 + 4e-5 * len(lines), sp + "|length", f"path length {L1} vs total segment length {L0}")
            if closed_precondition(M, dots, signs, amb, nlen=nlen):
                ctx.note(cls="closed_demanded")
                check(bool(path.is_closed), sp + "|not_closed", lambda: f"closed mesh in general position but Path3D.is_closed is False ({len(lines)} segments, {len(path.entities)} entities)")
                deg = Counter()
                for e in path.entities:
                    pts = np.asarray(e.points).tolist()
                    for a, b in zip(pts[:-1], pts[1:]):
                        deg[a] += 1
                        deg[b] += 1
                check(all(v % 2 == 0 for v in deg.values()), sp + "|odd_endpoint", lambda: f"vertex degrees {dict(deg)}")

        # (6) multiplane
        hs_spec = case.get("heights")
        if hs_spec:
            nh = ref.unit(n)
            hs = []
            for h in hs_spec:
                if h["k"] == "vertex":
                    hs.append(float((V[F.reshape(-1)[h["i"] % F.size]] - o) @ nh))
                elif h["k"] == "zero":
                    hs.append(0.0)
                else:
                    lo, hi = float(((V - o) @ nh).min()), float(((V - o) @ nh).max())
                    hs.append(lo + h["u"] * (hi - lo))
            sm = f"C11.section|multiplane|{pk}"
            segs2, T3, fidx = intersections.mesh_multiplane(mesh, plane_origin=o.copy(), plane_normal=n.copy(), heights=np.array(hs))
            check(len(segs2) == len(hs) and len(T3) == len(hs) and len(fidx) == len(hs), sm + "|count", f"{len(segs2)},{len(T3)},{len(fidx)} results for {len(hs)} heights")
            paths = mesh.section_multiplane(plane_origin=o.copy(), plane_normal=n.copy(), heights=np.array(hs))
            check(len(paths) == len(hs), sm + "|path_count", f"{len(paths)} paths for {len(hs)} heights")
            for k, h in enumerate(hs):
                oh = o + h * nh
                dk, sk, ak, _, _ = oracle_signs(M, oh, nh)
                ctx.note(cls=["multiplane:" + hs_spec[k]["k"]] + code_classes(sk[F]))
                T = np.asarray(T3[k], dtype=np.float64)
                R = T[:3, :3]
                check(T.shape == (4, 4) and np.abs(R @ R.T - np.eye(3)).max() <= 1e-9 and abs(np.linalg.det(R) - 1) <= 1e-9 and np.array_equal(T[3], [0, 0, 0, 1]),
                      sm + "|to_3D_not_rigid", lambda: f"{T.tolist()}")
                check(np.abs(R[:, 2] - nh).max() <= 1e-9, sm + "|to_3D_axis", lambda: f"z axis {R[:, 2].tolist()} vs normal {nh.tolist()}")
                check(abs((T[:3, 3] - oh) @ nh) <= 1e-9 * max(scale, abs(h)), sm + "|to_3D_height", lambda: f"frame origin {T[:3, 3].tolist()} is {(T[:3, 3] - oh) @ nh:.3g} off the plane at height {h}")
                s2 = np.asarray(segs2[k], dtype=np.float64).reshape((-1, 2, 2))
                l3 = (np.column_stack((s2.reshape((-1, 2)), np.zeros(2 * len(s2)))) @ R.T + T[:3, 3]).reshape((-1, 2, 3))
                # 2D round trip through the frame; a vertex taken as "on the plane" (|dot| <= 1e-8) is projected onto it
                rt = 64 * EPS * max(scale, abs(h)) * 4 + float(np.abs(dk[sk == 0]).max() if (sk == 0).any() else 0.0)
                if np.abs(np.linalg.inv(T) - np.eye(4)).max() < 1e-8:
                    rt += 4e-8 * (1.0 + scale)  # documented identity shortcut of transform_points (to_2D taken as identity)
                check_segments(sm, M, oh, nh, dk, sk, ak, l3, np.asarray(fidx[k]), extra_tol=rt)
                p2 = paths[k]
                check((p2 is None) == (len(s2) == 0), sm + "|none_iff_empty", f"height {h}: {len(s2)} segments, path {p2}")
                if p2 is not None:
                    check(np.allclose(p2.metadata["to_3D"], T, rtol=0, atol=0), sm + "|metadata_to_3D", "path.metadata['to_3D'] differs from mesh_multiplane transform")
                    P2 = np.asarray(p2.vertices, dtype=np.float64)
                    used = np.unique(np.concatenate([np.asarray(e.points).reshape(-1) for e in p2.entities]))
                    P3 = np.column_stack((P2[used], np.zeros(len(used)))) @ R.T + T[:3, 3]
                    dm = ref.dist_to_mesh(P3, V, F)
                    check(dm.max() <= 1e-12 * scale + rt, sm + "|path_off_surface", lambda: f"height {h}: path vertex {P3[int(np.argmax(dm))].tolist()} is {dm.max():.3g} from the surface")
                    # load_path processes the Path2D: Path.merge_vertices fuses points closer than tol_path.merge * path.scale
                    if closed_precondition(M, dk, sk, ak, min_dist=1e-4 * max(1.0, 4.0 * scale)):
                        check(bool(p2.is_closed), sm + "|not_closed", f"height {h}: closed mesh, general position, Path2D not closed")
                # equals the single section at origin + h n
                if not ak:
                    l1, f1 = intersections.mesh_plane(mesh, plane_normal=nh, plane_origin=oh, return_faces=True)
                    a = sorted((int(f), *np.sort(s, axis=0).reshape(-1).tolist()) for f, s in zip(np.asarray(f1).tolist(), np.asarray(l1)))
                    b = sorted((int(f), *np.sort(s, axis=0).reshape(-1).tolist()) for f, s in zip(np.asarray(fidx[k]).tolist(), l3))
                    same = len(a) == len(b) and [x[0] for x in a] == [x[0] for x in b]
                    check(same, sm + "|differs_from_section", lambda: f"height {h}: faces {[x[0] for x in b]} vs section {[x[0] for x in a]}")


# --------------------------------------------------------------------------------------------- C11.slice


def slice_classes(stats):
    m = {"inside": "slice:inside", "outside": "slice:outside", "coplanar_kept": "slice:coplanar_kept", "coplanar_dropped": "slice:coplanar_dropped",
         "cut_2_in_0_on": "slice:quad", "cut_1_in_0_on": "slice:tri", "cut_1_in_1_on": "slice:tri_vertex_on_plane"}
    return sorted({m.get(k, "slice:" + k) for k in stats})


def check_slice_output(sig, M, planes, out, src_faces, scale, exp_clip, atol_snap):
    """clause (4) for one output mesh against the exact clip"""
    V, F = M["V"], M["F"]
    OV = np.asarray(out.vertices, dtype=np.float64).reshape((-1, 3))
    OF = np.asarray(out.faces, dtype=np.int64).reshape((-1, 3))
    check(len(OF) == 0 or (OF.min() >= 0 and OF.max() < len(OV)), sig + "|face_index_range", "")
    used = OV[np.unique(OF)] if len(OF) else np.zeros((0, 3))
    for o, n in planes:
        nlen = float(np.linalg.norm(n))
        if len(used):
            d = ((used - o) @ n) / nlen
            k = int(np.argmin(d))
            check(d[k] >= -(THR / nlen + 1e-12 * scale), sig + "|negative_side", lambda: f"output vertex {used[k].tolist()} is {d[k]:.3g} on the negative side")
    if len(OF):
        # points within tol.merge of the surface are on it when the plane is within tol.merge of a vertex
        tolc = 1e-11 * scale + (THR if exp_clip is not None and exp_clip.snap_dist > 0 else 0.0)
        ok, worst = ref.triangles_inside_source(OV[OF], V, src_faces, tolc)
        k = int(np.argmax(worst))
        check(ok.all(), sig + "|outside_source", lambda: f"output triangle {OV[OF[k]].tolist()} is not inside any source triangle (corner {worst[k]:.3g} away, tol {tolc:.3g})")
    if exp_clip is None or exp_clip.ambiguous:
        return
    A = ref.area_of(OV, OF)
    Ae = exp_clip.area()
    A0 = ref.area_of(V, src_faces)
    tol = 1e-9 * max(A0, 1e-300) + atol_snap
    check(abs(A - Ae) <= tol, sig + "|area", lambda: f"area {A!r} vs exact positive-side area {Ae!r} (source {A0!r}, tol {tol:.3g})")
    va, ve = ref.vector_area_of(OV, OF), exp_clip.vector_area()
    check(np.abs(va - ve).max() <= tol, sig + "|vector_area", lambda: f"oriented area {va.tolist()} vs exact {ve.tolist()} (winding)")


@body("C11.slice")
def b_slice(case, ctx):
    with np.errstate(all="ignore"):
        M = build_mesh(case["mesh"])
        V, F = M["V"], M["F"]
        mesh = trimesh.Trimesh(V.copy(), F.copy(), process=False)
        specs = case["planes"]
        planes, kinds = [], []
        for p in specs:
            o, n, pk = make_plane(M, p)
            planes.append((o, n))
            kinds.append(pk)
        pk = kinds[0] if len(planes) == 1 else "list%d:" % len(planes) + kinds[-1]
        scale = max(scale_of(M, o) for o, _ in planes)
        o, n = planes[0]
        dots, signs, amb, snapped, exact = oracle_signs(M, o, n)
        sf = signs[F]
        sub = case.get("subset")
        subset = None if sub is None else list(dict.fromkeys(int(i) % len(F) for i in sub))
        src = F if subset is None else F[np.array(subset, dtype=np.int64).reshape(-1)]
        T = V[src]
        both = bool((signs > 0).any() and (signs < 0).any())
        ctx.note(nontrivial=both, cls=[M["label"], "plane:" + pk, "nplanes:%d" % len(planes)] + code_classes(sf))
        cl = []
        base = f"C11.slice|{pk}" + ("|face_index" if subset is not None else "")

        def run(pl, form):
            O = np.array([p[0] for p in pl])
            N = np.array([p[1] for p in pl])
            kw = {} if subset is None else {"face_index": np.array(subset, dtype=np.int64)}
            if len(pl) == 1 and form == "vec":
                return mesh.slice_plane(plane_origin=O[0].copy(), plane_normal=N[0].copy(), cap=False, **kw)
            return mesh.slice_plane(plane_origin=O.copy(), plane_normal=N.copy(), cap=False, **kw)

        def exact_clip(pl):
            c = ref.Clip([t for t in T])
            for (oo, nn) in pl:
                c.cut(oo, nn)
            return c

        form = case.get("form", "vec")
        unresolved = False
        results = {}
        variants = [("+", planes)]
        variants.append(("-", planes[:-1] + [(planes[-1][0], -planes[-1][1])]))
        if len(planes) > 1:
            variants.append(("head", planes[:-1]))
        for name, pl in variants:
            out = run(pl, form)
            check(out is not None and hasattr(out, "faces"), base + "|returns_mesh", f"{type(out)}")
            c = exact_clip(pl)
            atol_snap = c.snap_area
            cl += slice_classes(c.stats)
            if c.ambiguous:
                cl.append("ambiguous")
            if c.snap_area > 1e-11 * scale * scale:
                cl.append("slice:snapped")
            ctx.note(cls=sorted(set(cl)))
            cl = []
            sg = "C11.slice|snapped_vertex" if c.snapped_cut else base + "|side" + name
            if c.gray:
                cl.append("slice:unresolved_skipped")  # a vertex in (tol.merge, 100 tol.merge] of a plane
                unresolved = True
            else:
                check_slice_output(sg, M, pl, out, src, scale, c, atol_snap)
            results[name] = (ref.area_of(out.vertices, out.faces), c, atol_snap)
        # the two opposite slices add up to the (remaining) surface
        A0 = ref.area_of(V, src) if len(planes) == 1 else results["head"][0]
        Ap, Am = results["+"][0], results["-"][0]
        if not results["+"][1].ambiguous and not results["-"][1].ambiguous and not unresolved:
            tol = 1e-9 * max(ref.area_of(V, src), 1e-300) + results["+"][2] + results["-"][2]
            sg = "C11.slice|snapped_vertex" if (results["+"][1].snapped_cut or results["-"][1].snapped_cut) else base
            check(abs(Ap + Am - A0) <= tol, sg + "|area_sum", f"area(+) {Ap!r} + area(-) {Am!r} = {Ap + Am!r} vs {A0!r}")
        ctx.note(cls=sorted(set(cl)))
        check(np.array_equal(mesh.vertices, V) and np.array_equal(mesh.faces, F), base + "|input_modified", "mesh changed by slice_plane")


# --------------------------------------------------------------------------------------------- C11.cap


def exact_side_volume(M, planes):
    """volume of solid ∩ half spaces by the divergence theorem: signed tetrahedra of the clipped surface from a
    point lying in every cutting plane (the caps contribute nothing). -> (volume, Clip) or (None, Clip)"""
    V, F = M["V"], M["F"]
    c = ref.Clip([t for t in V[F]])
    for o, n in planes:
        c.cut(o, n)
    if len(planes) == 1:
        r = planes[0][0]
    else:
        (o1, n1), (o2, n2) = planes
        if np.linalg.norm(np.cross(n1, n2)) < 0.2 * np.linalg.norm(n1) * np.linalg.norm(n2):
            return None, c
        A = np.array([n1, n2])
        b = np.array([n1 @ o1, n2 @ o2])
        r = np.linalg.lstsq(A, b, rcond=None)[0]
    vol = 0.0
    for P in c.polys:
        Q = P - r
        vol += float(np.einsum("ij,ij->i", np.cross(Q[1:-1], Q[2:]), np.broadcast_to(Q[0], Q[1:-1].shape)).sum()) / 6.0
    return vol, c


@body("C11.cap")
def b_cap(case, ctx):
    with np.errstate(all="ignore"):
        M = build_mesh(case["mesh"])
        V, F = M["V"], M["F"]
        if not M["solid"]:
            ctx.note(cls="cap:not_a_solid_skipped")
            return
        engine = case["engine"]
        if engine not in ENGINES:
            ctx.note(cls="cap:engine_unavailable")
            return
        planes, kinds = [], []
        for p in case["planes"]:
            o, n, pk = make_plane(M, p)
            planes.append((o, n))
            kinds.append(pk)
        pk = kinds[0] if len(planes) == 1 else "list%d:" % len(planes) + kinds[-1]
        scale = max(scale_of(M, o) for o, _ in planes)
        dots, signs, amb, snapped, exact = oracle_signs(M, *planes[0])
        sf = signs[F]
        v0 = ref.volume_of(V, F)
        A0 = ref.area_of(V, F)
        mesh = trimesh.Trimesh(V.copy(), F.copy(), process=False)
        shape = "convex" if M["convex"] else ("multibody" if M["ncomp"] > 1 else "nonconvex")
        base = f"C11.cap|{engine}|{shape}|{pk}"
        if case["mesh"].get("shells") is not None:
            ctx.note(cls="nest:shells%d:%s" % (len(case["mesh"]["shells"]["factors"]), engine))
        if M["cells"] is not None:
            ci = M["cells"]
            ctx.note(cls=["cells:depth%d:%s" % (min(ci["depth"], 5), engine), "cells:holes" if ci["holes"] else "cells:no_hole"] + [f"cells:{k}:{engine}" for k in ("hole_nonconvex", "hole_centroid_in_material", "outline_nonconvex") if ci[k]])
        ctx.note(nontrivial=bool((signs > 0).any() and (signs < 0).any()),
                 cls=[M["label"], "cap:" + engine, "cap:" + shape, "capplane:" + pk, "nplanes:%d" % len(planes)] + code_classes(sf))
        cl = []
        vols = {}
        any_cut = False
        variants = [("+", planes), ("-", planes[:-1] + [(planes[-1][0], -planes[-1][1])])]
        if len(planes) > 1:
            variants.insert(0, ("head", planes[:-1]))
        ambiguous = False
        unresolved_any = False
        causes = set()
        Mhead = None
        for name, pl in variants:
            O = np.array([p[0] for p in pl])
            N = np.array([p[1] for p in pl])
            # narrow root-cause classes decided from the input (and, for plane lists, from the intermediate solid)
            ve, c = exact_side_volume(M, pl)
            cause = None
            pin = ref.cap_boundary_pinched(ref.Clip([t for t in V[F]]).cut(*pl[0]).polys, pl[0][0], pl[0][1], scale)
            cH = None
            if len(pl) > 1 and Mhead is not None:
                cH = ref.Clip([t for t in Mhead["V"][Mhead["F"]]]).cut(*pl[-1])
                pin = pin or ref.cap_boundary_pinched(cH.polys, pl[-1][0], pl[-1][1], scale)
            if pin:
                cause = "pinched_section"
            elif c.snapped_cut or (cH is not None and cH.snapped_cut):
                cause = "snapped_vertex"
            elif len(pl) > 1 and Mhead is not None and Mhead["zero_area"]:
                cause = "multiplane_zero_area_cap_face|" + engine
            else:
                # a crossing point within its float64 uncertainty of a rounding boundary of the absolute 1e-8 grid of
                # grouping.unique_rows: the copies computed by the adjacent faces may not be fused (finding, own bucket)
                safe = merge_grid_safe(M, *oracle_signs(M, *pl[0])[:2], nlen=float(np.linalg.norm(pl[0][1])))
                if len(pl) > 1 and Mhead is not None:
                    safe = safe and merge_grid_safe(Mhead, *oracle_signs(Mhead, *pl[-1])[:2], nlen=float(np.linalg.norm(pl[-1][1])))
                if not safe:
                    cause = f"merge_grid_boundary|{engine}|{shape}"
            if cause:
                causes.add(cause)
                cl.append("cap:" + cause.split("|")[0])
            sig = (f"C11.cap|{cause}" if cause else base) + "|side" + name
            ctx.note(cls=sorted(set(cl)))
            cl = []
            res = endpoints_resolved(M, *oracle_signs(M, *pl[0])[:2], nlen=float(np.linalg.norm(pl[0][1])))
            if len(pl) > 1 and Mhead is not None:
                res = res and endpoints_resolved(Mhead, *oracle_signs(Mhead, *pl[-1])[:2], nlen=float(np.linalg.norm(pl[-1][1])))
            res = res and not c.gray and not (cH is not None and cH.gray)
            if not res:
                cl.append("cap:unresolved_skipped")
            try:
                if len(pl) == 1:
                    out = mesh.slice_plane(plane_origin=O[0].copy(), plane_normal=N[0].copy(), cap=True, engine=engine)
                else:
                    out = mesh.slice_plane(plane_origin=O.copy(), plane_normal=N.copy(), cap=True, engine=engine)
            except Exception as e:  # raised by the library call: same root-cause classes as a wrong result
                from ..core import trimesh_frame
                fr = trimesh_frame(e)
                if not res:
                    # below the documented resolution (features under 100 tol.merge): like every other clause
                    unresolved_any = True
                    continue
                raise Violation(sig + f"|exc|{type(e).__name__}|{fr[0] + ':' + fr[1] if fr else '?'}", f"slice_plane(cap=True, engine={engine}) raised {type(e).__name__}: {e}")
            OV = np.asarray(out.vertices, dtype=np.float64).reshape((-1, 3))
            OF = np.asarray(out.faces, dtype=np.int64).reshape((-1, 3))
            OT = OV[OF]
            fa = 0.5 * np.linalg.norm(np.cross(OT[:, 1] - OT[:, 0], OT[:, 2] - OT[:, 0]), axis=1) if len(OF) else np.zeros(0)
            if name == "head":
                Mhead = {"V": OV, "F": OF, "lattice": False, "zero_area": bool(len(fa) and fa.min() <= 1e-9 * scale * scale)}
            vol = ref.volume_of(OV, OF) if len(OF) else 0.0
            ambiguous = ambiguous or c.ambiguous
            # capping merges vertices closer than tol.merge (documented): the surface moves by <= THR;
            # a snapped vertex moves the surface by its distance from the plane
            atol = 1e-8 * v0 + THR * A0 + c.snap_area * scale + c.snap_dist * A0
            vols[name] = (vol, atol)
            if len(OF):
                used = OV[np.unique(OF)]
                for (oo, nn) in pl:
                    d = ((used - oo) @ nn) / np.linalg.norm(nn)
                    check(d.min() >= -(THR / np.linalg.norm(nn) + 2e-8 + 1e-12 * scale), sig + "|negative_side", lambda: f"vertex {used[int(np.argmin(d))].tolist()} is {d.min():.3g} on the negative side")
            unresolved_any = unresolved_any or not res
            if ve is not None and not c.ambiguous and res:
                check(abs(vol - ve) <= atol, sig + "|volume", lambda: f"capped volume {vol!r} vs exact volume of solid ∩ half space {ve!r} (solid {v0!r}, tol {atol:.3g}); {len(OF)} faces")
                cut = ve > 1e-6 * v0 and ve < (1 - 1e-6) * v0
                any_cut = any_cut or cut
                if len(pl) == 1 and len(OF):
                    # the cap is exactly the section region: by the divergence theorem the closed half has zero total
                    # vector area, so the cap (planar, facing -n) has area A = n . (vector area of the clipped surface);
                    # vol(+) + vol(-) cannot see a cap that is missing on both halves, these clauses can
                    nh = ref.unit(pl[0][1])
                    a_cap = max(float(c.vector_area() @ nh), 0.0)
                    tol_a = 1e-8 * A0 + c.snap_area + (THR + c.snap_dist) * math.sqrt(A0) * 8
                    flux = ref.vector_area_of(OV, OF)
                    check(np.abs(flux).max() <= tol_a, sig + "|half_not_closed", lambda: f"total vector area of the capped half is {flux.tolist()} (a closed consistently wound surface has 0): cap missing, surplus or wound the wrong way; exact section area {a_cap:.9g}")
                    a_out = ref.area_of(OV, OF)
                    check(abs(a_out - (c.area() + a_cap)) <= tol_a, sig + "|cap_area", lambda: f"area of the capped half {a_out!r} vs clipped surface {c.area()!r} + exact section area {a_cap!r}")
                    d_on = np.abs((OV - pl[0][0]) @ nh)
                    capf = np.nonzero((d_on[OF] <= THR / float(np.linalg.norm(pl[0][1])) + 2e-8 + 1e-12 * scale).all(axis=1) & (fa > 1e-9 * scale * scale))[0]
                    if len(capf):
                        cen = OV[OF[capf]].mean(axis=1)
                        interior = ref.dist_to_mesh(cen, V, F) > 1e-7 * scale  # not a kept coplanar face of the source
                        if interior.any():
                            cl.append("cap:location_checked")
                            wn = ref.winding_number(cen[interior], V, F)
                            k = int(np.argmax(np.abs(wn - 1.0)))
                            check(abs(wn[k] - 1.0) <= 1e-3, sig + "|cap_outside_solid", lambda: f"cap triangle {OV[OF[capf[np.nonzero(interior)[0][k]]]].tolist()} has its centroid where the winding number of the solid is {wn[k]:.4f} (1 = inside the material)")
                if M["cells"] is not None and ve > 1e-6 * v0 and engine != "earcut":
                    # constructed solids without T-junctions: triangle / manifold keep every boundary vertex, so each
                    # half must be watertight and consistently wound (earcut may merge collinear boundary points)
                    cl.append("cap:cells_half_checked")
                    if fa.min() > 1e-9 * scale * scale:
                        be = ref.edge_imbalance(OF)
                        check(not be, sig + "|not_closed_oriented", lambda: f"half of an extruded polyomino: {len(be)} edges are not used equally often in both directions (open edge, T-junction or flipped face), e.g. {list(be.items())[:4]}")
                    else:
                        be = {e: k for e, k in ref.boundary_edges(OF).items() if k % 2}
                        check(not be, sig + "|not_watertight", lambda: f"half of an extruded polyomino has {len(be)} edges used an odd number of times, e.g. {list(be.items())[:4]}")
                if M["convex"] and ve > 1e-6 * v0:
                    cl.append("cap:convex_half_checked")
                    be = ref.boundary_edges(OF)
                    check(not be, sig + "|not_watertight", lambda: f"half of a convex solid (volume {ve:.6g} of {v0:.6g}) has {len(be)} edges not shared by exactly two faces, e.g. {list(be.items())[:4]}")
                    check(bool(out.is_watertight), sig + "|is_watertight", f"is_watertight={out.is_watertight}")
                    # the orientation of a zero-area cap triangle (collinear cap vertices) carries no geometric meaning:
                    # consistent winding / is_volume is demanded when the half has no such face
                    if fa.min() > 1e-9 * scale * scale:
                        check(ref.closed_oriented(OF) and bool(out.is_volume), sig + "|is_volume", f"closed_oriented={ref.closed_oriented(OF)} is_volume={out.is_volume}")
                    else:
                        cl.append("cap:half_with_zero_area_face")
        if not ambiguous and not unresolved_any and all(k in vols for k in ("+", "-")) and (len(planes) == 1 or "head" in vols):
            whole = v0 if len(planes) == 1 else vols["head"][0]
            tol = vols["+"][1] + vols["-"][1]
            sg = f"C11.cap|{sorted(causes)[0]}" if causes else base
            check(abs(vols["+"][0] + vols["-"][0] - whole) <= tol, sg + "|volume_sum", f"vol(+) {vols['+'][0]!r} + vol(-) {vols['-'][0]!r} vs {whole!r}")
        else:
            cl.append("ambiguous")
        ctx.note(cls=sorted(set(cl)))


# --------------------------------------------------------------------------------------------- strategies

SMALL = ("tetra", "box", "octa")


@st.composite
def mesh_case(draw, solid_only=False, max_faces=120):
    lattice = draw(st.booleans())
    kinds = ["tetra", "box", "octa", "icos", "prism", "prism", "torus", "uvsphere"]
    spec = draw(gmesh.mesh_spec(kinds=kinds, max_parts=2, jitter=True, lattice=False, max_faces=max_faces))
    for p in spec["parts"]:
        if p["kind"] == "icos":
            p["sub"] = min(p.get("sub", 0), 1)
    ms = {"spec": spec}
    pk = [p["kind"] for p in spec["parts"]]
    if lattice:
        if all(k in SMALL for k in pk):
            L = draw(st.sampled_from([1, 2, 4, 10]))
            for p in spec["parts"]:
                if p["kind"] == "box":
                    p["ext"] = [2 * draw(st.integers(1, 3)) for _ in range(3)]
                p["scale"] = draw(st.sampled_from([1.0, 2.0, 3.0])) if L <= 2 else p.get("scale", 1.0)
            if L < 10:
                spec.pop("jamp", None)
                spec.pop("jseed", None)
        elif all(k in SMALL + ("icos", "uvsphere") for k in pk):
            L = draw(st.sampled_from([10, 100]))
        else:
            L = 100
        spec["lattice"] = L
        for i, p in enumerate(spec["parts"]):
            p["offset"] = [float(12 * i), 0.0, 0.0]
    else:
        if draw(st.booleans()):
            spec["lattice"] = draw(st.sampled_from([10, 100]))
        spec["place"] = draw(gmat.matrix(classes=["rotation", "rigid", "rigid", "identity"], tscale=draw(st.sampled_from([0.0, 1.0, 10.0]))))["M"]
        s = draw(st.sampled_from([1.0, 1.0, 0.01, 100.0]))
        if spec.get("lattice"):
            s = s / spec["lattice"] if draw(st.booleans()) else s
        if s != 1.0:
            ms["scale"] = s
    if not solid_only and draw(st.integers(0, 3)) == 0:
        ms["drop"] = draw(st.lists(st.integers(0, 400), min_size=1, max_size=4))
    return ms


@st.composite
def plane_spec(draw, lattice_hint=True, near_ok=True, kinds=None):
    kind = draw(st.sampled_from(kinds or ["general", "vertex", "vertex", "edge", "edge", "face", "three", "mid", "mid", "axis"]))
    p = {"kind": kind, "i": [draw(st.integers(0, 2000)) for _ in range(3)]}
    w = [draw(st.integers(-3, 3)) for _ in range(3)]
    if draw(st.integers(0, 2)) == 0:
        w = [0, 0, 0]
        w[draw(st.integers(0, 2))] = draw(st.sampled_from([1, -1]))
    p["w"] = w
    if kind in ("general", "axis"):
        p["u"] = [draw(_f(0, 1)) for _ in range(3)]
    if kind == "general" or (kind == "vertex" and draw(st.booleans())):
        p["nv"] = [draw(_f(-1, 1)) for _ in range(3)]
        p["nfloat"] = True
    if kind == "mid":
        p["nm"] = draw(st.integers(1, 3))
    p["form"] = draw(st.sampled_from(["int", "int", "unit", "scaled"]))
    if p["form"] == "scaled":
        p["s"] = draw(st.sampled_from([0.5, 2.0, 3.0, 10.0]))
    p["flip"] = draw(st.booleans())
    if near_ok and kind != "general" and draw(st.integers(0, 5)) == 0:
        p["near"] = {
            "delta": draw(st.sampled_from([0.0, 1e-10, 1e-9, 3e-9, 2e-8, 1e-7, 1e-6])) * draw(st.sampled_from([1.0, -1.0])),
            "eps": draw(st.sampled_from([0.0, 0.0, 1e-9, 1e-8, 1e-7, 1e-6])),
            "r": [draw(_f(-1, 1)) for _ in range(3)],
        }
    return p


@st.composite
def section_case(draw):
    c = {"mesh": draw(mesh_case()), "plane": draw(plane_spec())}
    if draw(st.booleans()):
        c["subset"] = draw(st.lists(st.integers(0, 400), min_size=0, max_size=30))
    if draw(st.integers(0, 2)) == 0:
        c["heights"] = draw(st.lists(st.one_of(
            st.fixed_dictionaries({"k": st.just("vertex"), "i": st.integers(0, 2000)}),
            st.fixed_dictionaries({"k": st.just("random"), "u": _f(-0.1, 1.1)}),
            st.fixed_dictionaries({"k": st.just("zero")}),
        ), min_size=1, max_size=3))
    return c


@st.composite
def slice_case(draw):
    k = draw(st.sampled_from([1, 1, 1, 2, 3]))
    c = {"mesh": draw(mesh_case()), "planes": [draw(plane_spec()) for _ in range(k)], "form": draw(st.sampled_from(["vec", "list"]))}
    if k == 1 and draw(st.integers(0, 3)) == 0:
        c["subset"] = draw(st.lists(st.integers(0, 400), min_size=1, max_size=30))
    return c


@st.composite
def cap_case(draw):
    k = draw(st.sampled_from([1, 1, 1, 2]))
    return {"mesh": draw(mesh_case(solid_only=True)), "planes": [draw(plane_spec()) for _ in range(k)], "engine": draw(st.sampled_from(ENGINES or ["earcut"]))}


@st.composite
def cells_cap_case(draw):
    ms = {"cells": draw(gcells.cells_spec())}
    if draw(st.integers(0, 2)) == 0:
        ms["place"] = draw(gmat.matrix(classes=["rotation", "rigid"], tscale=draw(st.sampled_from([0.0, 10.0]))))["M"]
        if draw(st.booleans()):
            ms["scale"] = draw(st.sampled_from([0.01, 0.1, 10.0]))
    # mostly planes that cut through the holes: horizontal between bottom and top, oblique general ones, some exact ones
    p = draw(plane_spec(near_ok=False, kinds=["axis", "axis", "axis", "general", "general", "mid", "vertex", "edge", "three"]))
    if p["kind"] == "axis" and draw(st.integers(0, 3)) != 0:
        p["w"] = [0, 0, draw(st.sampled_from([1, -1]))]
        p["u"][2] = draw(st.sampled_from([0.25, 0.5, 0.5, 0.75]))
    planes = [p]
    if draw(st.integers(0, 7)) == 0:
        planes.append(draw(plane_spec(near_ok=False, kinds=["general", "axis", "mid"])))
    return {"mesh": ms, "planes": planes, "engine": draw(st.sampled_from(ENGINES or ["earcut"]))}


@st.composite
def nested_cap_case(draw):
    """solids whose sections are nested three and four deep: islands (with holes) inside through-holes, bodies (with
    cavities) floating in cavities"""
    if draw(st.booleans()):
        ms = {"cells": draw(gcells.cells_spec(families=["nested"]))}
        kinds = ["axis", "axis", "axis", "general", "general", "mid", "vertex", "three"]
    else:
        kind = draw(st.sampled_from(["box", "box", "octa", "icos", "uvsphere", "prism"]))
        part = {"kind": kind}
        if kind == "box":
            part["ext"] = [draw(st.sampled_from([2.0, 3.0, 4.0])) for _ in range(3)]
        elif kind == "icos":
            part["sub"] = 0
        elif kind == "uvsphere":
            part["nu"], part["nv"] = draw(st.integers(3, 6)), draw(st.integers(2, 4))
        elif kind == "prism":
            part["radii"] = [draw(_f(0.7, 1.5)) for _ in range(draw(st.integers(3, 6)))]
            part["height"] = draw(_f(1.0, 3.0))
        k = draw(st.sampled_from([2, 3, 3, 4]))
        factors = [1.0, 0.7, 0.45, 0.2][:k]
        ms = {"shells": {"part": part, "factors": factors}}
        if draw(st.booleans()):
            ms["shells"]["lattice"] = 100
        kinds = ["general", "general", "general", "vertex", "vertex", "three", "axis", "mid", "edge"]
    if draw(st.integers(0, 2)) == 0:
        ms["place"] = draw(gmat.matrix(classes=["rotation", "rigid"], tscale=draw(st.sampled_from([0.0, 10.0]))))["M"]
        if draw(st.booleans()):
            ms["scale"] = draw(st.sampled_from([0.1, 10.0]))
    p = draw(plane_spec(near_ok=False, kinds=kinds))
    if "cells" in ms and p["kind"] == "axis" and draw(st.integers(0, 3)) != 0:
        p["w"] = [0, 0, draw(st.sampled_from([1, -1]))]
        p["u"][2] = draw(st.sampled_from([0.25, 0.5, 0.5, 0.75]))
    return {"mesh": ms, "planes": [p], "engine": draw(st.sampled_from(ENGINES or ["earcut"]))}


# --------------------------------------------------------------------------------------------- sub-checks


@subcheck("C11", "section", shards={"quick": 6, "thorough": 16})
def s_section(ctx):
    ctx.given("C11.section", section_case(), n={"quick": 2400, "thorough": 60000})


@subcheck("C11", "slice", shards={"quick": 5, "thorough": 16})
def s_slice(ctx):
    ctx.given("C11.slice", slice_case(), n={"quick": 1600, "thorough": 40000})


@subcheck("C11", "cap", shards={"quick": 5, "thorough": 16})
def s_cap(ctx):
    ctx.given("C11.cap", cap_case(), n={"quick": 1500, "thorough": 30000})


@subcheck("C11", "cap_holes", shards={"quick": 4, "thorough": 12})
def s_cap_holes(ctx):
    ctx.given("C11.cap", cells_cap_case(), n={"quick": 1000, "thorough": 20000})


@subcheck("C11", "cap_nested", shards={"quick": 4, "thorough": 12})
def s_cap_nested(ctx):
    ctx.given("C11.cap", nested_cap_case(), n={"quick": 800, "thorough": 16000})


REQUIRED_CLASSES["C11"] = [f"code:{c}" for c in (0, 2, 4, 6, 8, 12, 14, 16, 20, 28)] + [
    "slice:inside", "slice:outside", "slice:quad", "slice:tri", "slice:tri_vertex_on_plane", "slice:coplanar_kept", "slice:coplanar_dropped",
    "signs:exact", "signs:tol", "closed_demanded", "cap:convex_half_checked", "subset:some", "multiplane:vertex", "nplanes:2",
] + ["sp:" + a + b + c for a in "-0+" for b in "-0+" for c in "-0+"] + ["cap:" + e for e in ENGINES] + [
    "cap:cells_half_checked", "cap:location_checked", "cells:holes"] + [f"cells:depth{d}:{e}" for d in (3, 4) for e in ENGINES] + [
    f"nest:shells{k}:{e}" for k in (3, 4) for e in ENGINES] + [f"cells:{k}:{e}" for k in ("hole_nonconvex", "hole_centroid_in_material", "outline_nonconvex") for e in ENGINES]
