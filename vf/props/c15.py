"""C15 — created shapes and primitives are valid solids with analytic measures
(trimesh/creation.py, primitives.py, inertia.py)."""

import math

import numpy as np
from hypothesis import strategies as st

import trimesh
from trimesh import creation, primitives

from ..core import ASSUMPTIONS, REQUIRED_CLASSES, RULES, Violation, body, check, subcheck
from ..gen import c15_cases as G
from ..oracle import c15_solids as O

RULES["C15"] = (
    "creation.{box, icosphere, uv_sphere, cylinder, cone, capsule, annulus, torus, revolve(full / angle<2pi with cap), "
    "extrude_polygon, extrude_triangulation, triangulate_polygon (earcut, manifold, triangle), sweep_polygon (straight, "
    "planar ring/arc, helix, tilted and vertical arcs; polygons with holes; roll angles)} and primitives.{Box, Sphere, "
    "Cylinder, Capsule, Extrusion} with lengths log-uniform in [1e-2,1e3] (raised where a triangle would fall under 100x "
    "the documented 1e-8 area cull), section counts from the minimum (3; 1 for partial turns) upward, odd/even/default, "
    "star polygons with 0-3 holes and +-height, placement none/identity/translation/rigid/mirrored (rotation x Householder, "
    "axis flip) with translation 0/1/10 x size, segment= forms. Oracle: closed orientable surface (own directed-edge count) + "
    "is_watertight, is_winding_consistent, volume>0, euler number, body_count; closed-form volume/area/centre of mass/inertia "
    "and vertex set of the straight-section revolution of the profile polygon, of the prism over the polygon, of the box "
    "(rtol 1e-9 + conditioning); curved shapes on the smooth surface, below the smooth volume and above a rigorous 1/n^2 bound; "
    "primitive analytic overrides; stateful: sequences of parameter edits / apply_transform (similarities, and reflections with or "
    "without uniform scale: clean ValueError with the primitive unchanged, or the mirror image with positive parameters) on a primitive, after each of which "
    "mesh and measures equal those of a fresh primitive built from the reported parameters, and the reported parameters equal a "
    "model of the edits. Non-trivial: non-default parameters with a non-identity placement (creation / primitive), or >=2 edits "
    "with a read in between (stateful)."
)
ASSUMPTIONS["C15"] = [
    "trimesh's own volume/area/center_mass/moment_inertia/is_watertight/euler_number/body_count are the observation points (their exactness is C03/C05)",
    "resolution mapping taken from the implementation: uv_sphere(count=[a,b]) -> a+a%2 latitude points, 2(b+b%2) sections; capsule(count=[a,b]) -> a+a%2 profile points (two hemispheres), b sections; Capsule(sections=s) -> count=[s,s]; defaults 32/64, cylinder-like default 32 sections",
    "placement along the axis taken from the implementation: cone base at z=0, capsule and cylinder centred",
    "sweep_polygon: no closed form is promised; slices must be congruent copies of the profile in the bisector planes; the volume band "
    "[1-(phi^2+alpha^2+(rho kappa)^2), 1+(rho kappa)^2] x A L is only demanded for paths whose tangent stays >= 40 deg away from +-Z "
    "(the spherical-coordinate frame twists the profile near the poles; accepted by the in-tree tests)",
    "lengths below the documented resolution (triangles under the absolute 1e-8 area cull) are outside the domain",
]

EPS = np.finfo(np.float64).eps


# ------------------------------------------------------------------------------------------- shared checks


def own_closed_oriented(faces, nv):
    """every directed edge occurs exactly once and its reverse occurs exactly once"""
    F = np.asarray(faces, dtype=np.int64)
    e = np.vstack((F[:, [0, 1]], F[:, [1, 2]], F[:, [2, 0]]))
    if (e[:, 0] == e[:, 1]).any():
        return False
    key = e[:, 0] * (nv + 1) + e[:, 1]
    rev = e[:, 1] * (nv + 1) + e[:, 0]
    if len(np.unique(key)) != len(key):
        return False
    return bool(np.array_equal(np.sort(key), np.sort(rev)))


def check_valid(m, sig, euler, bodies=1):
    F = np.asarray(m.faces)
    check(len(F) > 0, sig + "|no_faces", "mesh has no faces")
    check(own_closed_oriented(F, len(m.vertices)), sig + "|not_closed_oriented", "some directed edge is unmatched: open seam or flipped face")
    check(bool(m.is_watertight), sig + "|not_watertight", "is_watertight False")
    check(bool(m.is_winding_consistent), sig + "|winding", "is_winding_consistent False")
    v = float(m.volume)
    check(v > 0, sig + "|volume_sign", f"volume {v}")
    check(int(m.euler_number) == euler, sig + "|euler", f"euler number {m.euler_number}, expected {euler}")
    check(int(m.body_count) == bodies, sig + "|body_count", f"body_count {m.body_count}, expected {bodies}")
    ref = np.unique(F)
    check(len(ref) == len(m.vertices), sig + "|unreferenced_vertices", f"{len(m.vertices) - len(ref)} unreferenced vertices")


def measure_tols(verts, nf, V):
    verts = np.asarray(verts, dtype=np.float64)
    h = float(np.ptp(verts, axis=0).max())
    D = max(float(np.abs(verts).max()), h)
    e0 = 256 * EPS * max(nf, 1) * h * h
    return {"h": h, "D": D, "vol": 1e-9 * V + e0 * D, "com": 1e-9 * h + e0 * D * D / V, "inertia": e0 * D**3 * 4}


def check_measures(m, ref, sig, what):
    """volume / area / centre of mass / inertia of mesh m against the closed-form description ref"""
    t = measure_tols(ref["vertices"], len(m.faces), ref["volume"])
    v = float(m.volume)
    check(abs(v - ref["volume"]) <= t["vol"], sig + "|volume", f"{what}: volume {v!r} vs closed form {ref['volume']!r}")
    a = float(m.area)
    check(abs(a - ref["area"]) <= 1e-9 * ref["area"], sig + "|area", f"{what}: area {a!r} vs closed form {ref['area']!r}")
    cm = np.asarray(m.center_mass, dtype=np.float64)
    check(np.abs(cm - ref["com"]).max() <= t["com"], sig + "|center_mass", f"{what}: {cm.tolist()} vs {np.asarray(ref['com']).tolist()}")
    I = np.asarray(m.moment_inertia, dtype=np.float64)
    tolI = 1e-9 * np.abs(ref["inertia"]).max() + t["inertia"]
    check(np.abs(I - ref["inertia"]).max() <= tolI, sig + "|inertia", f"{what}: {I.tolist()} vs {np.asarray(ref['inertia']).tolist()}")


def collinear_mask(rings):
    """True for ring vertices that lie on the straight line through their neighbours (sine of the turn <= 1e-9):
    a triangulator may legitimately drop them (earcut does)"""
    out = []
    for r in rings:
        a, b, c = np.roll(r, 1, axis=0), r, np.roll(r, -1, axis=0)
        u, v = b - a, c - b
        cr = np.abs(u[:, 0] * v[:, 1] - u[:, 1] * v[:, 0])
        out.append(cr <= 1e-9 * np.linalg.norm(u, axis=1) * np.linalg.norm(v, axis=1))
    return np.concatenate(out)


def check_vertices_bounds(m, ref, sig, what, optional=None):
    want = np.asarray(ref["vertices"], dtype=np.float64)
    tol = 1e-9 * (1.0 + np.abs(want).max())
    if optional is not None and optional.any():
        from scipy.spatial import cKDTree

        got = np.asarray(m.vertices, dtype=np.float64)
        d, _ = cKDTree(want).query(got)
        check(d.max() <= tol, sig + "|vertex_set", f"{what}: a mesh vertex is {d.max():.3g} from every expected vertex")
        d, _ = cKDTree(got).query(want[~optional])
        check(d.max() <= tol and len(want) - optional.sum() <= len(got) <= len(want), sig + "|vertex_set", f"{what}: an expected (non-collinear) vertex is missing")
    else:
        ok, msg = O.match_point_sets(m.vertices, want, tol)
        check(ok, sig + "|vertex_set", f"{what}: {msg}")
    b = np.asarray(m.bounds, dtype=np.float64)
    wb = np.array([want.min(axis=0), want.max(axis=0)])
    check(np.abs(b - wb).max() <= tol, sig + "|bounds", f"{what}: bounds {b.tolist()} vs {wb.tolist()}")


def true_normals(m):
    t = np.asarray(m.vertices)[np.asarray(m.faces)]
    n = np.cross(t[:, 1] - t[:, 0], t[:, 2] - t[:, 0])
    return n / np.linalg.norm(n, axis=1)[:, None]


def normal_tol(M):
    """Trimesh.apply_transform documents that cached normals are not transported when the linear part of the
    matrix is within 1e-6 of the identity (has_rotation shortcut): allow that rotation, as C04 does"""
    return 4e-6 if np.abs(np.asarray(M, dtype=np.float64)[:3, :3] - np.eye(3)).max() <= 1e-6 else 1e-9


def normals_deviation(stored, m):
    """largest difference between stored face normals and the triangle normals, over the faces that have a normal:
    a triangle whose corners are collinear to 1e-9 (earcut emits one when vertices of different rings are collinear)
    has none, and trimesh documents a zero vector for it"""
    t = np.asarray(m.vertices)[np.asarray(m.faces)]
    e = np.stack((t[:, 1] - t[:, 0], t[:, 2] - t[:, 1], t[:, 0] - t[:, 2]), axis=1)
    n = np.cross(e[:, 0], -e[:, 2])
    nn = np.linalg.norm(n, axis=1)
    ok = nn > 1e-9 * (np.linalg.norm(e, axis=2).max(axis=1) ** 2)
    if not ok.any():
        return 0.0
    return float(np.abs(np.asarray(stored)[ok] - n[ok] / nn[ok][:, None]).max())


def norm_place(place):
    """placements within the documented 1e-8 identity shortcut of transform_points / apply_transform are C04's
    domain: here they are replaced by the exact identity before anything is called"""
    if place.get("M") is not None and np.abs(np.array(place["M"], dtype=np.float64) - np.eye(4)).max() < 1e-8:
        place = dict(place)
        place["M"] = np.eye(4).tolist()
    return place


def place_cls(place):
    c = place["cls"]
    return "mirrored" if c.startswith("mirror") else c


def sec_cls(k, default):
    if default:
        return "default"
    return "min" if k <= 3 else ("odd" if k % 2 else "even")


# ------------------------------------------------------------------------------------------- revolution family


def call_revolve(fn, p, T, segment=None, factor=1):
    """call the creation function; factor doubles the resolution for the monotonicity clause"""
    kw = {}
    if T is not None:
        kw["transform"] = np.array(T, dtype=np.float64)

    def mul(s, d):
        return s if factor == 1 else (s if s is not None else d) * factor

    if fn == "cylinder":
        if segment is not None:
            return creation.cylinder(radius=p["radius"], sections=mul(p["sections"], 32), segment=np.array(segment))
        return creation.cylinder(radius=p["radius"], height=p["height"], sections=mul(p["sections"], 32), **kw)
    if fn == "cone":
        return creation.cone(radius=p["radius"], height=p["height"], sections=mul(p["sections"], 32), **kw)
    if fn == "annulus":
        if segment is not None:
            return creation.annulus(r_min=p["r_min"], r_max=p["r_max"], sections=mul(p["sections"], 32), segment=np.array(segment))
        return creation.annulus(r_min=p["r_min"], r_max=p["r_max"], height=p["height"], sections=mul(p["sections"], 32), **kw)
    if fn == "uv_sphere":
        c = p["count"]
        if factor != 1:
            c = [32, 32] if c is None else c
            c = [(c[0] + c[0] % 2) * 2 - 1, (c[1] + c[1] % 2) * 2]  # doubles latitude segments and sections
        return creation.uv_sphere(radius=p["radius"], count=c, **kw)
    if fn == "capsule":
        c = p["count"]
        if factor != 1:
            c = [32, 64] if c is None else c
            c = [(c[0] + c[0] % 2) * 2, c[1] * 2]
        return creation.capsule(height=p["height"], radius=p["radius"], count=c, **kw)
    if fn == "torus":
        return creation.torus(p["major_radius"], p["minor_radius"], major_sections=p["major_sections"] * factor, minor_sections=p["minor_sections"] * factor, **kw)
    if fn == "revolve":
        ring = np.array(p["ring"], dtype=np.float64)
        ls = ring if (p["form"] == "axis" and p["angle"] is None) else np.vstack((ring, ring[:1]))
        if p["form"] == "axis" and p["angle"] is not None and not p.get("close_axis", True):
            ls = ring
        return creation.revolve(ls, angle=p["angle"], cap=p["angle"] is not None, sections=p["sections"], **kw)
    raise ValueError(fn)


def smooth_clauses(fn, p, m, Minv, sig, prof, k):
    """curved shapes: vertices on the smooth surface, volume below the smooth value and above a rigorous 1/n^2 bound"""
    V = float(m.volume)
    loc = np.asarray(m.vertices) @ Minv[:3, :3].T + Minv[:3, 3]
    d = 2 * math.pi / k
    fk = k * math.sin(d) / (2 * math.pi)  # regular k-gon / disc  (>= 1 - d^2/6)
    if fn == "uv_sphere":
        R = p["radius"]
        dev = np.abs(np.linalg.norm(loc, axis=1) - R).max()
        check(dev <= 1e-9 * R, sig + "|off_surface", f"a vertex is {dev:.3g} off the sphere of radius {R}")
        Vs = O.smooth_sphere(R)["volume"]
        D = math.pi / (len(prof) - 1)
        lower = Vs * math.cos(D / 2) ** 3 * fk  # the revolved inscribed polygon contains the ball of radius R cos(D/2)
        check(float(m.area) <= O.smooth_sphere(R)["area"] * (1 + 1e-12), sig + "|area_above_smooth", f"{m.area} > {O.smooth_sphere(R)['area']}")
    elif fn == "capsule":
        R, h = p["radius"], p["height"]
        zc = np.clip(loc[:, 2], -h / 2, h / 2)
        dist = np.sqrt(loc[:, 0] ** 2 + loc[:, 1] ** 2 + (loc[:, 2] - zc) ** 2)
        dev = np.abs(dist - R).max()
        check(dev <= 1e-9 * max(R, h), sig + "|off_surface", f"a vertex is {dev:.3g} off the capsule surface")
        Vs = O.smooth_capsule(R, h)["volume"]
        D = math.pi / (len(prof) - 1)
        lower = Vs * math.cos(D / 2) ** 3 * fk  # contains the capsule of radius R cos(D/2) (same segment), whose volume ratio is >= cos^3
        check(float(m.area) <= O.smooth_capsule(R, h)["area"] * (1 + 1e-12), sig + "|area_above_smooth", "")
    elif fn == "torus":
        R, r = p["major_radius"], p["minor_radius"]
        dist = np.sqrt((np.sqrt(loc[:, 0] ** 2 + loc[:, 1] ** 2) - R) ** 2 + loc[:, 2] ** 2)
        dev = np.abs(dist - r).max()
        check(dev <= 1e-9 * R, sig + "|off_surface", f"a vertex is {dev:.3g} off the torus surface")
        Vs = O.smooth_torus(R, r)["volume"]
        n2 = p["minor_sections"]
        lower = Vs * fk * (n2 * math.sin(2 * math.pi / n2) / (2 * math.pi))
        lower *= 1 - 1e-12
    elif fn == "cylinder":
        Vs = O.smooth_cylinder(p["radius"], p["height"])["volume"]
        lower = Vs * fk * (1 - 1e-12)
    elif fn == "cone":
        Vs = O.smooth_cone(p["radius"], p["height"])["volume"]
        lower = Vs * fk * (1 - 1e-12)
    else:
        return None
    check(V <= Vs * (1 + 1e-12), sig + "|above_smooth_volume", f"mesh volume {V} exceeds the smooth volume {Vs}")
    check(V >= lower * (1 - 1e-9), sig + "|below_resolution_bound", f"mesh volume {V} below the inscribed bound {lower} (smooth {Vs})")
    return Vs


@body("C15.revolve")
def b_revolve(case, ctx):
    fn, p, place = case["fn"], case["p"], norm_place(case["place"])
    prof, k, ang, euler = G.rev_profile(fn, p)
    default_res = (p.get("sections", 0) is None) or (fn in ("uv_sphere", "capsule") and p["count"] is None)
    pc = place_cls(place)
    ctx.note(
        nontrivial=(pc not in ("none", "identity")) and not default_res,
        cls=[f"revolve:{fn}:{pc}", f"revolve:{fn}:sections={sec_cls(k, default_res)}", f"placement:{pc}"]
        + ([f"revolve:partial:{p['form']}"] if fn == "revolve" and ang is not None else [])
        + ([f"revolve:full:{p['form']}"] if fn == "revolve" and ang is None else []),
    )
    sig = f"C15.revolve|{fn}|{pc}"
    with np.errstate(all="ignore"):
        if fn == "revolve" and ang is not None and k == 1:
            # a single straight section over angle < pi is a plain wedge: narrow signature for this corner
            try:
                m = call_revolve(fn, p, place.get("M"))
            except IndexError as e:
                raise Violation("C15.revolve|revolve|partial_single_section|IndexError", f"revolve(angle={ang}, sections=1, cap=True): IndexError: {e}")
        else:
            m = call_revolve(fn, p, place.get("M"), segment=place.get("segment"))
        check_valid(m, sig, euler)
        local = O.revolved(prof, k, angle=ang, capped=ang is not None)
        if place["cls"] == "segment":
            seg = np.array(place["segment"], dtype=np.float64)
            mid = seg.mean(axis=0)
            d = (seg[1] - seg[0]) / np.linalg.norm(seg[1] - seg[0])
            h = float(np.linalg.norm(seg[1] - seg[0]))
            V = np.asarray(m.vertices) - mid
            ax = V @ d
            rad = np.linalg.norm(V - ax[:, None] * d, axis=1)
            radii = np.unique(prof[:, 0])
            tol = 1e-9 * (1 + np.abs(seg).max() + radii.max())
            check(np.abs(np.abs(ax) - h / 2).max() <= tol, sig + "|segment_ends", f"axial coordinates are not +-{h / 2}")
            check(np.abs(rad[:, None] - radii[None, :]).min(axis=1).max() <= tol, sig + "|segment_radius", f"vertex radii not in {radii.tolist()}")
            a, c = local["inertia"][0, 0], local["inertia"][2, 2]
            ref = dict(local)
            ref["com"] = mid
            ref["inertia"] = a * np.eye(3) + (c - a) * np.outer(d, d)
            ref["vertices"] = np.asarray(m.vertices)  # only used for the conditioning of the tolerances
            check_measures(m, ref, sig, "segment form")
            # sin of the angle between the axis and coordinate axis i, from the other two components (1 - d_i^2 cancels)
            sin_i = np.sqrt(np.array([d[1] ** 2 + d[2] ** 2, d[0] ** 2 + d[2] ** 2, d[0] ** 2 + d[1] ** 2]))
            half = h / 2 * np.abs(d) + radii.max() * sin_i
            b = np.asarray(m.bounds)
            check((b[0] >= mid - half - tol).all() and (b[1] <= mid + half + tol).all(), sig + "|bounds", "bounds exceed the smooth cylinder's box")
            check(len(m.faces) == local["nfaces"], sig + "|face_count", f"{len(m.faces)} faces, expected {local['nfaces']}")
            return
        M = np.eye(4) if place["M"] is None else np.array(place["M"], dtype=np.float64)
        ref = O.place(local, M)
        check_vertices_bounds(m, ref, sig, fn)
        check_measures(m, ref, sig, fn)
        if local["nfaces"] is not None:
            check(len(m.faces) == local["nfaces"], sig + "|face_count", f"{len(m.faces)} faces, expected {local['nfaces']}")
        Minv = np.eye(4)
        Minv[:3, :3] = M[:3, :3].T
        Minv[:3, 3] = -M[:3, :3].T @ M[:3, 3]
        Vs = smooth_clauses(fn, p, m, Minv, sig, prof, k)
        if Vs is not None and case.get("double", True) and k <= 32 and len(prof) <= 32:
            m2 = call_revolve(fn, p, place.get("M"), factor=2)
            check_valid(m2, sig + "|doubled", euler)
            e1, e2 = Vs - float(m.volume), Vs - float(m2.volume)
            check(0 <= e2 < e1, sig + "|error_not_decreasing", f"smooth volume error {e1:.6g} at resolution n, {e2:.6g} at 2n")
            # every factor (k-gon/disc, inscribed profile/smooth profile) loses <= 0.3 of its deficit when doubled; the product at least halves
            check(e2 <= e1 / 2.0, sig + "|error_not_quadratic", f"error {e1:.6g} -> {e2:.6g} when the resolution doubles (expected ~1/4)")


# ------------------------------------------------------------------------------------------- spheres


@body("C15.icosphere")
def b_icosphere(case, ctx):
    s, R = case["subdivisions"], case["radius"]
    ctx.note(nontrivial=R != 1.0, cls=f"icosphere:sub={s}")
    sig = f"C15.icosphere|sub={s}"
    with np.errstate(all="ignore"):
        if case.get("primitive"):
            c = np.array(case["center"], dtype=np.float64)
            P = primitives.Sphere(radius=R, center=c, subdivisions=s)
            m = P.to_mesh()
        else:
            c = np.zeros(3)
            m = creation.icosphere(subdivisions=s, radius=R)
        check_valid(m, sig, 2)
        check(len(m.faces) == 20 * 4**s, sig + "|face_count", f"{len(m.faces)} faces, expected {20 * 4**s}")
        dev = np.abs(np.linalg.norm(np.asarray(m.vertices) - c, axis=1) - R).max()
        check(dev <= 1e-9 * R, sig + "|off_surface", f"a vertex is {dev:.3g} off the sphere")
        sm = O.smooth_sphere(R)
        V = float(m.volume)
        check(V <= sm["volume"], sig + "|above_smooth_volume", f"{V} > {sm['volume']}")
        check(float(m.area) <= sm["area"], sig + "|area_above_smooth", "")
        # convex polyhedron with all vertices on the sphere contains the ball whose radius is the smallest
        # distance of a face plane from the centre = sqrt(R^2 - circumradius^2)
        t = np.asarray(m.vertices)[np.asarray(m.faces)] - c
        a = np.linalg.norm(t[:, 1] - t[:, 0], axis=1)
        b = np.linalg.norm(t[:, 2] - t[:, 1], axis=1)
        cc = np.linalg.norm(t[:, 0] - t[:, 2], axis=1)
        ar = 0.5 * np.linalg.norm(np.cross(t[:, 1] - t[:, 0], t[:, 2] - t[:, 0]), axis=1)
        rc = (a * b * cc / (4 * ar)).max()
        rin = math.sqrt(max(R * R - rc * rc, 0.0))
        check(V >= 4.0 / 3.0 * math.pi * rin**3 * (1 - 1e-9), sig + "|below_resolution_bound", f"volume {V} below the inscribed ball {rin}")
        err = 1 - V / sm["volume"]
        # icosahedron: 1 - V/Vs = 0.39454; every subdivision halves the angular size of the faces: error <= 0.64 / 4^s
        check(err <= 0.64 / 4**s, sig + "|error_not_quadratic", f"relative volume error {err:.4g} at {s} subdivisions")
        b = np.asarray(m.bounds)
        check((b[0] >= c - R * (1 + 1e-9)).all() and (b[1] <= c + R * (1 + 1e-9)).all() and (b[1] - b[0] >= 2 * R * 0.79).all(), sig + "|bounds", str(b.tolist()))
        cm = np.asarray(m.center_mass)
        check(np.abs(cm - c).max() <= 1e-9 * (R + np.abs(c).max()), sig + "|center_mass", f"{cm.tolist()} vs {c.tolist()}")
        I = np.asarray(m.moment_inertia)
        check(np.abs(I - np.eye(3) * I[0, 0]).max() <= 1e-9 * abs(I[0, 0]) * (1 + (np.abs(c).max() / R) ** 2), sig + "|inertia_not_isotropic", str(I.tolist()))
        check(I[0, 0] <= sm["inertia"][0, 0] * (1 + 1e-9 * (1 + (np.abs(c).max() / R) ** 2)), sig + "|inertia_above_smooth", "")
        if s < case.get("max_sub", 4) and not case.get("primitive"):
            m2 = creation.icosphere(subdivisions=s + 1, radius=R)
            e2 = 1 - float(m2.volume) / sm["volume"]
            check(0 < e2 <= err / 3.0, sig + "|error_not_decreasing", f"error {err:.4g} at {s}, {e2:.4g} at {s + 1} subdivisions")


# ------------------------------------------------------------------------------------------- flat-faced shapes


def shapely_polygon(rings):
    from shapely.geometry import Polygon

    return Polygon(rings[0].tolist(), [r.tolist() for r in rings[1:]])


def check_triangulation(V, F, rings, sig):
    V = np.asarray(V, dtype=np.float64)
    F = np.asarray(F, dtype=np.int64)
    check(V.ndim == 2 and V.shape[1] == 2 and F.ndim == 2 and F.shape[1] == 3, sig + "|shape", f"{V.shape} {F.shape}")
    check(F.min() >= 0 and F.max() < len(V), sig + "|index_range", "face index outside the vertex array")
    t = V[F]
    a2 = (t[:, 1, 0] - t[:, 0, 0]) * (t[:, 2, 1] - t[:, 0, 1]) - (t[:, 1, 1] - t[:, 0, 1]) * (t[:, 2, 0] - t[:, 0, 0])
    A = O.polygon_moments(rings, [(0, 0)])[0]
    # slivers over an (almost) collinear polygon vertex have no meaningful orientation or interior point
    big = np.abs(a2) > 1e-9 * A
    check((a2[big] > 0).all() or (a2[big] < 0).all(), sig + "|mixed_orientation", "triangles of both orientations")
    check(abs(np.abs(a2).sum() / 2 - A) <= 1e-9 * A, sig + "|area", f"triangle areas sum to {np.abs(a2).sum() / 2}, polygon area {A}")
    for c in t[big].mean(axis=1):
        check(O.point_in_rings(c, rings), sig + "|triangle_outside", f"triangle centroid {c.tolist()} outside the polygon")
    pts = np.vstack(rings)
    used = V[np.unique(F)]
    d = np.abs(used[:, None, :] - pts[None, :, :]).max(axis=2).min(axis=1)
    check(d.max() <= 1e-12 * (1 + np.abs(pts).max()), sig + "|new_vertex", "triangulation uses a vertex that is not a polygon vertex")


@body("C15.flat")
def b_flat(case, ctx):
    kind = case["kind"]
    with np.errstate(all="ignore"):
        if kind in ("box", "box_bounds"):
            if kind == "box":
                place = norm_place(case["place"])
                ext = case["extents"]
                pc = place_cls(place)
                ctx.note(nontrivial=ext is not None and pc not in ("none", "identity"), cls=[f"flat:box:{pc}", f"placement:{pc}"])
                kw = {} if place["M"] is None else {"transform": np.array(place["M"])}
                m = creation.box(extents=ext, **kw)
                M = np.eye(4) if place["M"] is None else np.array(place["M"], dtype=np.float64)
                ref = O.place(O.box(ext or [1, 1, 1]), M)
            else:
                pc = "bounds"
                ctx.note(nontrivial=True, cls="flat:box:bounds")
                b = np.array(case["bounds"], dtype=np.float64)
                m = creation.box(bounds=b)
                M = np.eye(4)
                M[:3, 3] = b.mean(axis=0)
                ref = O.place(O.box(b[1] - b[0]), M)
            sig = f"C15.flat|box|{pc}"
            check_valid(m, sig, 2)
            check(len(m.faces) == 12 and len(m.vertices) == 8, sig + "|counts", f"{len(m.vertices)} vertices {len(m.faces)} faces")
            check_vertices_bounds(m, ref, sig, "box")
            check_measures(m, ref, sig, "box")
            dn = normals_deviation(m.face_normals, m)
            check(dn <= normal_tol(M), sig + "|face_normals", f"stored face normals differ from the triangle normals by {dn:.3g}")
            return
        rings = G.build_rings(case["polygon"])
        nh = len(rings) - 1
        hk = sorted({h.get("kind", "star") for h in case["polygon"]["holes"]})
        hole_cls = [f"flat:hole:{k}" for k in hk] + [f"flat:hole:{k}:{case.get('engine')}" for k in hk if "engine" in case]
        if kind == "triangulate":
            eng = case["engine"]
            ctx.note(nontrivial=True, cls=[f"flat:triangulate:{eng}", f"holes={nh}"] + hole_cls)
            V, F = creation.triangulate_polygon(shapely_polygon(rings), engine=eng)
            check_triangulation(V, F, rings, f"C15.flat|triangulate|{eng}")
            return
        place = norm_place(case["place"])
        pc = place_cls(place)
        h = case["height"]
        kw = {} if place["M"] is None else {"transform": np.array(place["M"])}
        M = np.eye(4) if place["M"] is None else np.array(place["M"], dtype=np.float64)
        if kind == "extrude_polygon":
            eng = case["engine"]
            ctx.note(nontrivial=pc not in ("none", "identity"), cls=[f"flat:extrude_polygon:{pc}", f"flat:engine:{eng}", f"holes={nh}", "height<0" if h < 0 else "height>0", f"placement:{pc}"] + hole_cls)
            sig = f"C15.flat|extrude_polygon|{pc}"
            ekw = {} if eng is None else {"engine": eng}
            m = creation.extrude_polygon(shapely_polygon(rings), h, **kw, **ekw)
        else:
            how = case["fan"]
            ctx.note(nontrivial=pc not in ("none", "identity"), cls=[f"flat:extrude_triangulation:{how}:{pc}", "height<0" if h < 0 else "height>0", f"placement:{pc}"])
            sig = f"C15.flat|extrude_triangulation|{how}|{pc}"
            n = len(rings[0])
            centre = np.array(case["polygon"]["off"], dtype=np.float64) * case["polygon"]["R"]
            V2 = np.vstack((rings[0], centre))
            F2 = np.array([[n, i, (i + 1) % n] for i in range(n)])
            if how == "fan_cw":
                F2 = F2[:, ::-1]
            elif how == "strip":
                F2 = F2[::-1].copy()
            m = creation.extrude_triangulation(V2, F2, h, **kw)
        check_valid(m, sig, 2 - 2 * nh)
        ref = O.place(O.prism(rings, h), M)
        if kind == "extrude_triangulation":
            # the interior fan centre is a vertex of both caps
            c3 = np.array([[centre[0], centre[1], 0.0], [centre[0], centre[1], h]]) @ M[:3, :3].T + M[:3, 3]
            ref["vertices"] = np.vstack((ref["vertices"], c3))
        opt = np.tile(collinear_mask(rings), 2)
        if kind == "extrude_triangulation":
            opt = np.concatenate((opt, [False, False]))
        if opt.any():
            ctx.note(cls="flat:collinear_vertex")
        check_vertices_bounds(m, ref, sig, kind, optional=opt)
        check_measures(m, ref, sig, kind)


# ------------------------------------------------------------------------------------------- sweeps


@body("C15.sweep")
def b_sweep(case, ctx):
    fam = case["family"]
    rings = G.build_rings(case["polygon"], centre=True)
    nh = len(rings) - 1
    path, angles, closed = G.sweep_path(case)
    eng = case["engine"]
    ctx.note(nontrivial=True, cls=[f"sweep:{fam}", f"sweep:engine:{eng}", f"sweep:holes={min(nh, 1)}", "sweep:roll" if angles is not None else "sweep:noroll"])
    sig = f"C15.sweep|{fam}"
    with np.errstate(all="ignore"):
        ekw = {} if eng is None else {"engine": eng}
        m = creation.sweep_polygon(shapely_polygon(rings), path, angles=angles, **ekw)
        if closed:
            check_valid(m, sig, 0, bodies=1)
        else:
            check_valid(m, sig, 2 - 2 * nh)
        A, = O.polygon_moments(rings, [(0, 0)])
        per = sum(O.ring_perimeter(r) for r in rings)
        seg = np.diff(path, axis=0)
        L = float(np.linalg.norm(seg, axis=1).sum())
        tang = seg / np.linalg.norm(seg, axis=1)[:, None]
        # slicing planes: through every path vertex, normal = bisector of the adjacent directions
        nrm = np.vstack((tang[:1], tang[:-1] + tang[1:], tang[-1:]))
        if closed:
            nrm[0] = tang[0] + tang[-1]
            nrm = nrm[:-1]
        nrm = nrm / np.linalg.norm(nrm, axis=1)[:, None]
        pts = path[: len(nrm)]
        V = np.asarray(m.vertices)
        bpts = np.vstack(rings)
        nb = len(bpts)
        opt = collinear_mask(rings)
        if opt.any():
            # collinear profile vertices may be dropped by the triangulator: slices are then checked for lying in
            # their planes and for using profile radii only
            ctx.note(cls="sweep:collinear_vertex")
            check(len(V) % len(pts) == 0 and nb - opt.sum() <= len(V) // len(pts) <= nb, sig + "|vertex_count", f"{len(V)} vertices for {len(pts)} slices of {nb - opt.sum()}..{nb}")
            nb = len(V) // len(pts)
        check(len(V) == nb * len(pts), sig + "|vertex_count", f"{len(V)} vertices, expected {nb} per slice x {len(pts)} slices")
        rho = float(np.linalg.norm(bpts, axis=1).max())
        scale = rho + np.abs(path).max()
        radii = np.sort(np.linalg.norm(bpts, axis=1))
        # pairwise distances within the profile (sorted) identify a congruent copy
        pd = np.sort(np.linalg.norm(bpts[:, None, :] - bpts[None, :, :], axis=2).ravel())
        for i in range(len(pts)):
            S = V[i * nb : (i + 1) * nb] - pts[i]
            off = np.abs(S @ nrm[i]).max()
            # sweep_polygon stores the plane normal as spherical angles: acos near +-Z resolves angles only to sqrt(eps)=1.5e-8
            check(off <= 1e-9 * scale + 3e-8 * rho, sig + "|slice_off_plane", f"slice {i}: a vertex is {off:.3g} off the plane through the path vertex normal to the mean direction")
            r = np.sort(np.linalg.norm(S, axis=1))
            if opt.any():
                check(np.abs(r[:, None] - radii[None, :]).min(axis=1).max() <= 1e-9 * scale, sig + "|slice_not_congruent", f"slice {i}: a distance from the path vertex is not a profile radius")
                continue
            check(np.abs(r - radii).max() <= 1e-9 * scale, sig + "|slice_not_congruent", f"slice {i}: distances from the path vertex differ from the profile's")
            if i in (0, len(pts) - 1, len(pts) // 2):
                d = np.sort(np.linalg.norm(S[:, None, :] - S[None, :, :], axis=2).ravel())
                check(np.abs(d - pd).max() <= 1e-9 * scale, sig + "|slice_not_congruent", f"slice {i}: pairwise distances differ from the profile's")
        vol = float(m.volume)
        area = float(m.area)
        if fam == "line" and angles is None:
            check(abs(vol - A * L) <= 1e-9 * A * L * (1 + scale / rho), sig + "|volume", f"straight sweep: volume {vol} vs A L = {A * L}")
            wa = 2 * A + per * L
            check(abs(area - wa) <= 1e-9 * wa, sig + "|area", f"straight sweep: area {area} vs 2A + P L = {wa}")
        elif fam == "ring_xy":
            N = len(pts)
            phi = 2 * math.pi / N
            want = N * math.sin(phi) * case["Rc"] * A  # straight-section revolution of a profile whose centroid is on the path
            check(abs(vol - want) <= 1e-9 * want * (1 + scale / rho), sig + "|volume", f"horizontal ring: volume {vol} vs N sin(phi) Rc A = {want}")
            lo = math.cos(phi / 2) * (1 - rho / case["Rc"]) * per * L
            hi = (1 + rho / case["Rc"]) * per * L
            check(lo * (1 - 1e-9) <= area <= hi * (1 + 1e-9), sig + "|area", f"horizontal ring: area {area} outside [{lo}, {hi}]")
        elif fam != "vertical_arc":
            cosb = np.clip((tang[:-1] * tang[1:]).sum(axis=1), -1, 1)
            phi = float(np.arccos(cosb).max()) if len(cosb) else 0.0
            kap = phi / float(np.linalg.norm(seg, axis=1).min())
            polar = np.abs(tang[:, 2]).max()
            # twist of the spherical-coordinate frame between consecutive slices = |cos(polar angle) d azimuth|
            # <= |t_z| phi / sin(polar angle); plus the requested roll per vertex
            alpha = polar / math.sqrt(max(1 - polar * polar, 1e-12)) * phi + abs(case.get("roll", 0.0))
            if polar <= math.cos(math.radians(40)):
                # side quads between slices twisted by alpha are not planar: splitting one along a diagonal moves the
                # volume by <= |e|^2 |s| alpha / 6  (e profile edge, s path segment); summed: <= P rho L alpha / 3
                first = per * rho * alpha / (3 * A)
                lo = (1 - (phi**2 + alpha**2 + (rho * kap) ** 2) - first) * A * L
                hi = (1 + (rho * kap) ** 2 + first) * A * L
                check(lo <= vol <= hi, sig + "|volume_band", f"volume {vol} outside [{lo}, {hi}] (A L = {A * L}, bend {phi:.3g}, twist {alpha:.3g})")


# ------------------------------------------------------------------------------------------- primitives


def make_prim(kind, p, T, via_center=False):
    kw = {}
    if T is not None:
        kw["transform"] = np.array(T, dtype=np.float64)
    if kind == "Box":
        return primitives.Box(extents=p["extents"], **kw)
    if kind == "Sphere":
        if via_center and T is not None:
            return primitives.Sphere(radius=p["radius"], subdivisions=p["subdivisions"], center=np.array(T)[:3, 3])
        return primitives.Sphere(radius=p["radius"], subdivisions=p["subdivisions"], **kw)
    if kind == "Cylinder":
        return primitives.Cylinder(radius=p["radius"], height=p["height"], sections=p["sections"], **kw)
    if kind == "Capsule":
        return primitives.Capsule(radius=p["radius"], height=p["height"], sections=p["sections"], **kw)
    if kind == "Extrusion":
        return primitives.Extrusion(polygon=shapely_polygon(G.build_rings(p["polygon"])), height=p["height"], **kw)
    raise ValueError(kind)


def ring_count_about_axis(m, M, radius):
    """number of distinct vertices on the largest ring at one height (facets in circle)"""
    Minv_L = M[:3, :3].T
    loc = (np.asarray(m.vertices) - M[:3, 3]) @ Minv_L.T
    r = np.sqrt(loc[:, 0] ** 2 + loc[:, 1] ** 2)
    on = r > 0.9 * r.max()
    z = loc[on, 2]
    z0 = z.max()
    return int(np.sum(np.abs(z - z0) <= 1e-9 * (1 + abs(z0))))


def check_primitive_state(P, kind, p, M, sig, rings=None):
    """A primitive with parameters p (all lengths positive, height of an Extrusion signed) and orthogonal placement M:
    its mesh is a valid solid with the closed-form vertex set and measures, and the analytic overrides agree."""
    with np.errstate(all="ignore"):
        m = P.to_mesh()
        euler = 2 - 2 * (len(rings) - 1) if kind == "Extrusion" else 2
        check_valid(m, sig, euler)
        check_valid(P, sig + "|primitive_object", euler)
        check(np.array_equal(np.asarray(P.vertices), np.asarray(m.vertices)) and np.array_equal(np.asarray(P.faces), np.asarray(m.faces)), sig + "|to_mesh_differs", "")
        dn = normals_deviation(P.face_normals, m)
        check(dn <= normal_tol(M), sig + "|face_normals", f"primitive face normals differ from the triangle normals by {dn:.3g}")
        if kind == "Box":
            ref = O.place(O.box(p["extents"]), M)
            check_vertices_bounds(m, ref, sig, "Box mesh")
            check_measures(m, ref, sig, "Box mesh")
            check_measures(P, ref, sig + "|analytic", "Box primitive")
        elif kind == "Sphere":
            c, R = M[:3, 3], p["radius"]
            sm = O.smooth_sphere(R)
            dev = np.abs(np.linalg.norm(np.asarray(m.vertices) - c, axis=1) - R).max()
            check(dev <= 1e-9 * (R + np.abs(c).max()), sig + "|off_surface", f"a vertex is {dev:.3g} off the sphere about the centre")
            check(len(m.faces) == 20 * 4 ** p["subdivisions"], sig + "|face_count", f"{len(m.faces)} faces for {p['subdivisions']} subdivisions")
            check(abs(float(P.volume) - sm["volume"]) <= 1e-12 * sm["volume"], sig + "|analytic|volume", f"{P.volume} vs {sm['volume']}")
            check(abs(float(P.area) - sm["area"]) <= 1e-12 * sm["area"], sig + "|analytic|area", f"{P.area} vs {sm['area']}")
            check(np.abs(np.asarray(P.moment_inertia) - sm["inertia"]).max() <= 1e-12 * sm["inertia"][0, 0], sig + "|analytic|inertia", "")
            wb = np.array([c - R, c + R])
            check(np.abs(np.asarray(P.bounds) - wb).max() <= 1e-12 * (R + np.abs(c).max()), sig + "|analytic|bounds", f"{np.asarray(P.bounds).tolist()} vs {wb.tolist()}")
            check(float(m.volume) <= sm["volume"], sig + "|above_smooth_volume", "")
        elif kind == "Cylinder":
            r, h, k = p["radius"], p["height"], p["sections"]
            ref = O.place(O.revolved([[0, -h / 2], [r, -h / 2], [r, h / 2], [0, h / 2]], k), M)
            check_vertices_bounds(m, ref, sig, "Cylinder mesh")
            check_measures(m, ref, sig, "Cylinder mesh")
            sm = O.smooth_cylinder(r, h)
            check(abs(float(P.volume) - sm["volume"]) <= 1e-12 * sm["volume"], sig + "|analytic|volume", f"{P.volume} vs {sm['volume']}")
            wI = M[:3, :3] @ sm["inertia"] @ M[:3, :3].T
            check(np.abs(np.asarray(P.moment_inertia) - wI).max() <= 1e-12 * np.abs(wI).max(), sig + "|analytic|inertia", f"{np.asarray(P.moment_inertia).tolist()} vs {wI.tolist()}")
            wseg = np.array([[0, 0, -h / 2], [0, 0, h / 2]]) @ M[:3, :3].T + M[:3, 3]
            check(np.abs(np.asarray(P.segment) - wseg).max() <= 1e-12 * (1 + np.abs(wseg).max()), sig + "|segment", f"{np.asarray(P.segment).tolist()} vs {wseg.tolist()}")
            check(np.abs(np.asarray(P.direction) - M[:3, 2]).max() <= 1e-12, sig + "|direction", "")
        elif kind == "Capsule":
            r, h = p["radius"], p["height"]
            loc = (np.asarray(m.vertices) - M[:3, 3]) @ M[:3, :3]
            zc = np.clip(loc[:, 2], -h / 2, h / 2)
            dist = np.sqrt(loc[:, 0] ** 2 + loc[:, 1] ** 2 + (loc[:, 2] - zc) ** 2)
            dev = np.abs(dist - r).max()
            check(dev <= 1e-9 * (max(r, h) + np.abs(M[:3, 3]).max()), sig + "|off_surface", f"a vertex is {dev:.3g} off the capsule surface")
            sm = O.smooth_capsule(r, h)
            V = float(m.volume)
            check(V <= sm["volume"] * (1 + 1e-12), sig + "|above_smooth_volume", f"{V} > {sm['volume']}")
            n = ring_count_about_axis(m, M, r)
            check(n == p["sections"], "C15.primitive|Capsule|sections_ignored", f"Capsule(sections={p['sections']}) has {n} facets in circle")
            # sections facets around the axis, sections (rounded up to even) points on the profile of the two hemispheres
            k = p["sections"]
            ref = O.place(O.revolved(G.capsule_profile(r, h, k + k % 2), k), M)
            check_vertices_bounds(m, ref, sig, "Capsule mesh")
            check_measures(m, ref, sig, "Capsule mesh")
        elif kind == "Extrusion":
            ref = O.place(O.prism(rings, p["height"]), M)
            check_vertices_bounds(m, ref, sig, "Extrusion mesh", optional=np.tile(collinear_mask(rings), 2))
            check_measures(m, ref, sig, "Extrusion mesh")
            check(abs(float(P.volume) - ref["volume"]) <= 1e-9 * ref["volume"], sig + "|analytic|volume", f"{P.volume} vs {ref['volume']}")
            check(abs(float(P.area) - ref["area"]) <= 1e-9 * ref["area"], sig + "|analytic|area", f"{P.area} vs {ref['area']}")
            wd = M[:3, 2] * np.sign(p["height"])
            check(np.abs(np.asarray(P.direction) - wd).max() <= 1e-12, sig + "|direction", f"{np.asarray(P.direction).tolist()} vs {wd.tolist()}")
        if kind == "Cylinder":
            n = ring_count_about_axis(m, M, p["radius"])
            check(n == p["sections"], "C15.primitive|Cylinder|sections_ignored", f"Cylinder(sections={p['sections']}) has {n} facets in circle")


@body("C15.primitive")
def b_primitive(case, ctx):
    kind, p, place = case["kind"], case["p"], norm_place(case["place"])
    pc = place_cls(place)
    cls = [f"primitive:{kind}:{pc}", f"placement:{pc}"]
    if kind in ("Cylinder", "Capsule"):
        cls.append(f"primitive:{kind}:sections={sec_cls(p['sections'], False)}")
    if kind == "Extrusion":
        cls.append("primitive:Extrusion:height<0" if p["height"] < 0 else "primitive:Extrusion:height>0")
    ctx.note(nontrivial=pc not in ("none", "identity"), cls=cls)
    sig = f"C15.primitive|{kind}|{pc}"
    with np.errstate(all="ignore"):
        P = make_prim(kind, p, place["M"], case.get("via_center", False))
        M = np.eye(4) if place["M"] is None else np.array(place["M"], dtype=np.float64)
        if kind == "Sphere":
            M = np.eye(4) if place["M"] is None else np.array(place["M"], dtype=np.float64)
        check_primitive_state(P, kind, p, M, sig, rings=G.build_rings(p["polygon"]) if kind == "Extrusion" else None)


# ------------------------------------------------------------------------------------------- stateful


PARAMS = {
    "Box": ["extents"],
    "Sphere": ["radius", "subdivisions"],
    "Cylinder": ["radius", "height", "sections"],
    "Capsule": ["radius", "height", "sections"],
    "Extrusion": ["height", "polygon"],
}


def reported(P, kind):
    d = {"transform": np.array(P.primitive.transform, dtype=np.float64).copy()}
    for k in PARAMS[kind]:
        v = getattr(P.primitive, k)
        d[k] = np.array(v, dtype=np.float64).copy() if k == "extents" else v
    return d


def fresh_from(kind, rep):
    kw = {k: (np.array(v).copy() if isinstance(v, np.ndarray) else v) for k, v in rep.items()}
    return getattr(primitives, kind)(**kw)


def snapshot(P):
    return {
        "vertices": np.array(P.vertices, dtype=np.float64),
        "faces": np.array(P.faces, dtype=np.int64),
        "face_normals": np.array(P.face_normals, dtype=np.float64),
        "volume": float(P.volume),
        "area": float(P.area),
        "bounds": np.array(P.bounds, dtype=np.float64),
        "center_mass": np.array(P.center_mass, dtype=np.float64),
        "moment_inertia": np.array(P.moment_inertia, dtype=np.float64),
        "is_watertight": bool(P.is_watertight),
    }


def compare_fresh(P, kind, sig_tail, hist):
    rep = reported(P, kind)
    F = fresh_from(kind, rep)
    a, b = snapshot(P), snapshot(F)
    for name in ("faces", "vertices", "face_normals", "volume", "area", "bounds", "center_mass", "moment_inertia", "is_watertight"):
        x, y = a[name], b[name]
        if name in ("faces", "is_watertight"):
            ok = np.array_equal(x, y)
        else:
            x, y = np.asarray(x), np.asarray(y)
            ok = x.shape == y.shape and bool(np.all(np.abs(x - y) <= 1e-12 * (1 + np.abs(y).max())))
        if not ok:
            raise Violation(f"C15.stateful|{kind}|stale|{sig_tail}|{name}", f"after {hist}: {name} of the edited primitive differs from a fresh {kind}({ {k: (v.tolist() if isinstance(v, np.ndarray) else str(v)[:60]) for k, v in rep.items()} })")
    check(a["volume"] > 0 and float(P.to_mesh().volume) > 0, f"C15.stateful|{kind}|volume_sign|{sig_tail}", f"after {hist}")
    positive_parameters(P, kind, f"C15.stateful|{kind}|{sig_tail}")


def scalars(P, kind):
    return {k: getattr(P.primitive, k) for k in PARAMS[kind] if k in ("radius", "height", "sections", "subdivisions")}


def hash_collision(P, kind, last):
    now = scalars(P, kind)
    return any(now[k] != last[k] and hash(now[k]) == hash(last[k]) for k in now)


def positive_parameters(P, kind, sig):
    pr = P.primitive
    for k in ("radius", "height", "extents"):
        if k in PARAMS[kind] and not (kind == "Extrusion" and k == "height"):
            v = np.asarray(getattr(pr, k), dtype=np.float64)
            check(bool(np.all(v > 0)), sig + f"|parameter_not_positive|{k}", f"{k} = {v.tolist()}")
    for k in ("sections",):
        if k in PARAMS[kind]:
            check(int(getattr(pr, k)) >= 3, sig + f"|parameter_not_positive|{k}", f"{k} = {getattr(pr, k)}")
    check(float(P.volume) > 0, sig + "|analytic_volume_sign", f"volume {P.volume}")
    check(float(P.area) > 0, sig + "|analytic_area_sign", f"area {P.area}")
    b = np.asarray(P.bounds, dtype=np.float64)
    check(bool(np.all(b[1] > b[0])), sig + "|bounds_inverted", f"bounds {b.tolist()}")


def state_check(P, kind, sig, ctx):
    """the primitive as it stands: positive parameters, orthogonal placement, mesh and analytic values equal to the
    closed forms of those parameters (same clauses as C15.primitive); only inside the documented length range"""
    positive_parameters(P, kind, sig)
    rep = reported(P, kind)
    T = rep["transform"]
    L = T[:3, :3]
    check(np.abs(L @ L.T - np.eye(3)).max() <= 1e-8 and np.abs(T[3] - [0, 0, 0, 1]).max() <= 1e-12, sig + "|transform_not_rigid", f"transform {T.tolist()}")
    p = {k: (v.tolist() if isinstance(v, np.ndarray) else v) for k, v in rep.items() if k not in ("transform", "polygon")}
    rings = None
    if kind == "Extrusion":
        poly = rep["polygon"]
        rings = [np.array(poly.exterior.coords)[:-1, :2]] + [np.array(i.coords)[:-1, :2] for i in poly.interiors]
        lengths = [abs(p["height"]), float(np.ptp(rings[0], axis=0).max())]
    else:
        lengths = [float(x) for k in ("radius", "height", "extents") if k in p for x in np.atleast_1d(p[k])]
    if min(lengths) < 1e-2 or max(lengths) > 1e3:
        ctx.note(cls="stateful:state_check:outside_length_range")
        return
    if kind in ("Cylinder", "Capsule") and min(lengths) * p["radius"] * math.sin(math.pi / p["sections"]) < 4 * G.MIN_TRI_AREA:
        ctx.note(cls="stateful:state_check:outside_length_range")
        return
    if kind == "Capsule" and min(lengths) < 0.2:
        ctx.note(cls="stateful:state_check:outside_length_range")
        return
    ctx.note(cls="stateful:state_check")
    check_primitive_state(P, kind, p, T, sig + "|state", rings=rings)


def is_sim_scale(M):
    L = np.array(M, dtype=np.float64)[:3, :3]
    s = abs(np.linalg.det(L)) ** (1 / 3.0)
    return s


def apply_op(P, kind, o, ctx, hist):
    """apply one edit to primitive P and check that its reported parameters follow a model of the edit"""
    op = o["op"]
    before = reported(P, kind)
    expect = {}
    if op in ("set_radius", "set_height", "set_sections", "set_subdivisions"):
        key = op[4:]
        setattr(P.primitive, key, o["v"])
        expect[key] = o["v"]
    elif op == "set_extents":
        P.primitive.extents = o["v"]
        expect["extents"] = np.array(o["v"], dtype=np.float64)
    elif op == "extents_inplace":
        P.primitive.extents[o["i"]] = o["v"]
        e = before["extents"].copy()
        e[o["i"]] = o["v"]
        expect["extents"] = e
    elif op == "extents_imul":
        P.primitive.extents *= o["v"]
        expect["extents"] = before["extents"] * o["v"]
    elif op == "set_transform":
        P.primitive.transform = np.array(o["M"], dtype=np.float64)
        expect["transform"] = np.array(o["M"], dtype=np.float64)
    elif op == "transform_inplace":
        P.primitive.transform[:3, 3] = o["v"]
        t = before["transform"].copy()
        t[:3, 3] = o["v"]
        expect["transform"] = t
    elif op in ("set_center", "sphere_center"):
        if op == "sphere_center":
            P.center = o["v"]
        else:
            P.primitive.center = o["v"]
        expect["center"] = np.array(o["v"], dtype=np.float64)
    elif op == "transform_iadd":
        P.primitive.transform[o["i"], 3] += o["v"]
        t = before["transform"].copy()
        t[o["i"], 3] += o["v"]
        expect["transform"] = t
    elif op == "center_inplace":
        # `center` is documented as the translation part of the transform: write through it
        if kind == "Sphere" and o.get("via_sphere"):
            P.center[: o["n"]] = o["v"][: o["n"]]
        else:
            P.primitive.center[: o["n"]] = o["v"][: o["n"]]
        t = before["transform"].copy()
        t[: o["n"], 3] = o["v"][: o["n"]]
        expect["transform"] = t
    elif op == "slide":
        P.slide(o["v"])
        t = before["transform"].copy()
        t[:3, 3] = t[:3, 3] + t[:3, 2] * o["v"]
        expect["transform"] = t
    elif op == "set_polygon":
        rings = G.build_rings(o["v"])
        P.primitive.polygon = shapely_polygon(rings)
        expect["polygon_area"] = O.polygon_moments(rings, [(0, 0)])[0]
    elif op == "apply_transform":
        M = np.array(o["M"], dtype=np.float64)
        s = is_sim_scale(M)
        P.apply_transform(M)
        S = np.diag([1 / s, 1 / s, 1 / s, 1.0])
        expect["transform"] = M @ before["transform"] @ S
        for k in ("radius", "height", "extents"):
            if k in before and kind != "Extrusion":
                expect[k] = before[k] * s
        state_check(P, kind, f"C15.stateful|{kind}|apply_transform", ctx)
    elif op == "apply_mirror":
        # a reflection (times a uniform scale): either a clean ValueError that leaves the primitive unchanged,
        # or the primitive now is the mirror image: positive parameters scaled by |det|^(1/3), image mesh
        M = np.array(o["M"], dtype=np.float64)
        s = is_sim_scale(M)
        old_mesh = np.array(P.vertices, dtype=np.float64)
        old_vol = float(P.volume)
        try:
            P.apply_transform(M)
            accepted = True
        except ValueError:
            accepted = False
        ctx.note(cls="stateful:mirror:" + ("accepted" if accepted else "rejected"))
        if not accepted:
            expect = {k: v for k, v in before.items() if k != "polygon"}
        else:
            for k in ("radius", "height", "extents"):
                if k in before and kind != "Extrusion":
                    expect[k] = before[k] * s
            expect["center"] = M[:3, :3] @ before["transform"][:3, 3] + M[:3, 3]
            msig = f"C15.stateful|{kind}|apply_mirror"
            positive_parameters(P, kind, msig)
            check(abs(float(P.volume) - s**3 * old_vol) <= 1e-9 * s**3 * abs(old_vol), msig + "|volume", f"after {hist + [op]}: volume {P.volume} vs |det| x {old_vol}")
            if kind != "Sphere":
                want = old_mesh @ M[:3, :3].T + M[:3, 3]
                ok, msg = O.match_point_sets(np.asarray(P.vertices), want, 1e-9 * (1 + np.abs(want).max()))
                check(ok, msig + "|mesh_not_image", f"after {hist + [op]}: the mesh is not the mirror image of the previous mesh: {msg}")
            state_check(P, kind, msig, ctx)
    elif op == "apply_reject":
        M = np.array(o["M"], dtype=np.float64)
        try:
            P.apply_transform(M)
            raise Violation(f"C15.stateful|{kind}|accepts_non_similarity", f"apply_transform({M.tolist()}) succeeded")
        except ValueError:
            pass
        expect = {k: v for k, v in before.items() if k != "polygon"}
    hist.append(op + (":" + str(o.get("v")) if "v" in o and not isinstance(o.get("v"), dict) else ""))
    # the reported parameters follow the edit (model of the edits)
    rep = reported(P, kind)
    for k, v in expect.items():
        if k == "center":
            got = np.array(P.primitive.center, dtype=np.float64)
        elif k == "polygon_area":
            got = float(P.primitive.polygon.area)
        else:
            got = rep[k]
        got, v = np.asarray(got, dtype=np.float64), np.asarray(v, dtype=np.float64)
        rt = 1e-9 if op == "apply_transform" else 1e-12
        ok = got.shape == v.shape and bool(np.all(np.abs(got - v) <= rt * (1 + np.abs(v).max())))
        check(ok, f"C15.stateful|{kind}|parameter|{op}|{k}", lambda: f"after {hist}: reported {k} = {got.tolist()}, expected {v.tolist()}")


@body("C15.stateful")
def b_stateful(case, ctx):
    kind, p = case["kind"], case["p"]
    ops = case["ops"]
    nchecked = sum(1 for o in ops if o["check"])
    ctx.note(nontrivial=len(ops) >= 2 and nchecked >= 1, cls=[f"stateful:{kind}"] + [f"stateful:op:{o['op']}" for o in ops])
    with np.errstate(all="ignore"):
        P = make_prim(kind, p, case["T0"])
        compare_fresh(P, kind, "initial", "construction")
        hist = []
        # a scalar parameter differs from its value at the last read of the mesh but has the same python hash (-1.0 / -2.0)
        collided = False
        last_read = scalars(P, kind)
        for o in ops:
            apply_op(P, kind, o, ctx, hist)
            tail = o["op"]
            if o["check"]:
                collided = collided or hash_collision(P, kind, last_read)
                if collided:
                    ctx.note(cls="stateful:pyhash_collision")
                compare_fresh(P, kind, ("set_height|pyhash_collision|" + tail) if collided else tail, hist)
                last_read = scalars(P, kind)
        collided = collided or hash_collision(P, kind, last_read)
        compare_fresh(P, kind, ("set_height|pyhash_collision|" if collided else "") + "final|" + (ops[-1]["op"] if ops else "none"), hist)
        if not collided:
            state_check(P, kind, f"C15.stateful|{kind}|final", ctx)


def make_member(spec):
    """build a primitive from only the arguments present in the spec (absent = the constructor's default)"""
    kind, p = spec["kind"], spec["p"]
    kw = {k: v for k, v in p.items() if k != "polygon"}
    if "polygon" in p:
        kw["polygon"] = shapely_polygon(G.build_rings(p["polygon"]))
    if spec["T"] is not None:
        kw["transform"] = np.array(spec["T"], dtype=np.float64)
    return getattr(primitives, kind)(**kw)


def same_reported(a, b):
    """-> name of the first reported parameter that differs, or None"""
    for k in a:
        if k == "polygon":
            if a[k].wkb != b[k].wkb:
                return k
        elif not np.array_equal(np.asarray(a[k]), np.asarray(b[k])):
            return k
    return None


def check_new_member(P, spec):
    kind = spec["kind"]
    rep = reported(P, kind)
    sig = f"C15.population|{kind}|constructor"
    want_T = np.eye(4) if spec["T"] is None else np.array(spec["T"], dtype=np.float64)
    check(np.array_equal(rep["transform"], want_T), sig + "|transform", f"{kind}({sorted(spec['p'])}{'' if spec['T'] is None else ', transform'}) reports transform {rep['transform'].tolist()}, expected {want_T.tolist()}")
    for k, v in spec["p"].items():
        if k == "polygon":
            continue
        check(np.array_equal(np.asarray(rep[k], dtype=np.float64), np.asarray(v, dtype=np.float64)), sig + f"|{k}", f"{kind}({k}={v}) reports {k} = {rep[k]}")


@body("C15.population")
def b_population(case, ctx):
    """several primitives alive at once (some built with default arguments, some created later): an edit of one member
    changes that member only, and every member stays equal to a fresh primitive with its own reported parameters"""
    with np.errstate(all="ignore"):
        members = []
        ndefault = 0
        for spec in case["members"]:
            P = make_member(spec)
            check_new_member(P, spec)
            members.append((spec["kind"], P))
            ndefault += spec["T"] is None
        inplace = sum(1 for st_ in case["steps"] if "op" in st_ and st_["op"]["op"] in ("transform_inplace", "transform_iadd", "center_inplace", "extents_inplace", "extents_imul"))
        ctx.note(
            nontrivial=ndefault >= 2 and inplace >= 1,
            cls=["population", f"population:default_placed={min(ndefault, 3)}"] + (["population:inplace_edit"] if inplace else []) + (["population:created_later"] if any("create" in st_ for st_ in case["steps"]) else []),
        )
        for kind, P in members:
            compare_fresh(P, kind, "population|initial", "construction")
        hist = []
        for st_ in case["steps"]:
            before = [reported(P, kind) for kind, P in members]
            target = None
            if "create" in st_:
                spec = st_["create"]
                P = make_member(spec)
                check_new_member(P, spec)
                members.append((spec["kind"], P))
                before.append(reported(P, spec["kind"]))
                opname = "create"
                hist.append(f"create {spec['kind']}")
            else:
                target = st_["who"]
                kind, P = members[target]
                opname = st_["op"]["op"]
                h = []
                apply_op(P, kind, st_["op"], ctx, h)
                hist.append(f"{kind}[{target}].{h[-1] if h else opname}")
            for i, (kind, P) in enumerate(members):
                if i != target:
                    k = same_reported(before[i], reported(P, kind))
                    check(k is None, f"C15.population|{kind}|changed_by_other_member|{opname}|{k}", lambda: f"after {hist}: {k} of untouched member {i} ({kind}) changed from {np.asarray(before[i][k]).tolist() if k != 'polygon' else 'polygon'} to {np.asarray(reported(P, kind)[k]).tolist() if k != 'polygon' else 'polygon'}")
                compare_fresh(P, kind, f"population|{opname}|{'target' if i == target else 'other'}", hist)
                state_check(P, kind, f"C15.population|{kind}|{opname}|{'target' if i == target else 'other'}", ctx)


# ------------------------------------------------------------------------------------------- sub-checks


@subcheck("C15", "revolve", shards={"quick": 6, "thorough": 16})
def s_revolve(ctx):
    ctx.given("C15.revolve", G.revolve_case(), n={"quick": 1800, "thorough": 60000})


def _min_sections_cases():
    """every revolution-based function x sections 3..9 and defaults x {none, axis mirror, rotated mirror}"""
    H = np.eye(4)
    H[:3, :3] = np.eye(3) - 2 * np.outer([1, 2, 2], [1, 2, 2]) / 9.0
    H[:3, 3] = [1.0, -2.0, 0.5]
    Z = np.diag([1.0, 1.0, -1.0, 1.0])
    places = [{"cls": "none", "M": None}, {"cls": "mirror_axis", "M": Z.tolist()}, {"cls": "mirror", "M": H.tolist()}]
    for pl in places:
        for k in [3, 4, 5, 6, 7, 8, 9, None]:
            yield {"fn": "cylinder", "p": {"radius": 1.0, "height": 2.0, "sections": k}, "place": pl}
            yield {"fn": "cone", "p": {"radius": 1.5, "height": 2.0, "sections": k}, "place": pl}
            yield {"fn": "annulus", "p": {"r_min": 0.5, "r_max": 1.0, "height": 2.0, "sections": k}, "place": pl}
            if k is not None:
                yield {"fn": "torus", "p": {"major_radius": 3.0, "minor_radius": 1.0, "major_sections": k, "minor_sections": (k + 1) if k < 9 else 3}, "place": pl}
                yield {"fn": "uv_sphere", "p": {"radius": 2.0, "count": [k, max(2, k - 1)]}, "place": pl}
                yield {"fn": "capsule", "p": {"radius": 1.0, "height": 2.0, "count": [k, k]}, "place": pl}
                for ang in (1.0, math.pi, 5.0):
                    kk = max(k - 2, int(math.ceil(ang / 2.5)))
                    yield {"fn": "revolve", "p": {"ring": [[1, 0], [2, 0], [2.5, 1], [1, 0.5]], "form": "ring", "angle": ang, "sections": kk}, "place": pl}
                    yield {"fn": "revolve", "p": {"ring": [[0, -1], [1, -0.5], [0.5, 0.2], [0, 1]], "form": "axis", "angle": ang, "sections": kk}, "place": pl}
        yield {"fn": "uv_sphere", "p": {"radius": 2.0, "count": None}, "place": pl}
        yield {"fn": "capsule", "p": {"radius": 1.0, "height": 2.0, "count": None}, "place": pl}


@subcheck("C15", "revolve_enum", shards={"quick": 2, "thorough": 2})
def s_revolve_enum(ctx):
    ctx.enumerate("C15.revolve", _min_sections_cases(), label="revolution_functions_x_sections_3..9_x_mirrored")


@subcheck("C15", "spheres", shards={"quick": 2, "thorough": 4})
def s_spheres(ctx):
    top = 4 if ctx.tier == "quick" else 5

    def gen():
        for s in range(top + 1):
            for R in (1.0, 1e-2, 1e3, 0.37, 25.0):
                if s >= 4 and R not in (1.0, 0.37):
                    continue
                yield {"subdivisions": s, "radius": R, "max_sub": top}
        for s in range(4):
            for R, c in ((1.0, [0, 0, 0]), (2.5, [1, -2, 3]), (1e-2, [0.1, 0.2, 0.3]), (1e3, [5e3, 0, -1e3])):
                yield {"subdivisions": s, "radius": R, "center": c, "primitive": True}

    ctx.enumerate("C15.icosphere", gen(), label="icosphere_subdivisions_x_radius")


@subcheck("C15", "flat", shards={"quick": 3, "thorough": 12})
def s_flat(ctx):
    ctx.given("C15.flat", G.flat_case(), n={"quick": 1200, "thorough": 40000})


@subcheck("C15", "sweep", shards={"quick": 3, "thorough": 12})
def s_sweep(ctx):
    ctx.given("C15.sweep", G.sweep_case(), n={"quick": 450, "thorough": 15000})


@subcheck("C15", "primitive", shards={"quick": 4, "thorough": 8})
def s_primitive(ctx):
    ctx.given("C15.primitive", G.primitive_case(), n={"quick": 700, "thorough": 20000})


@subcheck("C15", "stateful", shards={"quick": 6, "thorough": 12})
def s_stateful(ctx):
    ctx.given("C15.stateful", G.stateful_case(), n={"quick": 700, "thorough": 20000})


@subcheck("C15", "population", shards={"quick": 4, "thorough": 12})
def s_population(ctx):
    ctx.given("C15.population", G.population_case(), n={"quick": 220, "thorough": 8000})


def _edit_pairs():
    """every primitive x every scalar parameter x every ordered pair of a small value pool (read in between)"""
    poly = {"n": 4, "rad": [1, 1, 1, 1], "jit": [0, 0, 0, 0], "phase": 0.0, "holes": [], "R": 1.0, "off": [0.0, 0.0], "hole_phase": 0.0}
    base = {
        "Box": {"extents": [1.0, 2.0, 3.0]},
        "Sphere": {"radius": 1.0, "subdivisions": 1},
        "Cylinder": {"radius": 1.0, "height": 2.0, "sections": 6},
        "Capsule": {"radius": 1.0, "height": 2.0, "sections": 6},
        "Extrusion": {"polygon": poly, "height": 1.0},
    }
    pos = [1.0, 2.0, 0.5, 3.0]
    for kind, p in base.items():
        edits = []
        if "radius" in p:
            edits += [("set_radius", a, b) for a in pos for b in pos if a != b]
        if "height" in p:
            vals = pos + ([-1.0, -2.0, -0.5, -3.0] if kind == "Extrusion" else [])
            edits += [("set_height", a, b) for a in vals for b in vals if a != b]
        if "sections" in p:
            edits += [("set_sections", a, b) for a in (3, 4, 5, 8) for b in (3, 4, 5, 8) if a != b]
        if "subdivisions" in p:
            edits += [("set_subdivisions", a, b) for a in (0, 1, 2) for b in (0, 1, 2) if a != b]
        if "extents" in p:
            edits += [("extents_inplace", a, b) for a in pos for b in pos if a != b]
        for op, a, b in edits:
            o1 = {"op": op, "v": a, "check": True}
            o2 = {"op": op, "v": b, "check": True}
            if op == "extents_inplace":
                o1["i"] = o2["i"] = 1
            yield {"kind": kind, "p": p, "T0": None, "ops": [o1, o2]}


@subcheck("C15", "edit_pairs", shards={"quick": 2, "thorough": 2})
def s_edit_pairs(ctx):
    ctx.enumerate("C15.stateful", _edit_pairs(), label="primitive_scalar_parameter_edit_pairs")


REQUIRED_CLASSES["C15"] = [
    "placement:mirrored",
    "placement:rigid",
    "revolve:cylinder:mirrored",
    "revolve:cone:mirrored",
    "revolve:annulus:mirrored",
    "revolve:capsule:mirrored",
    "revolve:uv_sphere:mirrored",
    "revolve:torus:mirrored",
    "revolve:revolve:mirrored",
    "revolve:cylinder:segment",
    "revolve:cylinder:sections=min",
    "revolve:cylinder:sections=odd",
    "revolve:cylinder:sections=even",
    "revolve:cylinder:sections=default",
    "revolve:partial:ring",
    "revolve:partial:axis",
    "flat:box:mirrored",
    "flat:extrude_polygon:mirrored",
    "flat:engine:earcut",
    "flat:engine:manifold",
    "flat:engine:triangle",
    "holes=2",
    "height<0",
    "sweep:line",
    "sweep:ring_xy",
    "sweep:tilted_ring",
    "sweep:helix_z",
    "sweep:roll",
    "primitive:Box:mirrored",
    "primitive:Cylinder:mirrored",
    "primitive:Extrusion:mirrored",
    "primitive:Extrusion:height<0",
    "stateful:Box",
    "stateful:Extrusion",
    "stateful:op:apply_transform",
    "stateful:op:set_sections",
    "stateful:op:set_polygon",
    "stateful:pyhash_collision",
    "stateful:op:apply_mirror",
    "stateful:mirror:accepted",
    "stateful:mirror:rejected",
    "stateful:state_check",
    "population:default_placed=2",
    "population:inplace_edit",
    "population:created_later",
    "flat:hole:band",
    "flat:hole:band:triangle",
]
