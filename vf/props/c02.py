"""C02 — content hash of tracked arrays always reflects their current bytes (trimesh/caching.py)."""

import numpy as np
from hypothesis import strategies as st

import trimesh
from trimesh import caching

from ..core import ASSUMPTIONS, REQUIRED_CLASSES, RULES, Violation, body, check, subcheck

RULES["C02"] = (
    "Programs (<=14 steps) over one TrackedArray root (the dtypes/shapes trimesh stores) and a growing pool of "
    "views/copies derived from it; steps are hash reads of drawn pool members, view creation, mutating routes "
    "(item/slice/mask/fancy assignment, the in-place operators, fill/sort/partition/put/byteswap, ufunc out=, "
    "ufunc.at, copyto/put/place/putmask/fill_diagonal, clip/cumsum/round out=, flat assignment, shuffle) and "
    "read-only operations, applied to the root or to any view. Oracle after each step on a drawn subset of the "
    "pool and on the whole pool at the end: hash(x) == hash_fast(x.tobytes('C')). Plus an enumerated table "
    "route x write target (root, view, view of view) x which member was hashed before. Container level: the same "
    "on mesh.vertices/faces, path.vertices, colour arrays with hash(mesh)/hash(path)/hash(scene)/visual hash compared "
    "with a fresh object built from the current arrays; mesh programs interleave array-level hash reads (hash(mesh.vertices)) "
    "between an edit and the container hash, re-assign the same array object through the property setter "
    "(m.vertices = m.vertices, m.vertices += x) and go on writing through the handle taken before, and build further "
    "holders (Trimesh / PointCloud) on the same array objects, all of which must agree with fresh objects. Non-trivial: a hash read leaves a flag clean and a later "
    "step changes the bytes of that member; distinct by case."
)
ASSUMPTIONS["C02"] = [
    "the hash function itself (xxhash/blake2b) is trusted; the property is about memoisation",
    "writes that deliberately go around the subclass - the unbound base-class method np.ndarray.__setitem__(x, ...) and "
    "writes through a plain ndarray obtained by .view(np.ndarray)/np.asarray/memoryview/as_strided - are the library's documented "
    "escape hatch and are not in the domain (no subclass hook can observe them)",
    "writes into the user array a TrackedArray was created from (tracked_array shares memory with a contiguous input) "
    "are not writes through a view *of the tracked array* and are not in the domain",
]

KINDS = {
    "v3f": ("float64", (None, 3)),
    "f3i": ("int64", (None, 3)),
    "c4u": ("uint8", (None, 4)),
    "uv2": ("float64", (None, 2)),
    "s1f": ("float64", (None,)),
    "m44": ("float64", (4, 4)),
}


def make_root(kind, n, seed):
    dtype, shape = KINDS[kind]
    shape = tuple(n if s is None else s for s in shape)
    rs = np.random.RandomState(seed)
    if dtype == "float64":
        a = rs.uniform(-10, 10, shape)
    elif dtype == "int64":
        a = rs.randint(0, 50, shape).astype(np.int64)
    else:
        a = rs.randint(0, 255, shape).astype(np.uint8)
    return caching.tracked_array(a.copy())


# ------------------------------------------------------------------ view creation


def mk_view(x, kind, p):
    """returns a new array derived from x (a view when numpy gives a view), or None if not applicable"""
    n = x.shape[0] if x.ndim else 0
    if kind == "rows":
        a, b = sorted((p % (n + 1), (p // 7) % (n + 1)))
        return x[a:b] if b > a else x[:]
    if kind == "step":
        return x[:: 2 + p % 2]
    if kind == "rev":
        return x[::-1]
    if kind == "col":
        return x[:, p % x.shape[1]] if x.ndim == 2 and x.shape[1] else None
    if kind == "row":
        return x[p % n] if n and x.ndim >= 1 and x.ndim == 2 else None
    if kind == "T":
        return x.T
    if kind == "reshape":
        return x.reshape(-1)
    if kind == "ravel":
        return x.ravel()
    if kind == "viewT":
        return x.view(caching.TrackedArray)
    if kind == "ellipsis":
        return x[...]
    if kind == "newaxis":
        return x[None]
    if kind == "squeeze":
        return np.squeeze(x)
    if kind == "mask_copy":
        if n == 0:
            return None
        m = np.random.RandomState(p).rand(n) > 0.5
        return x[m]
    if kind == "chain_rows_rows":
        # the intermediate view is garbage as soon as the expression is evaluated
        return x[1:][: max(n - 2, 0)] if n >= 2 else None
    if kind == "chain_T_row":
        return x.T[p % x.shape[1]] if x.ndim == 2 and x.shape[1] else None
    if kind == "chain_reshape_step":
        return x.reshape(-1)[:: 2 + p % 2] if x.flags.c_contiguous else None
    if kind == "chain_rows_col":
        return x[p % 2 :][:, p % x.shape[1]] if x.ndim == 2 and x.shape[1] else None
    if kind == "copy":
        return x.copy()
    if kind == "swapaxes":
        return x.swapaxes(0, -1) if x.ndim == 2 else None
    if kind == "diag":
        return x.diagonal() if x.ndim == 2 else None  # read-only view
    raise ValueError(kind)


VIEW_KINDS = ["rows", "step", "rev", "col", "row", "T", "reshape", "ravel", "viewT", "ellipsis", "newaxis", "squeeze", "mask_copy", "copy", "swapaxes", "chain_rows_rows", "chain_T_row", "chain_reshape_step", "chain_rows_col"]

# ------------------------------------------------------------------ mutating routes


def _val(x, rs):
    if x.dtype.kind == "f":
        return float(rs.uniform(-99, 99))
    if x.dtype == np.uint8:
        return int(rs.randint(0, 255))
    return int(rs.randint(0, 1000))


def r_setitem_int(x, rs):
    x[int(rs.randint(0, x.shape[0]))] = _val(x, rs)


def r_setitem_neg(x, rs):
    x[-1] = _val(x, rs)


def r_setitem_slice(x, rs):
    x[: max(1, x.shape[0] // 2)] = _val(x, rs)


def r_setitem_mask(x, rs):
    m = rs.rand(*x.shape) > 0.5
    m.flat[0] = True
    x[m] = _val(x, rs)


def r_setitem_fancy(x, rs):
    idx = rs.randint(0, x.shape[0], size=2)
    x[idx] = _val(x, rs)


def r_setitem_ellipsis(x, rs):
    x[...] = _val(x, rs)


def r_setitem_tuple(x, rs):
    idx = tuple(int(rs.randint(0, s)) for s in x.shape)
    x[idx] = _val(x, rs)


def r_iadd(x, rs):
    x += 1


def r_isub(x, rs):
    x -= 1


def r_imul(x, rs):
    x *= 3


def r_itruediv(x, rs):
    if x.dtype.kind != "f":
        raise NotApplicable
    x /= 3.0


def r_ifloordiv(x, rs):
    x //= 2


def r_imod(x, rs):
    x %= 7


def r_ipow(x, rs):
    if x.dtype.kind == "f":
        x **= 2
    else:
        x **= 2


def r_iand(x, rs):
    if x.dtype.kind == "f":
        raise NotApplicable
    x &= 5


def r_ior(x, rs):
    if x.dtype.kind == "f":
        raise NotApplicable
    x |= 2


def r_ixor(x, rs):
    if x.dtype.kind == "f":
        raise NotApplicable
    x ^= 1


def r_ilshift(x, rs):
    if x.dtype.kind == "f":
        raise NotApplicable
    x <<= 1


def r_irshift(x, rs):
    if x.dtype.kind == "f":
        raise NotApplicable
    x >>= 1


def r_imatmul(x, rs):
    if x.ndim != 2 or x.shape[0] != x.shape[1] or x.dtype.kind != "f":
        raise NotApplicable
    x @= np.arange(x.shape[0] * x.shape[1], dtype=x.dtype).reshape(x.shape)


def r_fill(x, rs):
    x.fill(_val(x, rs))


def r_sort(x, rs):
    x.sort(axis=0)


def r_partition(x, rs):
    if x.shape[0] < 2:
        raise NotApplicable
    x.partition(1, axis=0)


def r_put(x, rs):
    x.put([0], [_val(x, rs)])


def r_byteswap(x, rs):
    x.byteswap(True)


def r_ufunc_out(x, rs):
    np.add(x, 1, out=x)


def r_ufunc_out_tuple(x, rs):
    np.multiply(x, 2, out=(x,))


def r_ufunc_out_other_input(x, rs):
    # inputs are plain arrays; only the output is tracked
    np.add(np.ones(x.shape, dtype=x.dtype), np.ones(x.shape, dtype=x.dtype), out=x)


def r_ufunc_at(x, rs):
    np.add.at(x, tuple([0] for _ in x.shape), 1)


def r_ufunc_reduce_out(x, rs):
    if x.ndim != 2:
        raise NotApplicable
    np.add.reduce(np.ones((2,) + (x.shape[1],), dtype=x.dtype), axis=0, out=x[0])


def r_ufunc_reduce_out_direct(x, rs):
    # reduce over a new leading axis straight into x
    np.add.reduce(np.ones((2,) + x.shape, dtype=x.dtype), axis=0, out=x)


def r_ufunc_accumulate_out(x, rs):
    np.maximum.accumulate(x, axis=0, out=x)


def r_ufunc_accumulate_add_out(x, rs):
    np.add.accumulate(x, axis=0, out=x)


def r_ufunc_outer_out(x, rs):
    if x.ndim != 2:
        raise NotApplicable
    np.multiply.outer(np.arange(x.shape[0]).astype(x.dtype), np.ones(x.shape[1], dtype=x.dtype), out=x)


def r_ufunc_reduceat_out(x, rs):
    if x.ndim != 1 or x.shape[0] < 1:
        raise NotApplicable
    np.add.reduceat(np.ones(2 * x.shape[0], dtype=x.dtype), np.arange(0, 2 * x.shape[0], 2), out=x)


def r_method_cumsum_out(x, rs):
    x.cumsum(axis=0, out=x)


def r_method_max_out(x, rs):
    np.ones((2,) + x.shape, dtype=x.dtype).max(axis=0, out=x)


def r_method_sum_out(x, rs):
    (np.ones((3,) + x.shape, dtype=x.dtype) * 2).sum(axis=0, out=x)


def r_method_round_out(x, rs):
    if x.dtype.kind != "f":
        raise NotApplicable
    (x * 1.37).round(1, out=x)


def r_method_dot_out(x, rs):
    if x.ndim != 2 or x.shape[0] != x.shape[1] or x.dtype.kind != "f" or not x.flags["C_CONTIGUOUS"]:
        raise NotApplicable
    (np.eye(x.shape[0]) * 3.0).dot(np.eye(x.shape[0]), out=x)


def r_copyto(x, rs):
    np.copyto(x, _val(x, rs))


def r_np_put(x, rs):
    np.put(x, [0], [_val(x, rs)])


def r_place(x, rs):
    m = np.zeros(x.shape, dtype=bool)
    m.flat[0] = True
    np.place(x, m, [_val(x, rs)])


def r_putmask(x, rs):
    m = np.zeros(x.shape, dtype=bool)
    m.flat[-1] = True
    np.putmask(x, m, _val(x, rs))


def r_fill_diagonal(x, rs):
    if x.ndim != 2:
        raise NotApplicable
    np.fill_diagonal(x, _val(x, rs))


def r_put_along_axis(x, rs):
    idx = np.zeros((1,) + x.shape[1:], dtype=np.int64)
    np.put_along_axis(x, idx, _val(x, rs), axis=0)


def r_clip_out(x, rs):
    np.clip(x, 1, 2, out=x)


def r_method_clip_out(x, rs):
    x.clip(1, 2, out=x)


def r_cumsum_out(x, rs):
    np.cumsum(x, axis=0, out=x)


def r_round_out(x, rs):
    if x.dtype.kind != "f":
        raise NotApplicable
    np.round(x, 0, out=x)


def r_flat_setitem(x, rs):
    x.flat[0] = _val(x, rs)


def r_flat_slice(x, rs):
    x.flat[:] = _val(x, rs)


def r_shuffle(x, rs):
    # in-place permutation of rows by numpy's own Generator
    if x.shape[0] < 2:
        raise NotApplicable
    before = x.tobytes()
    g = np.random.Generator(np.random.PCG64(int(rs.randint(0, 2**31))))
    for _ in range(8):
        g.shuffle(x)
        if x.tobytes() != before:
            break


def r_dot_out(x, rs):
    if x.ndim != 2 or x.shape[0] != x.shape[1] or x.dtype.kind != "f" or not x.flags["C_CONTIGUOUS"]:
        raise NotApplicable
    a = np.eye(x.shape[0]) * 2.0
    np.dot(a, a, out=x)


def r_take_out(x, rs):
    if x.ndim != 1 or not x.flags["C_CONTIGUOUS"]:
        raise NotApplicable
    np.take(np.arange(100, 100 + len(x), dtype=x.dtype), np.arange(len(x)), out=x)


def r_setfield_like_real(x, rs):
    # x.real is a view of the same memory for real dtypes
    x.real[...] = _val(x, rs)


def r_real_setter(x, rs):
    # the attribute setter writes into x itself
    x.real = _val(x, rs)


def r_put_partial_fail(x, rs):
    # an index list whose tail is out of range: numpy writes the head, then raises
    if x.size == 0:
        raise NotApplicable
    x.put([0, x.size + 5], [_val(x, rs), _val(x, rs)])


def r_np_put_partial_fail(x, rs):
    if x.size == 0:
        raise NotApplicable
    np.put(x, [0, x.size + 5], [_val(x, rs), _val(x, rs)])


def r_setitem_object_partial_fail(x, rs):
    # an object array whose last element cannot be converted
    if x.ndim == 0 or x.shape[0] < 2:
        raise NotApplicable
    x[np.array([0, 1])] = np.array([_val(x, rs), "not a number"], dtype=object).reshape((2,) + (1,) * (x.ndim - 1))


def r_flat_held_across_hash(x, rs):
    # the iterator is taken first, the hash is read, then the iterator is written through
    it = x.flat
    x.__hash__()
    it[0] = _val(x, rs)


def _like(x, rs):
    """a plain array of x's shape and dtype with fresh values"""
    if x.dtype.kind == "f":
        return rs.uniform(-99, 99, x.shape).astype(x.dtype)
    return rs.randint(0, 200, x.shape).astype(x.dtype)


def r_dot_out_positional(x, rs):
    if x.ndim != 2 or x.dtype.kind != "f" or not x.flags.c_contiguous:
        raise NotApplicable
    np.dot(_like(x, rs), np.eye(x.shape[1], dtype=x.dtype) * 1.5, x)


def r_concatenate_out_positional(x, rs):
    if x.ndim == 0 or x.shape[0] < 2:
        raise NotApplicable
    a = _like(x, rs)
    np.concatenate((a[:1], a[1:]), 0, x)


def r_choose_out_positional(x, rs):
    if x.ndim == 0:
        raise NotApplicable
    np.choose(np.zeros(x.shape, dtype=np.int64), [_like(x, rs)], x)


def r_argmax_out_positional(x, rs):
    if x.ndim != 1 or x.dtype != np.int64:
        raise NotApplicable
    np.argmax(rs.randint(0, 9, (x.shape[0], 4)), 1, x)


def r_copyto_dst_kw(x, rs):
    np.copyto(dst=x, src=_like(x, rs))


def r_place_arr_kw(x, rs):
    if x.size == 0:
        raise NotApplicable
    np.place(arr=x, mask=np.ones(x.shape, dtype=bool), vals=[_val(x, rs)])


def r_plain_take_out(x, rs):
    # a C method of ANOTHER array (plain) with the tracked array as its out=
    if x.ndim == 0 or not x.flags.c_contiguous:
        raise NotApplicable
    _like(x, rs).take(np.arange(x.shape[0]), axis=0, out=x)


def r_tracked_take_out(x, rs):
    if x.ndim == 0 or not x.flags.c_contiguous:
        raise NotApplicable
    caching.tracked_array(_like(x, rs)).take(np.arange(x.shape[0]), axis=0, out=x)


def r_plain_take_out_clip(x, rs):
    if x.ndim == 0 or not x.flags.c_contiguous:
        raise NotApplicable
    _like(x, rs).take(np.arange(x.shape[0]), axis=0, out=x, mode="clip")


def r_plain_compress_out(x, rs):
    if x.ndim == 0 or not x.flags.c_contiguous:
        raise NotApplicable
    _like(x, rs).compress(np.ones(x.shape[0], dtype=bool), axis=0, out=x)


def r_unbound_setitem(x, rs):
    if x.ndim == 0 or x.shape[0] == 0:
        raise NotApplicable
    np.ndarray.__setitem__(x, 0, _val(x, rs))


class NotApplicable(Exception):
    pass


ROUTES = {
    "setitem_int": r_setitem_int,
    "setitem_neg": r_setitem_neg,
    "setitem_slice": r_setitem_slice,
    "setitem_mask": r_setitem_mask,
    "setitem_fancy": r_setitem_fancy,
    "setitem_ellipsis": r_setitem_ellipsis,
    "setitem_tuple": r_setitem_tuple,
    "iadd": r_iadd,
    "isub": r_isub,
    "imul": r_imul,
    "itruediv": r_itruediv,
    "ifloordiv": r_ifloordiv,
    "imod": r_imod,
    "ipow": r_ipow,
    "iand": r_iand,
    "ior": r_ior,
    "ixor": r_ixor,
    "ilshift": r_ilshift,
    "irshift": r_irshift,
    "imatmul": r_imatmul,
    "fill": r_fill,
    "sort": r_sort,
    "partition": r_partition,
    "put": r_put,
    "byteswap": r_byteswap,
    "ufunc_out": r_ufunc_out,
    "ufunc_out_tuple": r_ufunc_out_tuple,
    "ufunc_out_plain_inputs": r_ufunc_out_other_input,
    "ufunc_at": r_ufunc_at,
    "ufunc_reduce_out": r_ufunc_reduce_out,
    "ufunc_reduce_out_direct": r_ufunc_reduce_out_direct,
    "ufunc_accumulate_out": r_ufunc_accumulate_out,
    "ufunc_accumulate_add_out": r_ufunc_accumulate_add_out,
    "ufunc_outer_out": r_ufunc_outer_out,
    "ufunc_reduceat_out": r_ufunc_reduceat_out,
    "method_cumsum_out": r_method_cumsum_out,
    "method_max_out": r_method_max_out,
    "method_sum_out": r_method_sum_out,
    "method_round_out": r_method_round_out,
    "method_dot_out": r_method_dot_out,
    "copyto": r_copyto,
    "np_put": r_np_put,
    "place": r_place,
    "putmask": r_putmask,
    "fill_diagonal": r_fill_diagonal,
    "put_along_axis": r_put_along_axis,
    "clip_out": r_clip_out,
    "method_clip_out": r_method_clip_out,
    "cumsum_out": r_cumsum_out,
    "round_out": r_round_out,
    "flat_setitem": r_flat_setitem,
    "flat_slice": r_flat_slice,
    "shuffle": r_shuffle,
    "dot_out": r_dot_out,
    "take_out": r_take_out,
    "real_setitem": r_setfield_like_real,
    "real_setter": r_real_setter,
    "put_partial_fail": r_put_partial_fail,
    "np_put_partial_fail": r_np_put_partial_fail,
    "setitem_object_partial_fail": r_setitem_object_partial_fail,
    "flat_held_across_hash": r_flat_held_across_hash,
    "dot_out_positional": r_dot_out_positional,
    "concatenate_out_positional": r_concatenate_out_positional,
    "choose_out_positional": r_choose_out_positional,
    "argmax_out_positional": r_argmax_out_positional,
    "copyto_dst_kw": r_copyto_dst_kw,
    "place_arr_kw": r_place_arr_kw,
    "plain_take_out": r_plain_take_out,
    "tracked_take_out": r_tracked_take_out,
    "plain_take_out_clip": r_plain_take_out_clip,
    "plain_compress_out": r_plain_compress_out,
}
ROUTE_NAMES = sorted(ROUTES)

READONLY = {
    "sum": lambda x: x.sum(),
    "copy": lambda x: x.copy(),
    "add": lambda x: x + 1,
    "np_sort": lambda x: np.sort(x, axis=0),
    "tolist": lambda x: x.tolist(),
    "slice": lambda x: x[:1],
    "astype": lambda x: x.astype(np.float32),
    "mean": lambda x: x.mean(axis=0) if x.size else None,
    "asarray": lambda x: np.asarray(x),
    "hash_twice": lambda x: (hash(x), hash(x)),
    "tobytes": lambda x: x.tobytes(),
    "max": lambda x: x.max() if x.size else None,
    "dot": lambda x: np.dot(x.T, x) if x.ndim == 2 else None,
    "repr": lambda x: repr(x),
    "eq": lambda x: (x == x).all(),
}
RO_NAMES = sorted(READONLY)


def fresh_hash(x):
    return caching.hash_fast(np.asarray(x).tobytes(order="C"))


def verify(pool, which, where, route_info):
    for i in which:
        x = pool[i]
        if not isinstance(x, caching.TrackedArray):
            continue
        got = x.__hash__()
        want = fresh_hash(x)
        if got != want:
            rel = "root" if i == 0 else "derived"
            raise Violation(
                f"C02.program|stale|route={route_info['route']}|target={route_info['target']}|stale_on={rel}",
                f"{where}: pool[{i}] hash {got} != fresh {want}; last mutation {route_info}",
            )


def target_kind(pool, meta, i):
    return meta[i]


@body("C02.program")
def b_program(case, ctx):
    with np.errstate(all="ignore"):
        try:
            _program(case, ctx, False)
        except Violation as v:
            # attribute the staleness to the step that caused it: re-run the (deterministic) program
            # verifying every member after every step; the first failing step names the route
            try:
                _program(case, _NullCtx(), True)
            except Violation as v2:
                raise v2
            raise Violation(v.sig + "|unlocalised", v.msg)


class _NullCtx:
    def note(self, *a, **k):
        pass


def _program(case, ctx, full):
    root = make_root(case["kind"], case["n"], case["seed"])
    pool = [root]
    meta = ["root"]  # root / view:<kind> / viewview / copy
    clean = set()  # members whose hash was read since their bytes last changed (approximation for non-triviality)
    last = {"route": "none", "target": "none"}
    nontrivial = False
    classes = []
    for si, step in enumerate(case["steps"]):
        op = step[0]
        if op == "hash":
            i = step[1] % len(pool)
            verify(pool, [i], f"step {si} hash", last)
            clean.add(i)
        elif op == "view":
            i = step[1] % len(pool)
            v = mk_view(pool[i], step[2], step[3])
            if v is None or not isinstance(v, np.ndarray) or v.ndim == 0:
                continue
            if len(pool) < 6:
                shares = np.shares_memory(v, pool[i])
                pool.append(v)
                if not shares:
                    meta.append("copy")
                elif meta[i] == "root":
                    meta.append("view")
                else:
                    meta.append("viewview" if meta[i] != "copy" else "view_of_copy")
        elif op == "mut":
            i = step[1] % len(pool)
            x = pool[i]
            if x.size == 0 or not x.flags.writeable:
                continue
            rs = np.random.RandomState(step[3])
            before = [p.tobytes() for p in pool]
            try:
                ROUTES[step[2]](x, rs)
            except NotApplicable:
                continue
            except (TypeError, ValueError, IndexError) as e:
                # numpy refused the operation for this dtype/shape (e.g. casting float result into ints):
                # nothing may have changed
                after = [p.tobytes() for p in pool]
                if after == before:
                    continue
            last = {"route": step[2], "target": meta[i]}
            after = [p.tobytes() for p in pool]
            changed = [k for k in range(len(pool)) if after[k] != before[k]]
            if any(k in clean for k in changed):
                nontrivial = True
                classes.append(f"route:{step[2]}")
                classes.append(f"target:{meta[i]}")
            for k in changed:
                clean.discard(k)
            # check the drawn subset of members
            sel = range(len(pool)) if full else [k % len(pool) for k in step[4]]
            verify(pool, sel, f"step {si} after {step[2]} on pool[{i}]({meta[i]})", last)
            clean.update(sel)
        elif op == "ro":
            i = step[1] % len(pool)
            before = [p.tobytes() for p in pool]
            READONLY[step[2]](pool[i])
            after = [p.tobytes() for p in pool]
            if before != after:
                raise Violation("C02.program|harness|readonly_changed_bytes", step[2])
            sel = range(len(pool)) if full else [k % len(pool) for k in step[3]]
            verify(pool, sel, f"step {si} after read-only {step[2]}", last)
            clean.update(sel)
    verify(pool, range(len(pool)), "end of program", last)
    ctx.note(nontrivial=nontrivial, cls=classes[:6] or ["no_effective_mutation"])


@body("C02.table")
def b_table(case, ctx):
    """route x target depth x which member was hashed before (enumerated)"""
    with np.errstate(all="ignore"):
        root = make_root(case["kind"], 5, 7)
        chain = [root]
        for vk in case["views"]:
            v = mk_view(chain[-1], vk, 3)
            if v is None or v.ndim == 0 or v.size == 0:
                return
            chain.append(v)
        target = chain[-1]
        if not target.flags.writeable:
            return
        for i in case["hash_before"]:
            if i < len(chain):
                hash(chain[i])
        rs = np.random.RandomState(5)
        before = [c.tobytes() for c in chain]
        try:
            ROUTES[case["route"]](target, rs)
        except NotApplicable:
            return
        except (TypeError, ValueError, IndexError):
            if [c.tobytes() for c in chain] == before:
                return
        after = [c.tobytes() for c in chain]
        tname = ["root", "view", "viewview"][len(chain) - 1]
        ctx.note(nontrivial=after != before, cls=f"table:{tname}")
        verify(chain, range(len(chain)), "table", {"route": case["route"], "target": tname})


# ------------------------------------------------------------------ container level


def _fresh_mesh_hash(m):
    f = trimesh.Trimesh(np.array(m.vertices, dtype=np.float64).copy(), np.array(m.faces, dtype=np.int64).copy(), process=False)
    return f.__hash__()


@body("C02.mesh")
def b_mesh(case, ctx):
    try:
        _mesh(case, ctx, False)
    except Violation as v:
        if not any(t in v.sig for t in ("|stale|", "|array_stale|", "|store_stale|")):
            raise
        # localise: re-run with a hash check after every single mutation, so that the mutation which left the hash
        # stale is named (whatever was or was not hashed in between in the original program)
        try:
            _mesh(case, _NullCtx(), True)
        except Violation as v2:
            raise v2
        raise Violation(v.sig + "|unlocalised", v.msg)


def _holder_fresh_hash(o):
    if isinstance(o, trimesh.Trimesh):
        return _fresh_mesh_hash(o)
    return trimesh.PointCloud(np.array(o.vertices, dtype=np.float64).copy()).__hash__()


def _mesh(case, ctx, full):
    with np.errstate(all="ignore"):
        rs0 = np.random.RandomState(case["seed"])
        nv, nf = 6, 4
        V = rs0.uniform(-1, 1, (nv, 3))
        F = rs0.randint(0, nv, (nf, 3)).astype(np.int64)
        m = trimesh.Trimesh(V.copy(), F.copy(), process=False)
        held = {}
        # mutations not yet followed by a hash read that came out right, per stored array: a stale hash is attributed
        # to the OLDEST of them (a later, innocent mutation of the other array must not take the blame)
        pending = {"v": [], "f": []}

        def blame(which="vf"):
            c = [(i, lab) for w in which for i, lab in pending[w]]
            return min(c)[1] if c else held.get("last", "none")

        others = []  # further holders built on the very same array objects
        nontrivial = False
        cls = []

        def check_all(si, where):
            for k, o in enumerate([m] + others):
                h = o.__hash__()
                want = _holder_fresh_hash(o)
                who = "mesh" if k == 0 else f"sharing_{type(o).__name__}"
                extra = "" if k == 0 else f"|holder={type(o).__name__}"
                check(h == want, f"C02.mesh|stale|after={blame()}{extra}", f"{where} {si}: hash({who}) {h} != fresh {want}; array-level reads since the edit: {held.get('array_reads', 0)}")
            pending["v"].clear()
            pending["f"].clear()

        for si, step in enumerate(case["steps"]):
            op = step[0]
            arr = m.vertices if step[1] == "v" else m.faces
            if op == "hash":
                level = step[2] if len(step) > 2 else "mesh"
                if level == "array":
                    # reading the hash of one member must not hide the edit from the container
                    got, want = arr.__hash__(), fresh_hash(arr)
                    check(got == want, f"C02.mesh|array_stale|after={blame(step[1])}", f"step {si}: hash(array) {got} != fresh {want}")
                    pending[step[1]].clear()
                    if not held.get("clean", True):
                        held["array_reads"] = held.get("array_reads", 0) + 1
                        cls.append("mesh:array_hash_read_between_edit_and_container_hash")
                    continue
                if level == "store":
                    got = m._data.__hash__()
                    want = trimesh.Trimesh(np.array(m.vertices).copy(), np.array(m.faces).copy(), process=False)._data.__hash__()
                    check(got == want, f"C02.mesh|store_stale|after={blame()}", f"step {si}: hash(DataStore) {got} != fresh {want}")
                check_all(si, "step")
                held["clean"] = True
                held["array_reads"] = 0
            elif op == "hold":
                # keep a view of the stored array across later steps
                v = mk_view(arr, step[2], step[3])
                if v is not None and isinstance(v, np.ndarray) and v.ndim and np.shares_memory(v, arr):
                    held["view"] = v
                    held["view_of"] = step[1]
            elif op == "reassign":
                # the same array object goes through the property setter again; the handle taken before stays in use
                held["handle"] = arr
                how = step[2]
                if step[1] == "v":
                    if how == "iadd":
                        m.vertices += 0.5
                    else:
                        m.vertices = arr
                else:
                    if how == "iadd":
                        m.faces += 1
                    else:
                        m.faces = arr
                if how == "iadd":
                    held["last"] = "reassign_iadd:stored"
                    held["clean"] = False
                cls.append(f"mesh:reassign:{how}")
            elif op == "share":
                if len(others) < 2:
                    if step[2] == "trimesh":
                        others.append(trimesh.Trimesh(vertices=m.vertices, faces=m.faces, process=False))
                    else:
                        others.append(trimesh.PointCloud(m.vertices))
                    cls.append(f"mesh:share:{step[2]}")
            elif op == "mut":
                tgt = arr
                tname = "stored"
                if step[4] == 2 and "handle" in held and held["handle"].dtype == arr.dtype and held["handle"].flags.writeable:
                    tgt = held["handle"]
                    tname = "old_handle"
                elif step[4] == 1 and "view" in held and held["view"].size and held["view"].flags.writeable:
                    tgt = held["view"]
                    tname = "held_view"
                if step[1] == "f" and tgt.dtype.kind != "i":
                    continue
                b4 = (m.vertices.tobytes(), m.faces.tobytes())
                try:
                    ROUTES[step[2]](tgt, np.random.RandomState(step[3]))
                except NotApplicable:
                    continue
                except (TypeError, ValueError, IndexError):
                    if (m.vertices.tobytes(), m.faces.tobytes()) == b4:
                        continue
                if (m.vertices.tobytes(), m.faces.tobytes()) != b4 and held.get("clean"):
                    nontrivial = True
                    cls.append(f"mesh_route:{step[2]}:{tname}")
                    if others:
                        cls.append("mesh:edit_with_sharing_holder")
                    if tname == "old_handle":
                        cls.append("mesh:edit_through_handle_taken_before_reassign")
                held["last"] = f"{step[2]}:{tname}"
                pending[held.get("view_of", step[1]) if tname == "held_view" else step[1]].append((si, held["last"]))
                held["clean"] = False
                if full:
                    check_all(si, "step")
        check_all("end", "at")
        pending["v"].clear(); pending["f"].clear()
        h = m.__hash__()
        # equal arrays hash equal; hash is stable under read-only use
        m2 = trimesh.Trimesh(m.vertices.copy(), m.faces.copy(), process=False)
        check(m2.__hash__() == h, "C02.mesh|equal_arrays_hash_equal", "")
        # read-only use (faces may hold arbitrary integers after the edits, so nothing that indexes with them)
        _ = m.copy(), m.vertices.sum(), m.vertices + 1, m.faces.max() if len(m.faces) else 0, m.vertices[1:].copy()
        check(m.__hash__() == h, "C02.mesh|readonly_changes_hash", "")
        ctx.note(nontrivial=nontrivial, cls=sorted(set(cls))[:8] or ["mesh:no_effective_mutation"])


@body("C02.containers")
def b_containers(case, ctx):
    """path / scene / visual hashes follow edits of their arrays by a drawn route"""
    with np.errstate(all="ignore"):
        route = case["route"]
        rs = np.random.RandomState(case["seed"])
        which = case["which"]
        via_view = case["via_view"]
        ctx.note(nontrivial=True, cls=[f"container:{which}:{'view' if via_view else 'stored'}"] + (["container:array_hash_first"] if case.get("array_first") else []))

        def apply(arr):
            tgt = arr
            if via_view:
                v = arr[1:] if arr.shape[0] > 1 else arr[:]
                tgt = v
            return tgt

        if which == "path":
            p = trimesh.load_path(np.array([[[0, 0], [1, 0]], [[1, 0], [1, 1]], [[1, 1], [0, 0]]], dtype=np.float64))
            tgt = apply(p.vertices)
            h0 = p.__hash__()
            b4 = p.vertices.tobytes()
            try:
                ROUTES[route](tgt, rs)
            except NotApplicable:
                return
            except (TypeError, ValueError, IndexError):
                if p.vertices.tobytes() == b4:
                    return
            changed = p.vertices.tobytes() != b4
            if case.get("array_first"):
                p.vertices.__hash__()
            h1 = p.__hash__()
            check((h1 != h0) == changed, f"C02.containers|path|route={route}|view={via_view}", f"bytes changed={changed} but hash changed={h1 != h0}")
        elif which == "scene":
            m = trimesh.Trimesh(rs.uniform(-1, 1, (5, 3)), [[0, 1, 2], [2, 3, 4]], process=False)
            s = trimesh.Scene([m])
            h0 = s.__hash__()
            tgt = apply(m.vertices)
            b4 = m.vertices.tobytes()
            try:
                ROUTES[route](tgt, rs)
            except NotApplicable:
                return
            except (TypeError, ValueError, IndexError):
                if m.vertices.tobytes() == b4:
                    return
            changed = m.vertices.tobytes() != b4
            if case.get("array_first"):
                m.vertices.__hash__()
            h1 = s.__hash__()
            check((h1 != h0) == changed, f"C02.containers|scene|route={route}|view={via_view}", f"bytes changed={changed} but hash changed={h1 != h0}")
        elif which in ("face_colors", "vertex_colors"):
            m = trimesh.Trimesh(rs.uniform(-1, 1, (5, 3)), [[0, 1, 2], [2, 3, 4], [0, 2, 4]], process=False)
            if which == "face_colors":
                m.visual.face_colors = rs.randint(0, 255, (3, 4)).astype(np.uint8)
                arr = m.visual.face_colors
            else:
                m.visual.vertex_colors = rs.randint(0, 255, (5, 4)).astype(np.uint8)
                arr = m.visual.vertex_colors
            if not isinstance(arr, caching.TrackedArray):
                return
            h0 = m.visual.__hash__()
            tgt = apply(arr)
            b4 = arr.tobytes()
            try:
                ROUTES[route](tgt, rs)
            except NotApplicable:
                return
            except (TypeError, ValueError, IndexError):
                if arr.tobytes() == b4:
                    return
            arr2 = m.visual.face_colors if which == "face_colors" else m.visual.vertex_colors
            changed = arr2.tobytes() != b4
            if case.get("array_first") and hasattr(arr2, "__hash__"):
                arr2.__hash__()
            h1 = m.visual.__hash__()
            check((h1 != h0) == changed, f"C02.containers|{which}|route={route}|view={via_view}", f"bytes changed={changed} but hash changed={h1 != h0}")


# ------------------------------------------------------------------ strategies


@st.composite
def program(draw):
    kind = draw(st.sampled_from(sorted(KINDS)))
    n = draw(st.integers(1, 6))
    nsteps = draw(st.integers(2, 14))
    steps = []
    sel = st.lists(st.integers(0, 5), min_size=0, max_size=3)
    for _ in range(nsteps):
        t = draw(st.sampled_from(["hash", "hash", "view", "mut", "mut", "mut", "ro"]))
        i = draw(st.integers(0, 5))
        if t == "hash":
            steps.append(["hash", i])
        elif t == "view":
            steps.append(["view", i, draw(st.sampled_from(VIEW_KINDS)), draw(st.integers(0, 1000))])
        elif t == "mut":
            steps.append(["mut", i, draw(st.sampled_from(ROUTE_NAMES)), draw(st.integers(0, 10**6)), draw(sel)])
        else:
            steps.append(["ro", i, draw(st.sampled_from(RO_NAMES)), draw(sel)])
    return {"kind": kind, "n": n, "seed": draw(st.integers(0, 10**6)), "steps": steps}


@st.composite
def mesh_program(draw):
    steps = []
    for _ in range(draw(st.integers(2, 10))):
        t = draw(st.sampled_from(["hash", "hash", "hold", "mut", "mut", "mut", "reassign", "share"]))
        w = draw(st.sampled_from(["v", "f"]))
        if t == "hash":
            steps.append(["hash", w, draw(st.sampled_from(["mesh", "mesh", "array", "array", "store"]))])
        elif t == "hold":
            steps.append(["hold", w, draw(st.sampled_from(["rows", "col", "row", "T", "reshape", "ravel", "ellipsis", "rev", "chain_rows_rows", "chain_T_row", "chain_reshape_step", "chain_rows_col"])), draw(st.integers(0, 1000))])
        elif t == "reassign":
            steps.append(["reassign", w, draw(st.sampled_from(["same", "iadd"]))])
        elif t == "share":
            steps.append(["share", w, draw(st.sampled_from(["trimesh", "pointcloud"]))])
        else:
            steps.append(["mut", w, draw(st.sampled_from(ROUTE_NAMES)), draw(st.integers(0, 10**6)), draw(st.sampled_from([0, 0, 1, 2]))])
    return {"seed": draw(st.integers(0, 10**6)), "steps": steps}


def table_cases():
    views1 = ["rows", "col", "row", "T", "reshape", "ravel", "viewT", "ellipsis", "rev", "step", "newaxis", "swapaxes", "chain_rows_rows", "chain_T_row", "chain_reshape_step", "chain_rows_col"]
    for kind in sorted(KINDS):
        for route in ROUTE_NAMES:
            for hb in ([], [0], [1], [0, 1], [0, 1, 2], [2]):
                yield {"kind": kind, "route": route, "views": [], "hash_before": hb}
                for v1 in views1:
                    yield {"kind": kind, "route": route, "views": [v1], "hash_before": hb}
                for v1, v2 in (("chain_rows_rows", "col"), ("chain_T_row", "rows"), ("rows", "col"), ("T", "rows"), ("reshape", "rows"), ("rows", "row"), ("viewT", "rows"), ("rows", "rows"), ("ellipsis", "T")):
                    yield {"kind": kind, "route": route, "views": [v1, v2], "hash_before": hb}


def container_cases():
    for which in ("path", "scene", "face_colors", "vertex_colors"):
        for route in ROUTE_NAMES:
            for via in (False, True):
                for seed in (1, 2):
                    # seed 2: the edited array's own hash is read before the container's
                    yield {"which": which, "route": route, "via_view": via, "seed": seed, "array_first": seed == 2}


@subcheck("C02", "program", shards={"quick": 6, "thorough": 16})
def s_program(ctx):
    ctx.given("C02.program", program(), n={"quick": 6000, "thorough": 200000})


@subcheck("C02", "table", shards={"quick": 4, "thorough": 4})
def s_table(ctx):
    ctx.enumerate("C02.table", table_cases(), label="route_x_target_x_hashed_before")


@subcheck("C02", "mesh", shards={"quick": 4, "thorough": 12})
def s_mesh(ctx):
    ctx.given("C02.mesh", mesh_program(), n={"quick": 2500, "thorough": 60000})


@subcheck("C02", "containers", shards={"quick": 2, "thorough": 2})
def s_containers(ctx):
    ctx.enumerate("C02.containers", container_cases(), label="container_x_route_x_view")


REQUIRED_CLASSES["C02"] = ["table:root", "table:view", "table:viewview", "target:view", "target:root", "mesh:array_hash_read_between_edit_and_container_hash",
                           "mesh:edit_with_sharing_holder", "mesh:edit_through_handle_taken_before_reassign", "mesh:reassign:iadd"]
