"""C14 — planar paths rebuild the same regions from segments in any order, under transforms and round trips."""

import io
import math

import numpy as np
from hypothesis import strategies as st

import trimesh
from trimesh.path import Path2D
from trimesh.path.entities import Arc, Line
from trimesh.path.exchange.misc import dict_to_path

from ..core import ASSUMPTIONS, REQUIRED_CLASSES, RULES, Violation, body, check, subcheck
from ..gen import c14_drawings as gd
from ..gen import c14_lattice as gl
from ..gen import matrices as gm

RULES["C14"] = (
    "Drawings are constructed, not filtered: a gx x gy grid of cells (size 1e-3..1e3, optional offset), each cell a tree "
    "(depth<=4, <=3 children per curve, <=14 curves) of simple closed curves given in polar form about a region centre: star "
    "polygons (jittered sorted angles, radii in a band), closed 3-point Arc circles, 'round' curves (nodes on a circle joined "
    "by chords or centred 3-point arcs with off-centre mid points) and 'bulge' curves (star polygon edges replaced by arcs of "
    "sagitta +-8..60% of the half chord, kept only if the polar angle stays monotone); children live in disjoint discs inside "
    "the largest centred disc contained in the parent. A variant cuts every curve at random nodes into Line/Arc entities, "
    "reverses entities independently, permutes entities and vertex numbering and either shares joint vertices or duplicates "
    "them (merged by the constructor or by process()). Oracle from the construction: curve count, body_count = even-depth "
    "curves, shell->holes map, area = sum (-1)^depth (shoelace + signed circular segments), length = sum chords + r|phi|; "
    "polygons matched by bounds, area and centroid checked per curve; every Arc entity must discretise onto the circumcircle of its three points. Transforms: similarity / mirror 3x3 matrices, any subset of 9 derived values read before each "
    "of up to two transforms, compared with a cold path built from fresh entities on M.V. Round trips through dxf, svg, dict. "
    "A second family draws NON-CONVEX rectilinear curves on an integer lattice (exact coordinates origin + 2^k * integer): a "
    "coarse grid is partitioned into simply connected polyominoes (templates U/C/comb/spirals/clip-on-prong/trident, or random "
    "snake-like growth), a region at depth d is the union of its cells moved inwards by d+1 units, children are sub-sets of the "
    "parent's cells (same set = pocket following the channel, or pieces of a split): concave holes in concave shells whose "
    "centroid lies outside the shell, and neighbours interleaved without nesting (inside the bounding box of / around the "
    "centroid of another curve); areas and lengths are exact integers times 2^k. "
    "Arc middle control points lie anywhere in 5%..95% of the span, spans reach 1.9 pi; drawings are made in place up to 1e6 sizes "
    "away from the origin, or moved 1e4..2e5 sizes away before a round trip. "
    "Non-trivial: >=2 curves with nesting, >=1 curve in >=2 entities, >=1 entity reversed."
)
ASSUMPTIONS["C14"] = [
    "shapely area / bounds / centroid of a valid ring are trusted (tolerance 1e-9 relative plus 64 eps n |c| diag conditioning)",
    "lengths: 1e-9 relative plus 8 eps |c| per chord end and per arc times the conditioning of its circumcircle (3/shortest edge + 2/height of the control triangle)",
    "arc discretisation follows the documented res.seg_angle=0.08 and >=4 points rule: discretised area within sum r^2/2(phi - m sin(phi/m)) of the exact value",
    "polygons are matched to constructed curves by bounding box (curves are separated by >=1.5% of their region radius by construction)",
    "dxf stores 12 significant digits (%.12g), svg 13 decimals (0.13f) and the arc radius exactly, dict stores float64 exactly",
    "Path.apply_transform documents that a matrix within 1e-8 of the identity is ignored: such a step is left out of the expected product",
    "Path.merge_vertices (constructor default, process(), every loader) rounds to a grid of up to 1e-4 x AABB diagonal (tol_path.merge=1e-5): regions smaller than 2% of a cell are not generated and a drawing whose closest control points are nearer than 2.9e-4 x scale is only built with process=False and not reloaded",
    "duplicated joints are exact copies (merge_vertices rounds to a grid: nearly-equal points may 'go either way', documented in grouping.float_to_int)",
]

EPS = np.finfo(np.float64).eps
READS = ["paths", "discrete", "polygons_closed", "polygons_full", "root", "enclosure_directed", "area", "length", "bounds"]


class Deferred:
    """collects violations whose root cause is independent of the rest of the body so that everything is checked;
    the first one that is not a listed known finding is raised at the end"""

    def __init__(self, ctx):
        self.ctx = ctx
        self.items = []

    def check(self, cond, sig, msg=""):
        if not cond:
            self.items.append((sig, msg() if callable(msg) else msg))

    def flush(self):
        for sig, msg in self.items:
            if self.ctx.is_known(sig) is None:
                raise Violation(sig, msg)
        if self.items:
            raise Violation(*self.items[0])


def ring_stats(poly):
    b = np.array(poly.bounds, dtype=np.float64).reshape((2, 2))
    c = np.array(poly.centroid.coords[0], dtype=np.float64)
    return float(poly.area), b, c


def pos_tol(D, cur=None):
    """tolerance for a position (bounds, centroid) of one curve / of the drawing: 1e-9 of its own size plus the resolution
    of the stored coordinates (eps |c|, times up to ~1e3 for the conditioning of a circumcentre)"""
    diag = D.scale if cur is None else float(np.hypot(*(cur.bounds[1] - cur.bounds[0])))
    return 1e-9 * diag + 4096 * EPS * D.cmax


def cond_atol(D, cur, npts):
    diag = float(np.hypot(*(cur.bounds[1] - cur.bounds[0])))
    return 64 * EPS * max(npts, 8) * max(D.cmax, diag) * diag


def match_curves(D, boxes, sig, extra_tol=0.0):
    """boxes: list of (2,2) bounds -> list of oracle curve index per box; every curve exactly once"""
    out = []
    used = set()
    for k, b in enumerate(boxes):
        hits = []
        for i, cur in enumerate(D.curves):
            _, db = cur.disc_tol()
            tol = pos_tol(D, cur) + 1.01 * db + extra_tol
            if np.abs(b - cur.bounds).max() <= tol:
                hits.append(i)
        check(len(hits) == 1, sig + "|polygon_unmatched", lambda: f"polygon {k} with bounds {b.tolist()} matches constructed curves {hits} (expected exactly one) of {[c.bounds.tolist() for c in D.curves]}")
        check(hits[0] not in used, sig + "|polygon_duplicate", f"curve {hits[0]} produced twice")
        used.add(hits[0])
        out.append(hits[0])
    return out


def check_arc_entities(p):
    """Every Arc entity discretises to points ON the circle through its three control points, running monotonically from
    one end point through the mid point to the other (independent circumcircle, no trimesh code)."""
    V = np.asarray(p.vertices, dtype=np.float64)
    scale = float(p.scale)
    for k, e in enumerate(p.entities):
        if not isinstance(e, Arc):
            continue
        A, M, B = V[e.points]
        v1, v2 = M - A, B - M
        cross = abs(v1[0] * v2[1] - v1[1] * v2[0])
        # util.unitize treats |v| <= 1e-13 (absolute) as zero: arcs whose chord cross product is that small are their own class
        label = "abs_small" if cross < 1e-12 else "regular"
        c, r, a0, phi = gd.arc_params(A, M, B)
        d = np.asarray(e.discrete(V, scale=scale), dtype=np.float64)
        rel = float(np.abs(np.hypot(*(d - c).T) - r).max() / r)
        tol = 1e-6 + 1e4 * EPS * (np.abs(c).max() + r) / r
        check(rel <= tol, f"C14.draw|arc_discrete|off_circle|{label}", lambda: f"Arc entity {k} through {A.tolist()} {M.tolist()} {B.tolist()} (r={r:.6g}, |chord x chord|={cross:.3g}): discrete points deviate from the circle by {rel:.3g} r")
        if np.hypot(*(d[0] - A)) > np.hypot(*(d[0] - B)):
            d = d[::-1]
        th = np.unwrap(np.arctan2(d[:, 1] - c[1], d[:, 0] - c[0]))
        total = th[-1] - th[0]
        if e.closed:
            check(abs(abs(total) - 2 * math.pi) <= 1e-6 and (np.diff(th) * np.sign(total) > 0).all(), f"C14.draw|arc_discrete|circle_sweep|{label}", f"closed Arc {k}: discrete sweep {total!r}")
        else:
            ends = max(np.hypot(*(d[0] - A)), np.hypot(*(d[-1] - B)))
            check(ends <= 1e-9 * max(scale, r), f"C14.draw|arc_discrete|end_points|{label}", f"Arc {k}: discrete ends are {ends:.3g} away from the control end points")
            check(abs(total - phi) <= 1e-6 and (np.diff(th) * np.sign(phi) > 0).all(), f"C14.draw|arc_discrete|sweep|{label}", lambda: f"Arc {k}: discrete sweep {total!r} vs arc through the mid point {phi!r}")


def analyse(p, D, sig, dfr, arcs_label, ext=None):
    """Check path `p` against the constructed drawing D. `ext` = dict(delta=per-vertex displacement allowed by a storage
    format, area=extra area slack, length=extra length slack) for re-imported paths. Returns a fingerprint for comparisons."""
    ext = ext or {"delta": 0.0, "area": 0.0, "length": 0.0}
    n = D.n
    check(bool(p.is_closed), sig + "|is_closed", "every curve is closed but is_closed is False")
    paths = p.paths
    check(len(paths) == n, sig + "|path_count", f"{len(paths)} closed paths, constructed {n} closed curves")
    covered = sorted(int(e) for path in paths for e in path)
    check(covered == list(range(len(p.entities))), sig + "|paths_partition", f"entities in paths {covered} != all {len(p.entities)} entities")
    check(len(p.dangling) == 0, sig + "|dangling", f"dangling {list(p.dangling)}")
    check_arc_entities(p)
    disc = p.discrete
    check(len(disc) == n, sig + "|discrete_count", f"{len(disc)}")
    closed = p.polygons_closed
    check(len(closed) == n and all(c is not None for c in closed), sig + "|polygons_closed_missing", lambda: f"{[c is not None for c in closed]}")
    stats = [ring_stats(c) for c in closed]
    idx = match_curves(D, [s[1] for s in stats], sig, extra_tol=2 * ext["delta"])
    inv = {ci: k for k, ci in enumerate(idx)}
    fp = {"curves": [None] * n}
    for k, ci in enumerate(idx):
        cur = D.curves[ci]
        d = np.asarray(disc[k], dtype=np.float64)
        # discrete curve: closed, no repeated consecutive point, polygonal curve has exactly its nodes
        seg = np.hypot(*(np.diff(d, axis=0).T))
        tiny = 1e-9 * D.scale
        check(np.hypot(*(d[0] - d[-1])) <= tiny, sig + "|discrete_open", f"curve {ci}: first/last {d[0].tolist()} {d[-1].tolist()}")
        nodup = seg[:-1] if cur.kind == "circle" else seg  # a closed circle ends 1 ulp from its start, the ring is closed by shapely
        check((nodup > tiny).all(), sig + "|discrete_repeated_point", lambda: f"curve {ci}: {int((nodup <= tiny).sum())} zero-length segments in the discrete curve of {len(d)} points")
        if not cur.has_arc and ext["delta"] == 0.0:
            check(len(d) == len(cur.nodes) + 1, sig + "|discrete_len", f"curve {ci}: polygon with {len(cur.nodes)} nodes discretised to {len(d)} points")
        a, b, c = stats[k]
        da, db = cur.disc_tol()
        npts = len(d)
        atol = cond_atol(D, cur, npts) + ext["area"]
        check(abs(a - cur.area) <= 1e-9 * cur.area + atol + 1.01 * da, sig + f"|curve_area|{'arc' if cur.has_arc else 'poly'}", lambda: f"curve {ci} ({cur.kind}): polygon area {a!r} vs exact {cur.area!r} (discretisation slack {da:.3g})")
        # centroid: exact for polygons, from a 1500-point-per-arc reference otherwise; an inscribed discretisation moves it
        # by at most (lost area / area) * diameter
        diag = float(np.hypot(*(cur.bounds[1] - cur.bounds[0])))
        ctol = pos_tol(D, cur) + 2.0 * (1.01 * da + atol) / cur.area * diag + 2 * ext["delta"]
        check(np.abs(c - cur.centroid).max() <= ctol, sig + f"|curve_centroid|{'arc' if cur.has_arc else 'poly'}", lambda: f"curve {ci} ({cur.kind}): polygon centroid {c.tolist()} vs constructed {np.asarray(cur.centroid).tolist()} (tol {ctol:.3g})")
        fp["curves"][ci] = (a, b, c, npts)
    # roots / body count / nesting
    want_roots = sorted(i for i, cur in enumerate(D.curves) if cur.depth % 2 == 0)
    got_roots = sorted(idx[int(r)] for r in p.root)
    check(got_roots == want_roots, sig + "|root", f"root curves {got_roots} vs even-depth curves {want_roots}")
    check(int(p.body_count) == D.body_count, sig + "|body_count", f"{p.body_count} vs {D.body_count}")
    want_edges = sorted((cur.parent, i) for i, cur in enumerate(D.curves) if cur.depth % 2 == 1)
    enc = p.enclosure_directed
    got_edges = sorted((idx[int(u)], idx[int(v)]) for u, v in enc.edges())
    check(got_edges == want_edges, sig + "|enclosure_edges", f"shell->hole edges {got_edges} vs constructed {want_edges}")
    for r in p.root:
        kids = sorted(idx[int(v)] for v in enc[int(r)].keys())
        want = sorted(c for c in D.curves[idx[int(r)]].children)
        check(kids == want, sig + "|enclosure_children", f"shell {idx[int(r)]}: holes {kids} vs {want}")
    # full polygons
    full = p.polygons_full
    check(len(full) == D.body_count, sig + "|polygons_full_count", f"{len(full)} vs {D.body_count}")
    seen = set()
    fp["full"] = {}
    for f in full:
        check(f is not None and f.geom_type == "Polygon", sig + "|polygons_full_type", f"{type(f)}")
        eb = np.array(f.exterior.bounds).reshape((2, 2))
        shell = match_one(D, eb, sig + "|polygons_full_shell", 2 * ext["delta"])
        check(D.curves[shell].depth % 2 == 0 and shell not in seen, sig + "|polygons_full_shell", f"exterior is curve {shell} (depth {D.curves[shell].depth})")
        seen.add(shell)
        holes = sorted(match_one(D, np.array(r.bounds).reshape((2, 2)), sig + "|polygons_full_hole", 2 * ext["delta"]) for r in f.interiors)
        want = sorted(D.curves[shell].children)
        check(holes == want, sig + "|polygons_full_holes", f"shell {shell}: interiors {holes} vs constructed holes {want}")
        wa = fp["curves"][shell][0] - sum(fp["curves"][h][0] for h in holes)
        check(abs(float(f.area) - wa) <= 1e-9 * abs(wa) + sum(cond_atol(D, D.curves[j], fp["curves"][j][3]) for j in [shell] + holes), sig + "|polygons_full_area", f"shell {shell}: {f.area!r} vs shell-holes {wa!r}")
        fp["full"][shell] = (float(f.area), holes)
    # totals
    da_tot = sum(c.disc_tol()[0] for c in D.curves)
    a_tol = 1e-9 * sum(c.area for c in D.curves) + sum(cond_atol(D, c, fp["curves"][i][3]) for i, c in enumerate(D.curves)) + 1.01 * da_tot + ext["area"] * n
    area = float(p.area)
    check(abs(area - D.area) <= a_tol, sig + f"|area|{arcs_label}", lambda: f"area {area!r} vs sum (-1)^depth A_i = {D.area!r} (tol {a_tol:.3g})")
    length = float(p.length)
    # coordinates are stored to eps * |c|: the length moves by that much per chord end, times the conditioning of the
    # circumcircle for an arc (a 2e-6 drawing translated by 10 has 1e-9 relative resolution)
    l_tol = 1e-9 * D.length + ext["length"] + len_atol(D)
    # exact length: straight part and arc part separately (different root causes)
    V = np.asarray(p.vertices)
    l_lines = float(sum(e.length(V) for e in p.entities if isinstance(e, Line)))
    l_arcs = float(sum(e.length(V) for e in p.entities if isinstance(e, Arc)))
    want_lines = sum(float(np.hypot(*(c.nodes[(i + 1) % len(c.nodes)] - c.nodes[i]))) for c in D.curves if c.kind != "circle" for i in range(len(c.nodes)) if c.mids[i] is None)
    want_arcs = D.length - want_lines
    check(abs(l_lines - want_lines) <= l_tol, sig + "|length|lines", lambda: f"summed Line lengths {l_lines!r} vs chords {want_lines!r}")
    dfr.check(abs(l_arcs - want_arcs) <= l_tol, "C14.draw|length|arcs_analytic", lambda: f"summed Arc.length {l_arcs!r} vs sum r*|phi| = {want_arcs!r} (ratio {l_arcs / want_arcs if want_arcs else float('nan'):.6g})")
    check(abs(length - (l_lines + l_arcs)) <= 1e-12 * max(length, 1e-300) + 1e-300, sig + "|length|sum", f"{length!r} vs {l_lines + l_arcs!r}")
    # bounds
    pb = np.asarray(p.bounds, dtype=np.float64)
    db_all = max(c.disc_tol()[1] for c in D.curves)
    check(pb.shape == (2, 2) and np.abs(pb - D.bounds).max() <= pos_tol(D) + 1.01 * db_all + 2 * ext["delta"], sig + f"|bounds|{arcs_label}", lambda: f"{pb.tolist()} vs {D.bounds.tolist()}")
    fp["area"] = area
    fp["length"] = length
    fp["l_lines"] = l_lines
    fp["l_arcs"] = l_arcs
    return fp


def len_atol(D):
    return 8 * EPS * D.cmax * D.len_cond


def match_one(D, b, sig, extra=0.0):
    hits = [i for i, cur in enumerate(D.curves) if np.abs(b - cur.bounds).max() <= pos_tol(D, cur) + 1.01 * cur.disc_tol()[1] + extra]
    check(len(hits) == 1, sig, lambda: f"ring with bounds {b.tolist()} matches curves {hits}")
    return hits[0]


def compare_fp(D, a, b, sig, what, area_scale=1.0, len_scale=1.0, loose=0.0, rediscretised=False, same_coords=False):
    """fingerprints of two paths over the same drawing (D carries the measures of side b): equal to 1e-9 when the arcs are
    discretised identically; when side b may have been re-discretised with another segment count (the count depends on
    Path.scale = AABB diagonal, which a rotation changes) both sides are inscribed polygons within disc_tol of the exact curve"""
    s2, s1 = area_scale, len_scale
    for ci, cur in enumerate(D.curves):
        A0, B0, C0, n0 = a["curves"][ci]
        A1, B1, C1, n1 = b["curves"][ci]
        at = 1e-9 * max(A1, 0.0) + cond_atol(D, cur, max(n0, n1)) * max(s2, 1.0) + loose * cur.perimeter * s1 + (1.01 * cur.disc_tol()[0] if rediscretised else 0.0)
        check(abs(A0 * s2 - A1) <= at, sig + "|curve_area", lambda: f"{what}: curve {ci}: {A0 * s2!r} vs {A1!r}")
        if same_coords and not rediscretised:
            # same coordinates on both sides: the polygons coincide (matched by bounds and centroid); a closed Arc may be
            # discretised from another start angle (an equally valid inscribed regular polygon with the same centroid)
            pt = pos_tol(D, cur) + 2 * loose
            check(np.abs(B0 - B1).max() <= pt + (1.01 * cur.disc_tol()[1] if cur.kind == "circle" else 0.0), sig + "|curve_bounds", lambda: f"{what}: curve {ci}: bounds {B0.tolist()} vs {B1.tolist()}")
            check(np.abs(C0 - C1).max() <= pt + 2.0 * at / max(A1, 1e-300) * float(np.hypot(*(cur.bounds[1] - cur.bounds[0]))), sig + "|curve_centroid", lambda: f"{what}: curve {ci}: centroid {C0.tolist()} vs {C1.tolist()}")
    da = sum(1.01 * c.disc_tol()[0] for c in D.curves) if rediscretised else 0.0
    check(abs(a["area"] * s2 - b["area"]) <= 1e-9 * sum(c.area for c in D.curves) * s2 + sum(cond_atol(D, c, 100) for c in D.curves) * max(s2, 1.0) + loose * D.length * s1 * s1 + da, sig + "|area", lambda: f"{what}: area {a['area'] * s2!r} vs {b['area']!r}")
    check(abs(a["length"] * s1 - b["length"]) <= 1e-9 * b["length"] + loose * 4 * D.n * s1 + 2 * len_atol(D), sig + "|length", lambda: f"{what}: length {a['length'] * s1!r} vs {b['length']!r}")
    check(sorted(a["full"]) == sorted(b["full"]) and all(a["full"][k][1] == b["full"][k][1] for k in a["full"]), sig + "|nesting", f"{what}: {a['full']} vs {b['full']}")


def nontrivial(D, stats):
    return D.n >= 2 and D.nested and stats["multi"] >= 1 and stats["reversed"] >= 1


def class_labels(D, stats=None, vs=None):
    out = [f"depth={D.max_depth + 1}", "arcs" if D.has_arcs else "poly_only", f"curves={min(D.n, 8)}", "merge_safe" if D.merge_safe else "below_merge_resolution"]
    kinds = {c.kind for c in D.curves}
    out += [f"kind:{k}" for k in sorted(kinds)]
    if any(len(c.children) >= 2 for c in D.curves):
        out.append("siblings_in_one_parent")
    out += list(D.extra_labels)
    ratio = D.cmax / D.scale
    out.append("offset/size>=1e3" if ratio >= 1e3 else "offset/size>=30" if ratio >= 30 else "offset/size<30")
    if stats is not None:
        if stats["dups"]:
            out.append("dup_joints")
        if stats["multi"]:
            out.append("curve_in_many_entities")
        if stats["reversed"]:
            out.append("entity_reversed")
    if vs is not None:
        out.append(f"mode:{vs['mode']}")
    return out


# ------------------------------------------------------------------------------------------ bodies


@body("C14.draw")
def b_draw(case, ctx):
    with np.errstate(all="ignore"):
        D = gl.make_drawing(case["draw"])
        variants = [gd.canonical_variant()] + list(case["variants"])
        dfr = Deferred(ctx)
        al = "arcs" if D.has_arcs else "poly"
        fps = []
        agg = {"multi": 0, "reversed": 0, "dups": 0}
        labels = set()
        for vi, vs in enumerate(variants):
            vs = safe_variant(D, vs)
            V, ents, stats = gd.build_variant(D, vs)
            for k in agg:
                agg[k] += stats[k]
            labels.update(class_labels(D, stats, vs))
            p = gd.make_path(V, ents, vs["mode"])
            sig = f"C14.draw|{'canonical' if vi == 0 else vs['mode']}"
            fps.append(analyse(p, D, sig, dfr, al))
            # reading again (cached) gives the same answers
            check(float(p.area) == fps[-1]["area"] and float(p.length) == fps[-1]["length"], sig + "|reread", "area/length changed on second read")
        ctx.note(nontrivial=nontrivial(D, agg), cls=sorted(labels))
        for vi in range(1, len(fps)):
            compare_fp(D, fps[0], fps[vi], f"C14.draw|variants|{al}", f"canonical vs variant {vi} ({variants[vi]['mode']})", same_coords=True)
        dfr.flush()


def safe_variant(D, vs):
    """detail finer than the merge grid of Path.merge_vertices (1e-4 * scale) is outside the domain of the constructor's
    clean-up: such drawings are only built with shared joints and process=False"""
    if D.merge_safe or vs["mode"] == "shared":
        return vs
    vs = dict(vs)
    vs["mode"] = "shared"
    return vs


def fresh_path(p, V):
    ents = []
    for e in p.entities:
        if isinstance(e, Line):
            ents.append(Line(points=[int(i) for i in e.points]))
        else:
            ents.append(Arc(points=[int(i) for i in e.points], closed=bool(e.closed)))
    return Path2D(entities=ents, vertices=np.array(V, dtype=np.float64).copy(), process=False)


def do_reads(p, mask, order):
    for j in order:
        if mask >> j & 1:
            getattr(p, READS[j])


@body("C14.transform")
def b_transform(case, ctx):
    with np.errstate(all="ignore"):
        D = gl.make_drawing(case["draw"])
        vs = safe_variant(D, case["variant"])
        V, ents, stats = gd.build_variant(D, vs)
        p = gd.make_path(V, ents, vs["mode"])
        dfr = Deferred(ctx)
        al = "arcs" if D.has_arcs else "poly"
        V0 = np.array(p.vertices, dtype=np.float64).copy()
        base = analyse(fresh_path(p, V0), D, "C14.transform|base", dfr, al)
        Mtot = np.eye(3)
        clss = []
        rs = np.random.RandomState(case["order_seed"])
        warm_any = False
        for step in case["steps"]:
            M = np.array(step["M"]["M"], dtype=np.float64)
            do_reads(p, step["reads"], rs.permutation(len(READS)))
            warm_any = warm_any or step["reads"] != 0
            p.apply_transform(M)
            # documented shortcut of Path.apply_transform: a matrix within 1e-8 of the identity is a no-op
            if np.abs(M - np.eye(3)).max() >= 1e-8:
                Mtot = M @ Mtot
            clss.append(step["M"]["cls"])
        mcls = "+".join(clss)
        mirror = np.linalg.det(Mtot[:2, :2]) < 0
        s = math.sqrt(abs(np.linalg.det(Mtot[:2, :2])))
        ctx.note(
            nontrivial=nontrivial(D, stats) and any(c != "identity" for c in clss),
            cls=class_labels(D, stats, vs) + [f"matrix:{c}" for c in clss] + [f"steps={len(clss)}", "warm" if warm_any else "cold"] + [f"read:{READS[j]}" for st_ in case["steps"] for j in range(len(READS)) if st_["reads"] >> j & 1],
        )
        sig = f"C14.transform|{'mirror' if mirror else 'similarity'}"
        Vt = (Mtot[:2, :2] @ V0.T).T + Mtot[:2, 2]
        Vp = np.asarray(p.vertices, dtype=np.float64)
        vtol = 64 * EPS * float(np.prod([1 + np.abs(np.array(st_["M"]["M"])).max() for st_ in case["steps"]])) * (1 + np.abs(V0).max()) * 3
        check(Vp.shape == Vt.shape and np.abs(Vp - Vt).max() <= vtol, sig + "|vertices", lambda: f"max dev {np.abs(Vp - Vt).max():.3g}")
        # the transformed drawing, constructed: same structure, coordinates moved
        Dt = TransformedDrawing(D, Mtot)
        cold = fresh_path(p, Vt)
        fc = analyse(cold, Dt, sig + "|cold", dfr, al)
        rs2 = np.random.RandomState(case["order_seed"] + 1)
        do_reads(p, case["reads_after"], rs2.permutation(len(READS)))
        fw = analyse(p, Dt, sig + "|warm", dfr, al)
        # arcs are discretised with a segment count that depends on Path.scale (AABB diagonal): only a matrix whose linear
        # part is +-s on the diagonal keeps the count, otherwise the two sides are different inscribed polygons of the same arcs
        Lm = Mtot[:2, :2]
        redisc = D.has_arcs and not (abs(Lm[0, 1]) + abs(Lm[1, 0]) <= 1e-15 * abs(Lm[0, 0]) and abs(abs(Lm[0, 0]) - abs(Lm[1, 1])) <= 1e-15 * abs(Lm[0, 0]))
        compare_fp(Dt, fc, fw, sig + f"|warm_vs_cold|{al}", f"transformed path (reads before: {[st_['reads'] for st_ in case['steps']]}) vs cold path on M.V ({mcls})", rediscretised=redisc, same_coords=True)
        # similarity scaling of the measures taken before the transform
        compare_fp(Dt, base, fw, sig + f"|scaling|{al}", f"s={s!r} ({mcls})", area_scale=s * s, len_scale=s, rediscretised=redisc)
        dfr.flush()


class TransformedDrawing:
    """The constructed drawing mapped through a similarity (possibly mirrored): exact measures scale, nesting is unchanged."""

    def __init__(self, D, M):
        L = M[:2, :2]
        t = M[:2, 2]
        s = math.sqrt(abs(np.linalg.det(L)))
        self.n = D.n
        self.curves = [TransformedCurve(c, L, t, s) for c in D.curves]
        self.body_count = D.body_count
        self.area = D.area * s * s
        self.length = D.length * s
        self.len_cond = D.len_cond
        self.has_arcs = D.has_arcs
        self.nested = D.nested
        self.max_depth = D.max_depth
        self.cmax = float(max(np.abs(c.bounds).max() for c in self.curves))
        self.bounds = np.array([np.min([c.bounds[0] for c in self.curves], axis=0), np.max([c.bounds[1] for c in self.curves], axis=0)])
        self.scale = float(np.hypot(*(self.bounds[1] - self.bounds[0])))


class TransformedCurve:
    def __init__(self, c, L, t, s):
        mirror = np.linalg.det(L) < 0
        self.kind = c.kind
        self.depth = c.depth
        self.parent = c.parent
        self.children = c.children
        self.has_arc = c.has_arc
        self.nodes = (L @ c.nodes.T).T + t
        self.mids = [None if m is None else L @ m + t for m in c.mids] if c.kind != "circle" else []
        self.area = c.area * s * s
        self.perimeter = c.perimeter * s
        self.centroid = L @ np.asarray(c.centroid) + t
        rot = math.atan2(L[1, 0], L[0, 0])
        self.arc_info = []
        lo = self.nodes.min(axis=0) if c.kind != "circle" else None
        hi = self.nodes.max(axis=0) if c.kind != "circle" else None
        for cc, r, a0, phi in c.arc_info:
            c2 = L @ cc + t
            if mirror:
                # L = R(rot) . diag(1,-1) . s  ->  angle a maps to rot - a
                a2, p2 = rot - a0, -phi
            else:
                a2, p2 = rot + a0, phi
            self.arc_info.append((c2, r * s, a2, p2))
            if c.kind == "circle":
                lo, hi = c2 - r * s, c2 + r * s
            else:
                blo, bhi = gd.arc_bounds(c2, r * s, a2, p2)
                lo, hi = np.minimum(lo, blo), np.maximum(hi, bhi)
        self.bounds = np.array([lo, hi])

    def disc_tol(self):
        return gd.Curve.disc_tol(self)


def storage_slack(D, fmt):
    """per-vertex / per-boundary displacement and area / length slack allowed by the coordinate precision of a format"""
    npts = sum((len(c.nodes) + 80 * len(c.arc_info)) for c in D.curves)
    if fmt == "dict":
        return {"delta": 0.0, "area": 0.0, "length": 0.0}
    rmax = max([r for c in D.curves for (_, r, _, _) in c.arc_info] + [0.0])
    extra_a = extra_l = 0.0
    if fmt == "dxf":
        # %.12g: relative 5e-12 per number; arcs: centre (5e-12 |c|), radius (5e-12 r), angles in degrees (5e-12 * 540 deg = 4.8e-11 rad)
        delta = 2 * (5e-12 * D.cmax * math.sqrt(2) + (5e-12 + 4.8e-11) * rmax)
    else:
        # 0.13f: absolute 5e-14 per coordinate. An arc is stored as end points + radius, so its sagitta h = sqrt(r^2 - c^2/4)
        # and angle 2 asin(c/2r) inherit the chord error with the sensitivity of that parametrisation (unbounded at a
        # semicircle); a circle is stored as two semicircles of rounded radius r and rounded chord 2r.
        # ... and the reader (svg.path) works in double precision on those coordinates: 4 eps |c|
        d0 = 2 * (5e-14 + 4 * EPS * D.cmax) * math.sqrt(2)
        delta = d0
        for c in D.curves:
            for _, r, _, phi in c.arc_info:
                if c.kind == "circle":
                    delta = max(delta, d0 + math.sqrt(4 * r * d0))
                    continue
                ch = 2 * r * abs(math.sin(phi / 2))
                h = lambda x: math.sqrt(max(r * r - x * x / 4, 0.0))  # noqa
                an = lambda x: 2 * math.asin(min(x / (2 * r), 1.0))  # noqa
                lo_, hi_ = max(ch - 2 * d0, 0.0), min(ch + 2 * d0, 2 * r)
                dh = abs(h(lo_) - h(ch)) + abs(h(hi_) - h(ch))
                dphi = abs(an(lo_) - an(ch)) + abs(an(hi_) - an(ch))
                delta = max(delta, d0 + dh)
                extra_a += ch * dh + r * r * dphi
                extra_l += r * dphi
    per = sum(c.perimeter for c in D.curves)
    return {"delta": delta, "area": (per * delta + extra_a) / max(D.n, 1), "length": 2 * npts * delta + extra_l}


def manual_from_dict(d):
    ents = []
    for e in d["entities"]:
        if e["type"] == "Line":
            ents.append(Line(points=e["points"]))
        else:
            ents.append(Arc(points=e["points"], closed=bool(e["closed"])))
    return Path2D(entities=ents, vertices=np.array(d["vertices"], dtype=np.float64))


@body("C14.roundtrip")
def b_roundtrip(case, ctx):
    with np.errstate(all="ignore"):
        D = gl.make_drawing(case["draw"])
        vs = safe_variant(D, case["variant"])
        fmt = case["fmt"]
        V, ents, stats = gd.build_variant(D, vs)
        p = gd.make_path(V, ents, vs["mode"])
        dfr = Deferred(ctx)
        al = "arcs" if D.has_arcs else "poly"
        if not D.merge_safe:
            # every loader merges vertices on the 1e-4 * scale grid: nothing to demand of a drawing with finer detail
            ctx.note(nontrivial=False, cls="below_merge_resolution")
            return
        labels = class_labels(D, stats, vs) + [f"fmt:{fmt}:{al}", "export_warm" if case["warm"] else "export_cold"]
        if case["warm"]:
            _ = p.paths, p.discrete, p.area
        shift = case.get("shift")
        if shift:
            # the drawing is moved far away before it is stored: the loader's clean-up works from the size of the drawing
            # (tol_path.merge * Path.scale), not from its position
            M = np.eye(3)
            M[:2, 2] = [shift[0] * D.size, shift[1] * D.size]
            p.apply_transform(M)
            D0 = D
            D = TransformedDrawing(D0, M)
            D.size, D.merge_safe, D.extra_labels = D0.size, D0.merge_safe, D0.extra_labels
            labels.append("shifted_before_export")
        slack = storage_slack(D, fmt)
        if fmt == "dxf" and D.has_arcs and slack["delta"] > 1e-9 * D.scale:
            # the dxf reader re-creates arc end points from centre / radius / angles stored to 12 significant digits; far from
            # the origin they come back displaced by a sizeable fraction of the merge grid (>= 1e-5 * scale) and may or may not
            # merge with their neighbours ("go either way" rounding, documented in grouping.float_to_int): not demanded
            ctx.note(nontrivial=False, cls=labels + ["dxf_arc_joint_below_12_digits"])
            return
        ctx.note(nontrivial=nontrivial(D, stats), cls=labels)
        n_ent = len(p.entities)
        sig = f"C14.roundtrip|{fmt}"
        if fmt == "dict":
            d = p.export(file_type="dict")
            check(isinstance(d, dict) and "entities" in d and "vertices" in d, sig + "|export_type", str(type(d)))
            try:
                q = Path2D(**dict_to_path(d))
            except AttributeError as e:
                dfr.check(False, sig + "|dict_to_path|exc|AttributeError", f"dict_to_path(export(file_type='dict')) raises {type(e).__name__}: {e}")
                q = manual_from_dict(d)
        else:
            data = p.export(file_type=fmt)
            raw = data.encode("utf-8") if isinstance(data, str) else data
            q = trimesh.load_path(io.BytesIO(raw), file_type=fmt)
            check(isinstance(q, Path2D), sig + "|load_type", f"{type(q).__name__}")
        # a joint between an arc and its neighbour is re-created from centre / radius / angles by the dxf reader: whether
        # the path comes back closed is its own clause
        if not bool(q.is_closed) and fmt == "dxf" and D.has_arcs:
            raise Violation(sig + "|arc_joint_not_merged", f"path with {n_ent} entities comes back open: vertex degrees {sorted(set(dict(q.vertex_graph.degree()).values()))}")
        fq = analyse(q, D, sig + "|reloaded", dfr, al, ext=slack)
        fp0 = analyse(p, D, sig + "|original", dfr, al)
        check(len(q.entities) == n_ent, sig + "|entity_count", f"{len(q.entities)} entities after reload, {n_ent} before")
        compare_fp(D, fp0, fq, sig + f"|measures|{al}", f"{fmt} reload", loose=slack["delta"] + (slack["area"] * D.n / max(D.length, 1e-300)), same_coords=True)
        check(abs(fq["length"] - fp0["length"]) <= 1e-9 * fp0["length"] + slack["length"] + 2 * len_atol(D), sig + f"|length|{al}", f"{fq['length']!r} vs {fp0['length']!r}")
        dfr.flush()


# ------------------------------------------------------------------------------------------ strategies


@st.composite
def draw_case(draw, arcs=True, lattice=False):
    spec = draw(gl.lattice_spec()) if lattice else draw(gd.drawing_spec(arcs=arcs))
    return {"draw": spec, "variants": draw(st.lists(gd.variant_spec(), min_size=2, max_size=3))}


def any_drawing(max_cells=3):
    """polar family with arcs, polar family polygons only, non-convex lattice family"""
    return st.one_of(gd.drawing_spec(arcs=True, max_cells=max_cells), gd.drawing_spec(arcs=False, max_cells=max_cells), gl.lattice_spec())


@st.composite
def transform_case(draw):
    nsteps = draw(st.sampled_from([1, 1, 2]))
    classes = ("rigid", "similarity", "mirror", "mirror", "translation", "identity")
    steps = []
    for _ in range(nsteps):
        mask = draw(st.one_of(st.sampled_from([0, 0, 0, 0, 511, 1, 2, 3, 8, 12, 64, 128, 256]), st.integers(0, 511)))
        steps.append({"M": draw(gm.matrix2d(classes=classes)), "reads": mask})
    return {
        "draw": draw(any_drawing()),
        "variant": draw(gd.variant_spec()),
        "steps": steps,
        "reads_after": draw(st.one_of(st.just(0), st.integers(0, 511))),
        "order_seed": draw(st.integers(0, 10**6)),
    }


@st.composite
def roundtrip_case(draw, fmt):
    return {
        "draw": draw(any_drawing()),
        "variant": draw(gd.variant_spec()),
        "fmt": fmt,
        "warm": draw(st.booleans()),
        "shift": draw(st.sampled_from([None, None, None, [1e4, -3e3], [-2e5, 1e5]])),
    }


# ------------------------------------------------------------------------------------------ sub-checks


# round trips first: they are the cheapest shards and must not be starved by the wall budget on a loaded machine
@subcheck("C14", "roundtrip_dxf", shards={"quick": 2, "thorough": 6})
def s_rt_dxf(ctx):
    ctx.given("C14.roundtrip", roundtrip_case("dxf"), n={"quick": 300, "thorough": 6000})


@subcheck("C14", "roundtrip_svg", shards={"quick": 2, "thorough": 6})
def s_rt_svg(ctx):
    ctx.given("C14.roundtrip", roundtrip_case("svg"), n={"quick": 300, "thorough": 6000})


@subcheck("C14", "roundtrip_dict", shards={"quick": 1, "thorough": 2})
def s_rt_dict(ctx):
    ctx.given("C14.roundtrip", roundtrip_case("dict"), n={"quick": 200, "thorough": 2000})


@subcheck("C14", "draw", shards={"quick": 5, "thorough": 12})
def s_draw(ctx):
    ctx.given("C14.draw", draw_case(arcs=True), n={"quick": 700, "thorough": 16000})


@subcheck("C14", "draw_lattice", shards={"quick": 3, "thorough": 8})
def s_draw_lattice(ctx):
    ctx.given("C14.draw", draw_case(lattice=True), n={"quick": 420, "thorough": 12000})


@subcheck("C14", "draw_poly", shards={"quick": 3, "thorough": 6})
def s_draw_poly(ctx):
    ctx.given("C14.draw", draw_case(arcs=False), n={"quick": 330, "thorough": 8000})


@subcheck("C14", "transform", shards={"quick": 4, "thorough": 12})
def s_transform(ctx):
    ctx.given("C14.transform", transform_case(), n={"quick": 800, "thorough": 16000})


REQUIRED_CLASSES["C14"] = [
    "depth=4",
    "depth=3",
    "arcs",
    "poly_only",
    "kind:circle",
    "kind:round",
    "kind:bulge",
    "siblings_in_one_parent",
    "dup_joints",
    "curve_in_many_entities",
    "entity_reversed",
    "mode:ctor",
    "mode:process",
    "mode:shared",
    "matrix:mirror",
    "matrix:similarity",
    "warm",
    "cold",
    "steps=2",
    "fmt:dxf:arcs",
    "fmt:svg:arcs",
    "fmt:dict:arcs",
    "fmt:dxf:poly",
    "fmt:svg:poly",
    "offset/size>=1e3",
    "offset/size>=30",
    "shifted_before_export",
    "family:lattice",
    "lattice:grown",
    "concave_in_concave",
    "hole_centroid_outside_shell",
    "centroid_outside_own_curve",
    "bbox_inside_not_nested",
    "centroid_inside_not_nested",
]
