"""C12 — accelerated ray and proximity queries equal exhaustive evaluation
(trimesh/ray/ray_triangle.py, ray/ray_pyembree.py, ray/ray_util.py, proximity.py, triangles.py, intersections.py, bounds.py)."""

import math

import numpy as np
from hypothesis import strategies as st

import trimesh
from trimesh.ray import ray_triangle

try:  # embreex is installed in the target environment; the embree sub-checks are skipped (and say so) otherwise
    from trimesh.ray import ray_pyembree

    HAVE_EMBREE = True
except BaseException:  # noqa
    ray_pyembree = None
    HAVE_EMBREE = False

from ..core import ASSUMPTIONS, REQUIRED_CLASSES, RULES, Violation, body, check, subcheck
from ..gen import meshes as gmesh
from ..oracle import c12_brute as ob

RULES["C12"] = (
    "Pool mesh (tetra, box, octahedron, icosphere, non-convex prism, torus, uv-sphere, one or two disjoint bodies, optional "
    "vertex jitter, optional removed faces for ray/nearest queries, optionally 1..4 zero-area faces lying on edges of ordinary faces (repeated index [i,i,j] / [i,j,i] / [j,i,i] / [i,i,i], three collinear distinct vertices, two coincident vertices) inserted at the start / middle / end of or spread over the face array: they are never hit by a ray and the oracle surface is the set of non-degenerate faces; every returned float must be finite; optionally 1..8 unreferenced vertices inserted at the start / middle / end of or spread over the vertex array, in and around the box and close to the surface: nearest.vertex is the minimum over all rows of mesh.vertices as documented, every other query must not notice them) under a similarity placement: scale 10^U(-2,3) with extra "
    "weight on both ends, rotation identity / exact quarter turn / random, offset 0 / ~10 / ~1e3 / 1e4..3e6 mesh scales (float64 tolerances carry 256*eps*|coords| / 64*eps*|coords| terms; embree is judged in its own shifted, scaled float32 scene). Rays by "
    "construction: target inside a face (barycentrics >= 0.05) or anywhere in the inflated box, origin >= 1e-3*diag from the "
    "surface inside the bounds / on a shell outside / 20..1000 diag away, direction target-origin (raw or unitized), exact "
    "+-axis directions through a face point, rays pointing away; optionally extra rays meeting the surface in the same points as rays already in the batch (other origins aimed at the same target, the collinear ray from the far side, the same line started further back, exact duplicates), and the last rays of a batch are also asked alone (batch answer == single-ray answer); containment batches optionally hold several points on one line parallel to the documented test direction. The oracle (own Moller-Trumbore over all triangles, float64) "
    "keeps a ray only in general position: every triangle is either crossed with all barycentrics >= 1e-3 and |n.d| >= 1e-2, "
    "or missed with a barycentric <= -1e-3 (exactly parallel triangles: ray >= 1e-3 altitude from their edges), <= 20 hits; "
    "embree (float32) is only asked about rays whose clearance from every edge exceeds 32*2^-24*(|origin-corner|+diag), and "
    "its all-hits loop only about rays whose consecutive hits are >= 1e-3*diag apart. The embree intersector is built both ways its constructor documents (scale_to_box=True default / False). Checked per engine: set of (ray,triangle) "
    "hits, locations on the ray ahead of the origin and on the reported triangle, first hit = argmin t, any = non-empty, "
    "single-hit variants, engines agree. contains_points (both engines) vs generalized winding number for points >= 1e-3*diag "
    "from the surface of watertight meshes. nearest.on_surface / vertex / signed_distance vs the minimum over all triangles "
    "(own plane-projection + edge-segment distance, rtol tol.merge) for points over faces, over a face a sliver (1e-7..1e-2 barycentric) "
    "inside an edge, over edges, over vertices, exactly along an axis from a vertex (offsets 1e-3..1 diag along +-normals), "
    "in the box, outside, far. Non-trivial: a ray batch with >= 1 hit; a point batch with >= 1 kept point. Discard rates are in "
    "the histogram: ray_discard:* / ray_generated, cpoint_discard:* / cpoint_generated, ppoint_discard:* (observed: ~5% of rays)."
)
ASSUMPTIONS["C12"] = [
    "float64 Moller-Trumbore / point-segment / solid-angle arithmetic of the oracle is trusted at the stated margins (1e-3 barycentric, 1e-2 incidence, 1e-3*diag distance)",
    "embree stores the mesh shifted to its min corner and scaled to diag=100 in float32: only rays whose edge clearance exceeds 32*2^-24*(|origin-corner|+diag) are put to it",
    "tolerances: native locations 1e-9*diag + 256*eps*|coords|/|n.d|; embree locations 1e-6*diag (they are float64 plane intersections of the given ray, only the choice of triangle is float32); nearest-vertex distances rtol 1e-9 + 64*eps*|coords|",
    "surface distances rtol tol.merge (1e-8) + 64*eps*|coords|: proximity.closest_point deliberately treats two candidates whose distances agree to ~tol.merge as tied and returns the one on the side of the face normal (tests/test_proximity.py::test_returns_correct_point_in_ambiguous_cases expects a point 4e-9 (relative) farther than the minimum), so the minimum is only promised to that relative accuracy",
    "pool meshes have no coincident faces (the zero-volume 'pillow' is excluded: intersects_location documents merging hits at one location)",
    "multi-body meshes are disjoint, so the winding number is 0 or 1 and parity containment is well defined",
]

EPS = ob.EPS
MARGIN = 1e-3  # fixed distance margin, in units of the bounding-box diagonal
BARY = 1e-3  # fixed barycentric margin for hits and misses
COSMIN = 1e-2  # fixed incidence margin
MAX_HITS = 20  # documented max_hits of the embree engine
DIST_RTOL = 1e-8  # = tol.merge, relative: documented tie window of proximity.closest_point (see ASSUMPTIONS)
F32K = 32.0 * 2.0**-24
F32_RESOLVE = 8.0 * 2.0**-23  # a few float32 ulps of a coordinate of the embree scene, relative to its diagonal (float32 is scale free: the same with and without scale_to_box)

QUARTER = []
for _p in ((0, 1, 2), (1, 2, 0), (2, 0, 1), (0, 2, 1), (2, 1, 0), (1, 0, 2)):
    for _s in ((1, 1, 1), (1, -1, -1), (-1, 1, -1), (-1, -1, 1), (-1, -1, -1), (-1, 1, 1), (1, -1, 1), (1, 1, -1)):
        _R = np.zeros((3, 3))
        for _i in range(3):
            _R[_i, _p[_i]] = _s[_i]
        if np.linalg.det(_R) > 0:
            QUARTER.append(_R)


# ------------------------------------------------------------------------------------------ building


def placement(place):
    s = 10.0 ** float(place["log10s"])
    rs = np.random.RandomState(int(place["rseed"]) & 0x7FFFFFFF)
    kind = place["rot"]
    if kind == "id":
        R = np.eye(3)
    elif kind == "quarter":
        R = QUARTER[rs.randint(len(QUARTER))]
    else:
        Q, _ = np.linalg.qr(rs.normal(size=(3, 3)))
        if np.linalg.det(Q) < 0:
            Q[:, 0] = -Q[:, 0]
        R = Q
    u = rs.normal(size=3)
    u /= np.linalg.norm(u)
    # (the extra draw for "vfar" comes last so that older saved cases keep their placement)
    off = {"zero": 0.0, "near": 10.0 * rs.uniform(0.2, 1.0), "far": 1e3 * rs.uniform(0.3, 1.0), "vfar": 10.0 ** rs.uniform(4.0, 6.5)}[place["off"]] * s * u
    M = np.eye(4)
    M[:3, :3] = s * R
    M[:3, 3] = off
    return M


class Geo:
    """mesh under test plus the quantities the generators and the oracle need"""

    def __init__(self, case):
        spec = dict(case["mesh"])
        spec["place"] = placement(case["place"]).tolist()
        V, F = gmesh.build(spec)
        drop = case.get("drop")
        if drop:
            keep = np.ones(len(F), dtype=bool)
            keep[[i % len(F) for i in drop]] = False
            if keep.sum() >= 2:
                F = F[keep]
        self.closed = not drop
        deg = np.zeros(len(F), dtype=bool)
        dg = case.get("degen")
        if dg:
            # zero-area faces in addition to the ordinary ones, all of them lying ON the surface (along an edge of an
            # ordinary face), so that "minimum over the non-degenerate triangles" and "minimum over the point set" agree:
            # repeated index, three collinear distinct vertices, zero-length edge through two coincident vertices
            rs = np.random.RandomState(int(dg["seed"]) & 0x7FFFFFFF)
            newf = []
            for kind in dg["kinds"]:
                f = F[int(rs.randint(len(F)))]
                e = int(rs.randint(3))
                i, j = int(f[e]), int(f[(e + 1) % 3])
                if kind == "iij":
                    newf.append([i, i, j])
                elif kind == "iji":
                    newf.append([i, j, i])
                elif kind == "jii":
                    newf.append([j, i, i])
                elif kind == "iii":
                    newf.append([i, i, i])
                elif kind == "collinear":
                    V = np.vstack((V, [V[i] + (V[j] - V[i]) * rs.uniform(0.2, 0.8)]))
                    newf.append([i, len(V) - 1, j][:: (1 if rs.uniform() < 0.5 else -1)])
                else:  # coincident: a second copy of vertex i
                    V = np.vstack((V, [V[i]]))
                    newf.append([i, len(V) - 1, j])
            k = len(newf)
            nf0 = len(F)
            pos = {"start": np.zeros(k, dtype=np.int64), "end": np.full(k, nf0, dtype=np.int64), "middle": np.full(k, nf0 // 2, dtype=np.int64)}.get(dg["where"])
            if pos is None:
                pos = np.sort(rs.randint(0, nf0 + 1, k))
            F = np.insert(F, pos, np.array(newf, dtype=np.int64), axis=0)
            deg = np.insert(deg, pos, True)
        self.deg = deg
        self.good = np.nonzero(~deg)[0]
        self.n_extra = 0
        extra = case.get("extra")
        if extra:
            # vertices no face refers to, at the start / in the middle / at the end of the vertex array (or spread):
            # part of mesh.vertices (nearest.vertex documents "index of mesh.vertices"), not part of the surface
            rs = np.random.RandomState(int(extra["seed"]) & 0x7FFFFFFF)
            k = int(extra["k"])
            ref = np.unique(F)
            lo, hi = V[ref].min(axis=0), V[ref].max(axis=0)
            A_, B_, C_ = ob.corners(V, F)
            X = []
            for _ in range(k):
                if rs.uniform() < 0.5:
                    X.append((lo + hi) / 2.0 + (rs.uniform(0, 1, 3) - 0.5) * (hi - lo) * rs.choice([1.0, 1.6, 4.0]))
                else:
                    f = int(self.good[int(rs.randint(len(self.good)))])
                    b = rs.dirichlet((1.0, 1.0, 1.0))
                    nrm = np.cross(B_[f] - A_[f], C_[f] - A_[f])
                    nrm /= np.linalg.norm(nrm)
                    X.append(b[0] * A_[f] + b[1] * B_[f] + b[2] * C_[f] + nrm * np.linalg.norm(hi - lo) * 10.0 ** rs.uniform(-3.0, -0.5) * rs.choice([-1.0, 1.0]))
            X = np.array(X)
            nv = len(V)
            where = extra["where"]
            pos = {"start": np.zeros(k, dtype=np.int64), "end": np.full(k, nv, dtype=np.int64), "middle": np.full(k, nv // 2, dtype=np.int64)}.get(where)
            if pos is None:
                pos = np.sort(rs.randint(0, nv + 1, k))
            V2 = np.insert(V, pos, X, axis=0)
            newidx = np.arange(nv) + np.searchsorted(pos, np.arange(nv), side="right")
            F = newidx[F]
            if not np.array_equal(V2[newidx], V):
                raise AssertionError("C12 harness: re-indexing after inserting unreferenced vertices is wrong")
            V = np.ascontiguousarray(V2)
            self.n_extra = k
        self.V, self.F = V, F
        self.A, self.B, self.C = ob.corners(V, F)  # all faces, indexed like mesh.faces
        self.Ag, self.Bg, self.Cg = self.A[self.good], self.B[self.good], self.C[self.good]  # the surface: non-degenerate faces
        ref = np.unique(F)
        self.lo = V[ref].min(axis=0)
        self.hi = V[ref].max(axis=0)
        self.diag = float(np.linalg.norm(self.hi - self.lo))
        self.centre = (self.lo + self.hi) / 2.0
        self.lo_all = V.min(axis=0)  # corner the embree wrapper shifts the scene to (min over ALL rows of mesh.vertices)
        self.referenced = np.zeros(len(V), dtype=bool)
        self.referenced[ref] = True
        self.cmax = float(np.abs(V).max())
        with np.errstate(all="ignore"):
            self.nh, self.a2, self.alt = ob.tri_geometry(self.A, self.B, self.C)  # rows of degenerate faces are nan / 0 and never used
        self.mesh = trimesh.Trimesh(V.copy(), F.copy(), process=False)

    def dist(self, p):
        return ob.mesh_distance(self.Ag, self.Bg, self.Cg, p)[0]

    def surface_distance(self, p):
        """ob.mesh_distance over the non-degenerate faces, reported with indices of mesh.faces (degenerate faces: inf)"""
        d, tri, q, feat, alld = ob.mesh_distance(self.Ag, self.Bg, self.Cg, p)
        full = np.full(len(self.F), np.inf)
        full[self.good] = alld
        return d, int(self.good[tri]), q, feat, full

    def winding(self, p):
        return ob.winding_number(self.Ag, self.Bg, self.Cg, p)


def scale_class(diag):
    return "diag:1e%+d" % int(math.floor(math.log10(diag)))


# ------------------------------------------------------------------------------------------ rays


def _origin(rs, g, kind):
    ext = g.hi - g.lo
    if kind == "inbox":
        return g.lo + rs.uniform(0, 1, 3) * ext
    if kind == "shell":
        u = rs.normal(size=3)
        u /= np.linalg.norm(u)
        return g.centre + u * g.diag * rs.uniform(0.6, 2.5)
    u = rs.normal(size=3)
    u /= np.linalg.norm(u)
    return g.centre + u * g.diag * 10.0 ** rs.uniform(math.log10(20.0), 3.0)


def gen_rays(rs, g, n):
    """-> list of (origin, raw direction, kind label).  Everything is drawn from rs, nothing is filtered here."""
    out = []
    nf = len(g.F)
    ext = g.hi - g.lo
    for _ in range(n):
        r = rs.uniform()
        okind = ["inbox", "shell", "far"][int(rs.choice(3, p=[0.4, 0.4, 0.2]))]
        f = int(g.good[int(rs.randint(len(g.good)))])
        b = 0.05 + 0.85 * rs.dirichlet((1.0, 1.0, 1.0))
        target = b[0] * g.A[f] + b[1] * g.B[f] + b[2] * g.C[f]
        if r < 0.40:
            o = _origin(rs, g, okind)
            out.append((o, target - o, "target", okind))
        elif r < 0.72:
            k = int(rs.randint(3))
            sgn = 1.0 if rs.uniform() < 0.5 else -1.0
            L = {"inbox": rs.uniform(0.01, 1.0) * ext[k], "shell": rs.uniform(1.5, 3.0) * ext[k], "far": g.diag * 10.0 ** rs.uniform(math.log10(20.0), 3.0)}[okind]
            o = target.copy()
            o[k] = target[k] - sgn * L
            d = np.zeros(3)
            d[k] = target[k] - o[k]  # exactly axis aligned; the other two coordinates of o are those of the target
            if d[k] == 0.0:
                d[k] = sgn * L
            out.append((o, d, "axis", okind))
        elif r < 0.88:
            o = _origin(rs, g, okind)
            t = g.centre + (rs.uniform(0, 1, 3) - 0.5) * ext * 1.3
            out.append((o, t - o, "boxpoint", okind))
        else:
            okind = "inbox" if rs.uniform() < 0.5 else "shell"
            o = _origin(rs, g, okind)
            d = (o - g.centre) + rs.normal(size=3) * 0.3 * g.diag
            out.append((o, d, "away", okind))
    return out


def shared_rays(rs, g, rays, mode):
    """extra rays that meet the surface in the SAME points as rays already in the batch: other origins aimed at the same
    target, the collinear ray from the far side, the same line started further back, exact duplicates.  Drawn from
    their own RandomState so that the base batch of a saved case does not change."""
    out = []
    base = [r for r in rays if r[2] in ("target", "axis")]
    if not base:
        return out
    for _ in range(int(rs.randint(1, 4))):
        o, d, kind, okind = base[int(rs.randint(len(base)))]
        target = o + d
        m = mode if mode != "mixed" else ["target", "collinear", "behind", "duplicate"][int(rs.randint(4))]
        if m == "target":
            for _ in range(int(rs.randint(1, 4))):
                ok = ["inbox", "shell", "far"][int(rs.choice(3, p=[0.4, 0.4, 0.2]))]
                o2 = _origin(rs, g, ok)
                out.append((o2, target - o2, "shared_target", ok))
        elif m == "collinear":
            o2 = target + d * 10.0 ** rs.uniform(-1.0, 1.0)
            out.append((o2, target - o2, "collinear_opposite", "line"))
        elif m == "behind":
            o2 = o - d * 10.0 ** rs.uniform(-1.0, 1.0)
            out.append((o2, target - o2, "collinear_behind", "line"))
        else:
            out.append((o.copy(), d.copy(), "duplicate", okind))
    return out


def classify_rays(g, O, D):
    """oracle pass.  Returns per ray: gp (general position), hits (list of (t, tri) sorted by t), clearance (min distance
    of the ray to any triangle edge), reason of discard."""
    res = ob.rays_all(g.Ag, g.Bg, g.Cg, O, D)
    bst = np.stack((res["b0"], res["b1"], res["b2"]), axis=-1)
    with np.errstate(all="ignore"):
        bmin_g = bst.min(axis=-1)
    dn = np.linalg.norm(D, axis=1)
    reach = np.linalg.norm(O - g.centre, axis=1) + 2.0 * g.diag
    edged_g = ob.halfline_edge_dist(g.Ag, g.Bg, g.Cg, O, D, reach)
    # a degenerate face is never crossed: parallel, no parameter, infinitely far from the ray (it lies on an edge of an
    # ordinary face, which the general-position rule already keeps the ray away from)
    shape = (len(O), len(g.F))
    t = np.full(shape, np.nan)
    par = np.ones(shape, dtype=bool)
    cosang = np.zeros(shape)
    bmin = np.full(shape, -np.inf)
    edged = np.full(shape, np.inf)
    alt_min = np.full(len(g.F), np.inf)
    t[:, g.good], par[:, g.good], cosang[:, g.good], bmin[:, g.good], edged[:, g.good] = res["t"], res["par"], res["cosang"], bmin_g, edged_g
    alt_min[g.good] = g.alt[g.good].min(axis=1)
    out = []
    for r in range(len(O)):
        fwd = (~par[r]) & (t[r] > 0)
        hit = fwd & (bmin[r] > 0)
        reason = None
        if (hit & (bmin[r] < BARY)).any():
            reason = "hit_near_edge"
        elif (hit & (np.abs(cosang[r]) < COSMIN)).any():
            reason = "grazing_hit"
        elif (fwd & ~hit & (bmin[r] > -BARY)).any():
            reason = "miss_near_edge"
        elif (par[r] & (edged[r] < BARY * alt_min)).any():
            reason = "parallel_near_edge"
        elif not np.isfinite(t[r][~par[r]]).all():
            reason = "nonfinite"
        elif hit.sum() > MAX_HITS:
            reason = "more_than_max_hits"
        idx = np.nonzero(hit)[0]
        order = idx[np.argsort(t[r][idx], kind="stable")]
        hits = [(float(t[r][i]), int(i)) for i in order]
        # distinct hits must also be separated along the ray (coincident faces are outside the pool, but be explicit)
        if reason is None and len(hits) > 1:
            ts = np.array([h[0] for h in hits]) * dn[r]
            if (np.diff(ts) < 1e-5 * g.diag).any():
                reason = "coincident_hits"
        gap = float(np.diff([h[0] for h in hits]).min() * dn[r]) if len(hits) > 1 else np.inf
        out.append({"gp": reason is None, "reason": reason, "hits": hits, "clear": float(edged[r].min()), "cos": cosang[r], "t": t[r], "bmin": bmin[r], "gap": gap, "deg": g.deg})
    return out


def _pairs(index_tri, index_ray):
    return sorted(zip((int(i) for i in index_ray), (int(i) for i in index_tri)))


def _why_spurious(info, r, tri):
    """class of a reported (ray, triangle) pair the oracle does not have"""
    if tri < 0 or tri >= len(info[r]["t"]):
        return "index_out_of_range"
    if info[r]["deg"][tri]:
        return "degenerate_face_reported"
    if info[r]["t"][tri] < 0 and info[r]["bmin"][tri] > 0:
        return "crossed_behind_origin"
    return "not_crossed"


def _why_missed(name, info, D, r, tri):
    """class of a crossed triangle that is not reported"""
    if name == "native":
        # planes_lines tests the UN-normalized |n.d| against an absolute 1e-5
        if abs(float(info[r]["cos"][tri])) * float(np.linalg.norm(D[r])) <= 1e-5 * (1 + 1e-9):
            return "missed|n.d_below_abs_1e-5"
    return "missed"


def _check_pairs(sig, name, got, want, info, D, extra_info=""):
    if got == want:
        return
    gs, ws = set(got), set(want)
    if len(gs) != len(got):
        dup = sorted(p for p in gs if got.count(p) > 1)
        raise Violation(sig + "|duplicate_hit", f"(ray,triangle) pairs reported more than once: {dup[:6]} {extra_info}")
    missed = sorted(ws - gs)
    extra = sorted(gs - ws)
    if extra:
        r, tri = extra[0]
        raise Violation(sig + "|spurious|" + _why_spurious(info, r, tri), f"reported but not crossed ahead of the origin: (ray,tri)={extra[:6]}; ray {r}: o={info[r]['o']} d={info[r]['d']} oracle t={info[r]['t'][tri]!r} min barycentric={info[r]['bmin'][tri]!r}; missed={missed[:6]} {extra_info}")
    r, tri = missed[0]
    raise Violation(sig + "|" + _why_missed(name, info, D, r, tri), f"{len(missed)} crossed triangle(s) not reported, e.g. (ray,tri)={missed[:6]}; ray {r}: o={info[r]['o']} d={info[r]['d']} oracle t={info[r]['t'][tri]!r} barycentric margin={info[r]['bmin'][tri]!r} n.d={info[r]['cos'][tri]!r} {extra_info}")


def check_engine(name, eng, g, O, D, info, dirmode, multi_ok, opt=""):
    """all ray queries of one engine against the oracle.  O, D: kept rays; info: oracle records; multi_ok: rays that
    are put to the all-hits queries."""
    n = len(O)
    base = f"C12.ray|native|dir={dirmode}" if name == "native" else "C12.ray|embree" + opt
    for r in range(n):
        info[r]["o"] = O[r].tolist()
        info[r]["d"] = D[r].tolist()
    want_first = np.array([info[r]["hits"][0][1] if info[r]["hits"] else -1 for r in range(n)], dtype=np.int64)
    want_any = want_first >= 0
    want_single = sorted((r, int(want_first[r])) for r in range(n) if want_any[r])
    dh = D / np.linalg.norm(D, axis=1)[:, None]
    loc_rel = 1e-9 if name == "native" else 1e-6
    out = {}

    def q_first():
        first = np.asarray(eng.intersects_first(O.copy(), D.copy()))
        check(first.shape == (n,), base + "|intersects_first|shape", f"{first.shape} for {n} rays")
        out["first"] = first
        bad = np.nonzero(first.astype(np.int64) != want_first)[0]
        if len(bad):
            r = int(bad[0])
            got = int(first[r])
            if got == -1:
                cls = _why_missed(name, info, D, r, int(want_first[r]))
            elif got not in [h[1] for h in info[r]["hits"]]:
                cls = "spurious|" + _why_spurious(info, r, got)
            else:
                cls = "not_nearest"
            raise Violation(base + f"|intersects_first|{cls}", f"ray {r} o={O[r].tolist()} d={D[r].tolist()}: got triangle {got}, nearest crossed triangle is {int(want_first[r])} (all hits (t,tri): {info[r]['hits'][:5]})")

    def q_any():
        anyh = np.asarray(eng.intersects_any(O.copy(), D.copy()))
        check(anyh.shape == (n,) and anyh.dtype == bool, base + "|intersects_any|shape", f"{anyh.shape} {anyh.dtype}")
        bad = np.nonzero(anyh != want_any)[0]
        if len(bad):
            r = int(bad[0])
            raise Violation(base + "|intersects_any|" + ("false_negative" if want_any[r] else "false_positive"), f"ray {r} o={O[r].tolist()} d={D[r].tolist()}: any={bool(anyh[r])}, oracle hits {info[r]['hits'][:5]}")

    def q_single():
        it, ir = eng.intersects_id(O.copy(), D.copy(), multiple_hits=False)[:2]
        _check_pairs(base + "|intersects_id_single", name, _pairs(it, ir), want_single, info, D)
        loc1, ir1, it1 = eng.intersects_location(O.copy(), D.copy(), multiple_hits=False)
        _check_pairs(base + "|intersects_location_single", name, _pairs(it1, ir1), want_single, info, D)
        _check_locations(base + "|location_single", np.asarray(loc1, dtype=np.float64).reshape((-1, 3)), ir1, it1, O, D, dh, info, g, loc_rel)

    def q_multi():
        idx = np.nonzero(multi_ok)[0]
        if len(idx) == 0:
            return
        Om, Dm = O[idx], D[idx]
        im = [info[i] for i in idx]
        want_pairs = sorted((r, tri) for r in range(len(idx)) for _, tri in im[r]["hits"])
        extra = ""
        if name == "embree":
            # the loop re-launches each ray from its last hit moved by clip(1e-4 * (100/diag), 1e-8) along the ray
            step = max(1e-4 * g.mesh.scale, 1e-8)  # documented: a factor of geometry.scale, whatever scale_to_box is
            gaps = [np.diff([h[0] for h in im[r]["hits"]]) * np.linalg.norm(Dm[r]) for r in range(len(idx))]
            mingap = min([float(x.min()) for x in gaps if len(x)] + [np.inf])
            extra = f"[embree re-launch offset {step:.3g}, smallest gap between consecutive hits {mingap:.3g}, diag {g.diag:.3g}]"
        it, ir = eng.intersects_id(Om.copy(), Dm.copy(), multiple_hits=True)[:2]
        sig = base + (_embree_offset_class(g, Om, Dm, im, _pairs(it, ir)) if name == "embree" else "") + "|intersects_id"
        _check_pairs(sig, name, _pairs(it, ir), want_pairs, im, Dm, extra)
        loc, ir, it = eng.intersects_location(Om.copy(), Dm.copy())
        loc = np.asarray(loc, dtype=np.float64).reshape((-1, 3))
        check(len(loc) == len(ir) == len(it), base + "|intersects_location|lengths", f"{len(loc)} {len(ir)} {len(it)}")
        sig = base + (_embree_offset_class(g, Om, Dm, im, _pairs(it, ir)) if name == "embree" else "") + "|intersects_location"
        _check_pairs(sig, name, _pairs(it, ir), want_pairs, im, Dm, extra)
        _check_locations(base + "|location", loc, ir, it, Om, Dm, dh[idx], im, g, loc_rel)

    def q_batch():
        """the answer for a ray must not depend on what else is in the batch: the last rays (where the rays sharing hit
        points with others are) asked alone"""
        idx = np.nonzero(multi_ok)[0]
        if len(idx) < 2:
            return
        loc, ir, it = eng.intersects_location(O[idx].copy(), D[idx].copy())
        batch = _pairs(it, ir)
        for j in list(range(len(idx)))[-3:]:
            r = int(idx[j])
            l1, r1, t1 = eng.intersects_location(O[r : r + 1].copy(), D[r : r + 1].copy())
            alone = sorted(int(t) for t in t1)
            inb = sorted(t for rr, t in batch if rr == j)
            check(alone == inb, base + "|batch_vs_single|intersects_location", lambda: f"ray {r} o={O[r].tolist()} d={D[r].tolist()}: triangles {alone} when asked alone, {inb} inside a batch of {len(idx)} rays")
        fb = np.asarray(out["first"]).astype(np.int64)
        for r in list(range(n))[-3:]:
            f1 = np.asarray(eng.intersects_first(O[r : r + 1].copy(), D[r : r + 1].copy())).astype(np.int64)
            check(len(f1) == 1 and int(f1[0]) == int(fb[r]), base + "|batch_vs_single|intersects_first", lambda: f"ray {r}: {f1.tolist()} alone, {int(fb[r])} in the batch")

    order = (q_multi, q_first, q_any, q_single, q_batch) if name == "native" else (q_first, q_any, q_single, q_multi, q_batch)
    for q in order:
        q()
    return out["first"]


def _check_locations(sig, loc, ir, it, O, D, dh, info, g, loc_rel):
    for k in range(len(loc)):
        r, tri = int(ir[k]), int(it[k])
        check(np.isfinite(loc[k]).all(), sig + "|not_finite", f"ray {r} tri {tri}: location {loc[k].tolist()}")
        s = float(np.dot(loc[k] - O[r], dh[r]))
        cosr = max(abs(float(info[r]["cos"][tri])), COSMIN)
        coords = max(g.cmax, float(np.abs(O[r]).max()))
        tol = loc_rel * g.diag + 256.0 * EPS * (coords + abs(s)) / cosr
        check(s > 0, sig + "|behind_origin", f"ray {r} tri {tri}: location {loc[k].tolist()} is {s:.3g} along the ray")
        off = float(np.linalg.norm(loc[k] - (O[r] + dh[r] * s)))
        check(off <= tol, sig + "|off_ray", f"ray {r} tri {tri}: location {loc[k].tolist()} is {off:.3g} from the ray (tol {tol:.3g})")
        dtri = ob.point_triangle_residual(g.A, g.B, g.C, tri, loc[k])
        check(dtri <= tol, sig + "|off_triangle", f"ray {r} tri {tri}: location {loc[k].tolist()} is {dtri:.3g} from the reported triangle (tol {tol:.3g})")
        want_s = float(info[r]["t"][tri] * np.linalg.norm(D[r]))
        check(abs(s - want_s) <= tol / cosr, sig + "|wrong_parameter", f"ray {r} tri {tri}: at {s!r} along the ray, oracle {want_s!r} (tol {tol / cosr:.3g})")


def _embree_offset_class(g, O, D, info, got):
    """root-cause class of a multi-hit mismatch of the embree loop: is a lost hit closer to its predecessor than the
    re-launch offset, or is the offset below the float32 resolution of the scaled scene?"""
    step = max(1e-4 * g.mesh.scale, 1e-8)  # documented: a factor of geometry.scale, whatever scale_to_box is
    gs = set(got)
    for r in range(len(O)):
        ts = [h[0] * float(np.linalg.norm(D[r])) for h in info[r]["hits"]]
        for k, (tt, tri) in enumerate(info[r]["hits"]):
            if (r, tri) not in gs and k > 0 and ts[k] - ts[k - 1] <= step * 1.5:
                return "|hit_within_relaunch_offset"
    # a hit reported twice: the ray was re-launched from (the float32 image of) a point that is not behind the face.
    # The scene is scaled to diag=100 and stored as float32 (ulp(100) = 100*2^-23); the re-launch point is
    # step*(100/diag)*|n.d| scene units behind the face.
    for r, tri in sorted(p for p in gs if got.count(p) > 1):
        if 0 <= tri < len(info[r]["cos"]) and step / g.diag * abs(float(info[r]["cos"][tri])) < F32_RESOLVE:
            return "|relaunch_offset_below_float32"
    return ""


@body("C12.ray")
def b_ray(case, ctx):
    with np.errstate(all="ignore"):
        g = Geo(case)
        rs = np.random.RandomState(int(case["seed"]) & 0x7FFFFFFF)
        rays = gen_rays(rs, g, int(case["n"]))
        if case.get("share"):
            rays = rays + shared_rays(np.random.RandomState((int(case["seed"]) ^ 0x5BD1E995) & 0x7FFFFFFF), g, rays, case["share"])
        if case.get("only") is not None:
            rays = [rays[i] for i in case["only"] if i < len(rays)]
        margin = MARGIN * g.diag
        kept = []
        for o, d, kind, okind in rays:
            if not np.isfinite(d).all() or np.linalg.norm(d) == 0:
                continue
            if g.dist(o) < margin:
                ctx.note(cls="ray_discard:origin_near_surface")
                continue
            kept.append((o, d, kind, okind))
        if not kept:
            ctx.note(cls="ray_case:empty")
            return
        O = np.array([k[0] for k in kept])
        D = np.array([k[1] for k in kept])
        dirmode = case["dir"]
        if dirmode == "unit":
            D = D / np.linalg.norm(D, axis=1)[:, None]
        info = classify_rays(g, O, D)
        sel = [i for i in range(len(kept)) if info[i]["gp"]]
        for i in range(len(kept)):
            ctx.note(cls="ray_generated")
            if not info[i]["gp"]:
                ctx.note(cls="ray_discard:" + info[i]["reason"])
        if not sel:
            ctx.note(cls="ray_case:empty")
            return
        O, D = O[sel], D[sel]
        info = [info[i] for i in sel]
        kinds = [kept[i][2:] for i in sel]
        nh = [len(x["hits"]) for x in info]
        for (kind, okind), k in zip(kinds, nh):
            ctx.note(cls=["ray_kept", f"ray:{kind}", f"origin:{okind}", "hits:" + ("0" if k == 0 else "1" if k == 1 else "2" if k == 2 else ">=3")])
            if kind == "axis" and k:
                ctx.note(cls="ray:axis_with_hit")
            if okind == "inbox" and k:
                ctx.note(cls="origin:inbox_with_hit")
        engine = case["engine"]
        ctx.note(cls="ray_faces:" + ("with_degenerate" if g.deg.any() else "all_ordinary"))
        ctx.note(cls="ray_mesh:" + ("with_unreferenced_vertices" if not g.referenced.all() else "all_referenced"))
        ctx.note(nontrivial=sum(nh) > 0, cls=[f"engine:{engine}", f"dir:{dirmode}", scale_class(g.diag), "place:" + case["place"]["rot"] + "/" + case["place"]["off"], "ray_offset:" + case["place"]["off"]])
        # hit points shared between different rays of this batch (the oracle's own points, 1e-7*diag apart)
        pts_r = [(r, O[r] + D[r] * t) for r in range(len(O)) for t, _ in info[r]["hits"]]
        if len(pts_r) > 1:
            Q = np.array([q for _, q in pts_r])
            R = np.array([r for r, _ in pts_r])
            dd = np.linalg.norm(Q[:, None, :] - Q[None, :, :], axis=-1)
            nshare = int(((dd < 1e-7 * g.diag) & (R[:, None] != R[None, :])).sum() // 2)
            if nshare:
                ctx.note(cls="batch:hit_point_shared_by_two_rays")
        first = {}
        if engine in ("native", "both"):
            eng = ray_triangle.RayMeshIntersector(g.mesh)
            first["native"] = check_engine("native", eng, g, O, D, info, dirmode, np.ones(len(O), dtype=bool))
        if engine in ("embree", "both") and HAVE_EMBREE:
            # float32 scene: only rays whose clearance from every edge is above the float32 uncertainty
            dist_o = np.abs(O - g.lo_all).max(axis=1)
            ok = np.array([info[i]["clear"] >= F32K * (dist_o[i] + g.diag) for i in range(len(O))])
            for i in range(len(O)):
                ctx.note(cls="embree_ray:" + ("asked" if ok[i] else "skipped_float32_clearance"))
            if ok.any():
                idx = np.nonzero(ok)[0]
                # both documented ways of constructing it: scaled to a ~100 box (default) or in mesh units; float32 is a
                # relative format, so the eligibility rule (relative to the scene size) is the same for both
                box = bool(case.get("scale_to_box", True))
                ctx.note(cls="embree:scale_to_box=" + str(box))
                eng = ray_pyembree.RayMeshIntersector(g.mesh) if box else ray_pyembree.RayMeshIntersector(g.mesh, scale_to_box=False)
                # the all-hits loop re-launches the ray behind each hit: consecutive hits must be the fixed margin apart
                multi_ok = np.array([info[i]["gap"] >= MARGIN * g.diag for i in idx])
                for i in range(len(idx)):
                    if not multi_ok[i]:
                        ctx.note(cls="embree_ray:all_hits_skipped_gap_below_margin")
                f = check_engine("embree", eng, g, O[idx], D[idx], [info[i] for i in idx], dirmode, multi_ok, opt="" if box else "|scale_to_box=False")
                if "native" in first:
                    check(np.array_equal(np.asarray(f, dtype=np.int64), np.asarray(first["native"], dtype=np.int64)[idx]), "C12.ray|engines_disagree|intersects_first", "native and embree first hits differ")


# ------------------------------------------------------------------------------------------ containment


def gen_points(rs, g, n):
    """query points for containment / proximity: -> list of (point, label)"""
    out = []
    nf = len(g.F)
    ext = g.hi - g.lo
    # vertex normals of the oracle: area weighted sum of face normals
    for _ in range(n):
        r = rs.uniform()
        h = g.diag * 10.0 ** rs.uniform(-3.0, 0.0) * (1.0 if rs.uniform() < 0.5 else -1.0)
        f = int(g.good[int(rs.randint(len(g.good)))])
        tri = np.array([g.A[f], g.B[f], g.C[f]])
        if r < 0.14:
            b = rs.dirichlet((1.0, 1.0, 1.0))
            p = b @ tri + g.nh[f] * h
            out.append((p, "over_face"))
        elif r < 0.20:
            # over the face, but only a sliver (barycentric 1e-7..1e-2) inside one edge
            b = rs.dirichlet((1.0, 1.0))
            e = 10.0 ** rs.uniform(-7.0, -2.0)
            b = np.roll(np.array([e, b[0] * (1 - e), b[1] * (1 - e)]), int(rs.randint(3)))
            out.append((b @ tri + g.nh[f] * h, "over_face_near_edge"))
        elif r < 0.40:
            k = int(rs.randint(3))
            a, b = tri[k], tri[(k + 1) % 3]
            s = rs.uniform(0.05, 0.95)
            q = a + (b - a) * s
            # average normal of all faces containing this edge (found by vertex ids)
            va, vb = g.F[f][k], g.F[f][(k + 1) % 3]
            adj = np.nonzero(((g.F == va).any(axis=1)) & ((g.F == vb).any(axis=1)) & ~g.deg)[0]
            nrm = g.nh[adj].sum(axis=0)
            if np.linalg.norm(nrm) < 1e-6:
                nrm = g.nh[f]
            nrm = nrm / np.linalg.norm(nrm)
            out.append((q + nrm * h, "over_edge"))
        elif r < 0.50:
            # exactly along a coordinate axis from a vertex: the nearest-vertex box of the candidate search touches the
            # triangle boxes in a single plane
            v = g.F[f][int(rs.randint(3))]
            p = g.V[v].copy()
            p[int(rs.randint(3))] += h
            out.append((p, "axis_from_vertex"))
        elif r < 0.64:
            v = g.F[f][int(rs.randint(3))]
            adj = np.nonzero((g.F == v).any(axis=1) & ~g.deg)[0]
            nrm = (g.nh[adj] * g.a2[adj][:, None]).sum(axis=0)
            if np.linalg.norm(nrm) < 1e-9 * g.a2.max():
                nrm = g.nh[f]
            nrm = nrm / np.linalg.norm(nrm)
            out.append((g.V[v] + nrm * h, "over_vertex"))
        elif r < 0.82:
            out.append((g.lo + rs.uniform(0, 1, 3) * ext, "in_box"))
        elif r < 0.92:
            u = rs.normal(size=3)
            u /= np.linalg.norm(u)
            out.append((g.centre + u * g.diag * rs.uniform(0.6, 3.0), "outside_box"))
        else:
            u = rs.normal(size=3)
            u /= np.linalg.norm(u)
            out.append((g.centre + u * g.diag * 10.0 ** rs.uniform(1.0, 3.0), "far"))
    return out


DEFAULT_DIRECTION = np.array([0.4395064455, 0.617598629942, 0.652231566745])  # documented fixed test direction of contains_points


def embree_contains_cause(g, hits_f, hits_b, cos_f, cos_b):
    """root-cause class of a wrong embree parity for one point: hits (t, tri) along +-DEFAULT_DIRECTION (unit, so t is a
    length) and the incidence cosines per triangle.  mesh.ray is the embree engine whenever embreex is importable."""
    step = max(1e-4 * g.mesh.scale, 1e-8)  # documented: a factor of geometry.scale, whatever scale_to_box is
    gaps = []
    for hh in (hits_f, hits_b):
        gaps += list(np.diff([x[0] for x in hh]))
    coss = [abs(float(cos_f[x[1]])) for x in hits_f] + [abs(float(cos_b[x[1]])) for x in hits_b]
    if gaps and min(gaps) <= 1.5 * step:
        return "|hit_within_relaunch_offset", step
    if coss and step / g.diag * min(coss) < F32_RESOLVE:
        return "|relaunch_offset_below_float32", step
    return "", step


def line_points(rs, g, pts):
    """extra query points on the line through an existing query point parallel to the documented fixed test direction
    of contains_points: their test rays meet the surface in the same points (own RandomState, see shared_rays)"""
    out = []
    for _ in range(int(rs.randint(1, 4))):
        p, lab = pts[int(rs.randint(len(pts)))]
        for _ in range(int(rs.randint(1, 3))):
            out.append((p + DEFAULT_DIRECTION * g.diag * rs.uniform(-1.0, 1.0), "on_test_line"))
    return out


@body("C12.contains")
def b_contains(case, ctx):
    with np.errstate(all="ignore"):
        g = Geo(case)
        rs = np.random.RandomState(int(case["seed"]) & 0x7FFFFFFF)
        pts = gen_points(rs, g, int(case["n"]))
        if case.get("line"):
            pts = pts + line_points(np.random.RandomState((int(case["seed"]) ^ 0x5BD1E995) & 0x7FFFFFFF), g, pts)
        if case.get("only") is not None:
            pts = [pts[i] for i in case["only"] if i < len(pts)]
        margin = MARGIN * g.diag
        P, labels, inside, gpflag, clear = [], [], [], [], []
        for p, lab in pts:
            ctx.note(cls="cpoint_generated")
            if g.dist(p) < margin:
                ctx.note(cls="cpoint_discard:near_surface")
                continue
            w = g.winding(p)
            if abs(w - round(w)) > 1e-6 or round(w) not in (0, 1):
                ctx.note(cls="cpoint_discard:winding_not_0_or_1")
                continue
            P.append(p)
            labels.append(lab)
            inside.append(abs(w) >= 0.5)
        if not P:
            ctx.note(cls="contains_case:empty")
            return
        P = np.array(P)
        inside = np.array(inside)
        # are the library's own two test rays (documented fixed direction, both senses) in general position?
        O2 = np.vstack((P, P))
        D2 = np.vstack((np.tile(DEFAULT_DIRECTION, (len(P), 1)), np.tile(-DEFAULT_DIRECTION, (len(P), 1))))
        info = classify_rays(g, O2, D2)
        n = len(P)
        gp = np.array([info[i]["gp"] and info[i + n]["gp"] for i in range(n)])
        clr = np.array([min(info[i]["clear"], info[i + n]["clear"]) for i in range(n)])
        inbox = ((P >= g.lo) & (P <= g.hi)).all(axis=1)
        engine = case["engine"]
        for i in range(n):
            ctx.note(cls=["cpoint_kept", "cpoint:" + labels[i], "cloc:" + ("inside" if inside[i] else "outside_in_box" if inbox[i] else "outside_box"), "cpoint_rays:" + ("gp" if gp[i] else "nongp")])
        ctx.note(cls="contains_faces:" + ("with_degenerate" if g.deg.any() else "all_ordinary"))
        ctx.note(cls="contains_mesh:" + ("with_unreferenced_vertices" if not g.referenced.all() else "all_referenced"))
        ctx.note(nontrivial=True, cls=[f"contains_engine:{engine}", scale_class(g.diag), "contains_offset:" + case["place"]["off"]])
        if engine == "native":
            eng = ray_triangle.RayMeshIntersector(g.mesh)
            sel = np.arange(n)
        else:
            if not HAVE_EMBREE:
                return
            box = bool(case.get("scale_to_box", True))
            ctx.note(cls="contains_embree:scale_to_box=" + str(box))
            eng = ray_pyembree.RayMeshIntersector(g.mesh) if box else ray_pyembree.RayMeshIntersector(g.mesh, scale_to_box=False)
            ok = clr >= F32K * (np.abs(P - g.lo_all).max(axis=1) + g.diag)
            sel = np.nonzero(ok | ~inbox)[0]
            if len(sel) == 0:
                return
        got = np.asarray(eng.contains_points(P[sel].copy()))
        check(got.shape == (len(sel),) and got.dtype == bool, f"C12.contains|{engine}|shape", f"{got.shape} {got.dtype}")
        bad = np.nonzero(got != inside[sel])[0]
        if len(bad):
            j = int(bad[0])
            i = int(sel[j])
            cls = "inside_reported_outside" if inside[i] else "outside_reported_inside"
            hits_f = [h for h in info[i]["hits"]]
            hits_b = [h for h in info[i + n]["hits"]]
            cause = ""
            extra = ""
            if engine == "embree":
                cause, step = embree_contains_cause(g, hits_f, hits_b, info[i]["cos"], info[i + n]["cos"])
                extra = f" [embree re-launch offset {step:.3g}, diag {g.diag:.3g}]"
            if g.deg.any():
                cause += "|mesh_with_degenerate_faces"
            if engine == "embree" and not case.get("scale_to_box", True):
                cause = "|scale_to_box=False" + cause
            sig = f"C12.contains|{engine}{cause}|{cls}|rays={'gp' if gp[i] else 'nongp'}"
            raise Violation(sig, f"point {i} ({labels[i]}) {P[i].tolist()}: contains={bool(got[j])}, winding number says inside={bool(inside[i])}; distance to surface {g.dist(P[i]):.3g}; oracle hits along +dir {len(hits_f)}, -dir {len(hits_b)}{extra}")


# ------------------------------------------------------------------------------------------ proximity


def _prox_cause(g, p, tri, alld):
    """root-cause class of a wrong nearest distance: proximity.closest_point treats the two best candidates as tied when
    their SQUARED distances differ by < 1e-8 (absolute); triangles.closest_point assigns the edge region when the
    un-normalized barycentric numerator (barycentric * (2*area)^2) is < 1e-13 (absolute)."""
    d2 = np.sort(alld**2)
    tie = len(d2) > 1 and (d2[1] - d2[0]) < 1e-8 and d2[0] > 1e-8
    b = ob.projection_bary(g.A, g.B, g.C, tri, p)
    snap = (b > 0).all() and b.min() * g.a2[tri] ** 2 < 1e-13 * (1 + 1e-6)
    if tie and snap:
        return "abs_tie_window+abs_tol_zero_region"
    return "abs_tie_window" if tie else "abs_tol_zero_region" if snap else "no_cause_class"


@body("C12.prox")
def b_prox(case, ctx):
    with np.errstate(all="ignore"):
        g = Geo(case)
        rs = np.random.RandomState(int(case["seed"]) & 0x7FFFFFFF)
        pts = gen_points(rs, g, int(case["n"]))
        if case.get("only") is not None:
            pts = [pts[i] for i in case["only"] if i < len(pts)]
        margin = MARGIN * g.diag
        P, labels, ref = [], [], []
        for p, lab in pts:
            d, tri, q, feat, alld = g.surface_distance(p)
            if d < margin:
                ctx.note(cls="ppoint_discard:near_surface")
                continue
            P.append(p)
            labels.append(lab)
            ref.append((d, tri, q, feat, alld))
        if not P:
            ctx.note(cls="prox_case:empty")
            return
        P = np.array(P)
        n = len(P)
        m = g.mesh
        ctx.note(cls="prox_faces:" + ("with_degenerate" if g.deg.any() else "all_ordinary"))
        for kd in (case.get("degen") or {}).get("kinds", []):
            ctx.note(cls="degenerate_face:" + kd)
        ctx.note(cls="prox_vertices:" + ("with_unreferenced" if not g.referenced.all() else "all_referenced"))
        ctx.note(nontrivial=True, cls=[scale_class(g.diag), "prox_mesh:" + ("closed" if g.closed else "open"), "prox_offset:" + case["place"]["off"]])
        for i in range(n):
            ctx.note(cls=["ppoint_kept", "ppoint:" + labels[i], "closest_feature:" + {"f": "face", "e": "edge", "v": "vertex"}[ref[i][3]]])

        # ---- nearest.vertex
        dv, iv = m.nearest.vertex(P.copy())
        dv = np.asarray(dv, dtype=np.float64)
        iv = np.asarray(iv)
        check(dv.shape == (n,) and iv.shape == (n,), "C12.prox|vertex|shape", f"{dv.shape} {iv.shape}")
        for i in range(n):
            dd = np.linalg.norm(g.V - P[i], axis=1)  # ALL rows of mesh.vertices: "vertex_id: index of mesh.vertices", kdtree "contains mesh.vertices"
            if not g.referenced.all():
                ctx.note(cls="nearest_vertex:" + ("unreferenced" if not g.referenced[int(dd.argmin())] else "referenced_in_mesh_with_unreferenced"))
            tol = 1e-9 * dd.min() + 64 * EPS * (g.cmax + np.abs(P[i]).max())
            vcls = "" if g.referenced.all() else "|mesh_with_unreferenced_vertices"
            check(0 <= int(iv[i]) < len(g.V), "C12.prox|vertex|index_range" + vcls, str(int(iv[i])))
            check(abs(dd[int(iv[i])] - dd.min()) <= tol, "C12.prox|vertex|not_nearest" + vcls, f"point {P[i].tolist()}: vertex {int(iv[i])} at {dd[int(iv[i])]}, nearest {int(dd.argmin())} at {dd.min()}")
            check(abs(dv[i] - dd.min()) <= tol, "C12.prox|vertex|distance" + vcls, f"point {P[i].tolist()}: {dv[i]} vs {dd.min()}")

        # ---- nearest.on_surface
        dcls = "|mesh_with_degenerate_faces" if g.deg.any() else ""
        cl, dist, tid = m.nearest.on_surface(P.copy())
        cl = np.asarray(cl, dtype=np.float64)
        dist = np.asarray(dist, dtype=np.float64)
        tid = np.asarray(tid)
        check(cl.shape == (n, 3) and dist.shape == (n,) and tid.shape == (n,), "C12.prox|on_surface|shape", f"{cl.shape} {dist.shape} {tid.shape}")
        for i in range(n):
            d, tri, q, feat, alld = ref[i]
            tol = DIST_RTOL * d + 64 * EPS * (g.cmax + np.abs(P[i]).max())
            check(np.isfinite(dist[i]) and np.isfinite(cl[i]).all(), "C12.prox|on_surface|not_finite" + dcls, f"point {i} ({labels[i]}) {P[i].tolist()}: closest {cl[i].tolist()} distance {dist[i]!r} triangle {int(tid[i])}; the minimum over the {len(g.good)} non-degenerate triangles is {d!r}")
            check(0 <= int(tid[i]) < len(g.F), "C12.prox|on_surface|triangle_range", str(int(tid[i])))
            if g.deg.any():
                ctx.note(cls="on_surface_reports:" + ("degenerate_face" if g.deg[int(tid[i])] else "ordinary_face_in_mesh_with_degenerate"))
            if abs(dist[i] - d) > tol:
                # root-cause class: is a second triangle inside the library's absolute tie window on SQUARED distances?
                cls = "too_large" if dist[i] > d else "too_small"
                raise Violation(f"C12.prox|on_surface|distance|{cls}|{_prox_cause(g, P[i], tri, alld)}", f"point {i} ({labels[i]}) {P[i].tolist()}: distance {dist[i]!r}, minimum over all {len(g.F)} triangles {d!r} (triangle {tri}, feature {feat}); reported triangle {int(tid[i])} is at {alld[int(tid[i])]!r}; diag {g.diag:.3g}")
            check(0 <= int(tid[i]) < len(g.F), "C12.prox|on_surface|triangle_range", str(int(tid[i])))
            dq = float(np.linalg.norm(cl[i] - P[i]))
            check(abs(dq - d) <= tol, "C12.prox|on_surface|point_not_at_distance", f"point {i} {P[i].tolist()}: closest {cl[i].tolist()} is {dq!r} away, distance is {d!r}")
            res = (ob.point_edges_residual if g.deg[int(tid[i])] else ob.point_triangle_residual)(g.A, g.B, g.C, int(tid[i]), cl[i])
            check(res <= 1e-9 * g.diag + 64 * EPS * g.cmax, "C12.prox|on_surface|point_off_triangle", f"point {i}: closest {cl[i].tolist()} is {res:.3g} from reported triangle {int(tid[i])}")

        # ---- signed distance (watertight meshes only)
        if g.closed:
            wn = np.array([g.winding(p) for p in P])
            okw = (np.abs(wn - np.round(wn)) < 1e-6) & np.isin(np.round(wn), (0, 1))
            sd = np.asarray(m.nearest.signed_distance(P.copy()), dtype=np.float64)
            check(sd.shape == (n,), "C12.prox|signed_distance|shape", f"{sd.shape}")
            for i in range(n):
                d, tri, q, feat, alld = ref[i]
                tol = DIST_RTOL * d + 64 * EPS * (g.cmax + np.abs(P[i]).max())
                check(np.isfinite(sd[i]), "C12.prox|signed_distance|not_finite" + dcls, f"point {i} ({labels[i]}) {P[i].tolist()}: signed distance {sd[i]!r}, distance to the surface is {d!r}")
                if abs(abs(sd[i]) - d) > tol:
                    raise Violation(f"C12.prox|signed_distance|magnitude|{'closest_face_reported_is_degenerate' if g.deg[int(tid[i])] else _prox_cause(g, P[i], tri, alld)}", f"point {i} {P[i].tolist()}: |{sd[i]!r}| vs {d!r}")
                if not okw[i]:
                    continue
                ins = abs(wn[i]) >= 0.5
                ctx.note(cls="signed:" + ("inside" if ins else "outside") + ":" + {"f": "face", "e": "edge", "v": "vertex"}[feat])
                if (sd[i] > 0) != ins:
                    # the sign comes from the face normal when the projection falls on the closest triangle, from mesh.ray.contains_points otherwise
                    # (decided for the triangle the library itself reports as closest: tol.merge window on the barycentrics)
                    bl = ob.projection_bary(g.A, g.B, g.C, int(tid[i]), P[i])
                    route = "normal" if ((bl >= -1e-8) & (bl <= 1 + 1e-8)).all() else "contains_points"
                    if route == "contains_points" and HAVE_EMBREE:
                        inf2 = classify_rays(g, np.array([P[i], P[i]]), np.array([DEFAULT_DIRECTION, -DEFAULT_DIRECTION]))
                        route += embree_contains_cause(g, inf2[0]["hits"], inf2[1]["hits"], inf2[0]["cos"], inf2[1]["cos"])[0]
                    raise Violation(f"C12.prox|signed_distance|sign|via_{route}|{'inside_negative' if ins else 'outside_positive'}", f"point {i} ({labels[i]}) {P[i].tolist()}: signed distance {sd[i]!r}, winding number {wn[i]:.6f}; closest feature {feat}; diag {g.diag:.3g}")


# ------------------------------------------------------------------------------------------ strategies

_f = lambda lo, hi: st.floats(lo, hi, allow_nan=False, allow_infinity=False)  # noqa
KINDS = ["tetra", "box", "octa", "icos", "prism", "prism", "torus", "torus", "uvsphere"]  # non-convex kinds twice


@st.composite
def place_st(draw):
    return {
        "log10s": draw(st.one_of(_f(-2.0, 3.0), _f(-2.0, -1.3), _f(2.3, 3.0), st.sampled_from([-2.0, -1.0, 0.0, 1.0, 2.0, 3.0]))),
        "rot": draw(st.sampled_from(["id", "quarter", "random", "random"])),
        "off": draw(st.sampled_from(["zero", "near", "near", "far", "vfar"])),
        "rseed": draw(st.integers(0, 2**31 - 1)),
    }


@st.composite
def base_case(draw, allow_drop=True, nmax=16):
    spec = draw(gmesh.mesh_spec(kinds=KINDS, max_parts=2, jitter=True, max_faces=200))
    # every template has bounding radius < 4 at scale 1 and parts are scaled by <= 2: 24 apart is disjoint (the 12 of
    # gen.meshes lets two scale-2 tori overlap, which makes inside/outside of the union ambiguous)
    for i, part in enumerate(spec["parts"]):
        part["offset"] = [24.0 * i, 0.0, 0.0]
    case = {"mesh": spec, "place": draw(place_st()), "seed": draw(st.integers(0, 2**31 - 1)), "n": draw(st.integers(1, nmax))}
    if allow_drop and draw(st.integers(0, 4)) == 0:
        case["drop"] = draw(st.lists(st.integers(0, 400), min_size=1, max_size=4))
    if draw(st.integers(0, 2)) == 0:
        case["degen"] = {"seed": draw(st.integers(0, 2**31 - 1)), "kinds": draw(st.lists(st.sampled_from(["iij", "iji", "jii", "iii", "collinear", "coincident"]), min_size=1, max_size=4)),
                         "where": draw(st.sampled_from(["start", "middle", "end", "spread"]))}
    if draw(st.integers(0, 2)) == 0:
        case["extra"] = {"seed": draw(st.integers(0, 2**31 - 1)), "k": draw(st.integers(1, 8)), "where": draw(st.sampled_from(["start", "middle", "end", "spread"]))}
    return case


@st.composite
def ray_case(draw, engines=("native", "embree", "both")):
    case = draw(base_case())
    case["dir"] = draw(st.sampled_from(["unit", "unit", "raw"]))
    case["engine"] = draw(st.sampled_from(list(engines)))
    if case["engine"] != "native" and draw(st.booleans()):
        case["scale_to_box"] = False
    share = draw(st.sampled_from([None, "target", "collinear", "mixed", "mixed"]))
    if share:
        case["share"] = share
    return case


@st.composite
def contains_case(draw):
    case = draw(base_case(allow_drop=False))
    case["engine"] = draw(st.sampled_from(["native", "embree"]))
    if case["engine"] == "embree" and draw(st.booleans()):
        case["scale_to_box"] = False
    if draw(st.booleans()):
        case["line"] = True
    return case


@st.composite
def prox_case(draw):
    return draw(base_case(allow_drop=True))


# ------------------------------------------------------------------------------------------ sub-checks


@subcheck("C12", "ray_native", shards={"quick": 4, "thorough": 16})
def s_ray_native(ctx):
    ctx.given("C12.ray", ray_case(engines=("native",)), n={"quick": 1800, "thorough": 40000})


@subcheck("C12", "ray_embree", shards={"quick": 4, "thorough": 16})
def s_ray_embree(ctx):
    ctx.given("C12.ray", ray_case(engines=("embree", "both")), n={"quick": 1800, "thorough": 40000})


@subcheck("C12", "contains", shards={"quick": 4, "thorough": 12})
def s_contains(ctx):
    ctx.given("C12.contains", contains_case(), n={"quick": 1200, "thorough": 25000})


@subcheck("C12", "prox", shards={"quick": 4, "thorough": 16})
def s_prox(ctx):
    ctx.given("C12.prox", prox_case(), n={"quick": 1200, "thorough": 25000})


REQUIRED_CLASSES["C12"] = [
    "hits:1",
    "hits:2",
    "hits:>=3",
    "hits:0",
    "ray:axis_with_hit",
    "origin:inbox_with_hit",
    "origin:far",
    "engine:native",
    "closest_feature:face",
    "closest_feature:edge",
    "closest_feature:vertex",
    "cloc:inside",
    "cloc:outside_in_box",
    "cloc:outside_box",
    "ppoint:axis_from_vertex",
    "signed:inside:face",
    "signed:outside:edge",
    "signed:outside:vertex",
    "engine:both",
    "contains_engine:native",
    "contains_engine:embree",
    "dir:raw",
    "dir:unit",
    "ray:shared_target",
    "ray:collinear_opposite",
    "ray:collinear_behind",
    "ray:duplicate",
    "batch:hit_point_shared_by_two_rays",
    "cpoint:on_test_line",
    "ray_offset:vfar",
    "embree:scale_to_box=False",
    "embree:scale_to_box=True",
    "contains_embree:scale_to_box=False",
    "contains_embree:scale_to_box=True",
    "ray_mesh:with_unreferenced_vertices",
    "ray_faces:with_degenerate",
    "contains_faces:with_degenerate",
    "prox_faces:with_degenerate",
    "degenerate_face:iij",
    "degenerate_face:iji",
    "degenerate_face:iii",
    "degenerate_face:collinear",
    "degenerate_face:coincident",
    "contains_mesh:with_unreferenced_vertices",
    "prox_vertices:with_unreferenced",
    "nearest_vertex:unreferenced",
    "nearest_vertex:referenced_in_mesh_with_unreferenced",
    "contains_offset:vfar",
    "prox_offset:vfar",
]
