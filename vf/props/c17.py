"""C17 — copies are faithful and share no mutable state with the original."""

import copy as pycopy

import numpy as np
from hypothesis import strategies as st

import trimesh
from trimesh import primitives

from ..core import ASSUMPTIONS, REQUIRED_CLASSES, RULES, Violation, body, check, subcheck
from ..gen import matrices as gm
from ..gen import meshes as gmesh

RULES["C17"] = (
    "every geometry kind in a drawn state (Trimesh with cold or warm cache, face/vertex colours or texture+material, "
    "attributes, nested metadata, density override; Box/Sphere/Cylinder/Capsule/Extrusion with non-default parameters; "
    "Path2D/3D with lines+arcs, layers, colours, metadata, warm cache; PointCloud with colours; Scene with nested graph, "
    "instancing, metadata; VoxelGrid of each encoding kind with a non-trivial transform and metadata) copied by .copy() "
    "(every keyword form), copy.copy or copy.deepcopy; then a drawn sequence of edits (in-place edits of every stored "
    "array and nested container reachable from the object, and API mutators) is applied to the copy or to the original. "
    "Oracle: snapshot(copy) == snapshot(original) right after copying (geometry, parameters, visuals, metadata, "
    "attributes, derived values); after every edit of one side the snapshot of the other side is unchanged. "
    "Non-trivial: an edit that changed the edited side's snapshot, on an object in a non-default state."
)
ASSUMPTIONS["C17"] = [
    "sharing of read-only cached arrays is allowed: the verdict is purely behavioural (snapshots)",
    "objects the documentation declares shared by design are not edited: texture image pixel buffers (PIL images) are compared by content only",
]

_f = lambda lo, hi: st.floats(lo, hi, allow_nan=False, allow_infinity=False)  # noqa


# ----------------------------------------------------------------------------------- snapshots


def canon(x):
    """canonical, deep, hashable-by-== representation"""
    if isinstance(x, np.ndarray):
        return ("nd", str(x.dtype), x.shape, x.tobytes())
    if isinstance(x, (np.integer,)):
        return int(x)
    if isinstance(x, (np.floating,)):
        return float(x)
    if isinstance(x, (np.bool_,)):
        return bool(x)
    if isinstance(x, dict):
        return ("dict", tuple(sorted(((str(k), canon(v)) for k, v in x.items()), key=lambda kv: kv[0])))
    if isinstance(x, (list, tuple)):
        return ("seq", tuple(canon(v) for v in x))
    if isinstance(x, (set, frozenset)):
        return ("set", tuple(sorted(repr(canon(v)) for v in x)))
    if isinstance(x, (str, bytes, int, float, bool)) or x is None:
        return x
    return ("repr", type(x).__name__)


def snap_visual(v):
    out = {"kind": v.kind}
    if v.kind in ("face", "vertex"):
        out["face_colors"] = np.array(v.face_colors)
        out["vertex_colors"] = np.array(v.vertex_colors)
    elif v.kind == "texture":
        out["uv"] = None if v.uv is None else np.array(v.uv)
        mat = v.material
        out["material_type"] = type(mat).__name__
        for k in ("diffuse", "ambient", "specular", "glossiness", "baseColorFactor", "metallicFactor", "roughnessFactor", "name",
                  "emissiveFactor", "alphaMode", "alphaCutoff", "doubleSided"):
            if hasattr(mat, k):
                val = getattr(mat, k)
                out["mat_" + k] = np.array(val) if isinstance(val, (np.ndarray, list, tuple)) else canon(val)
        for k in ("baseColorTexture", "emissiveTexture", "normalTexture", "occlusionTexture", "metallicRoughnessTexture"):
            if getattr(mat, k, None) is not None:
                out["mat_" + k] = np.asarray(getattr(mat, k)).copy()
        try:
            out["mat_hash"] = hash(mat)
        except TypeError:
            pass
        img = getattr(mat, "image", None)
        if img is not None:
            out["image"] = np.asarray(img).copy()
    return out


def snap_mesh(m):
    d = {
        "type": type(m).__name__,
        "vertices": np.array(m.vertices),
        "faces": np.array(m.faces),
        "visual": snap_visual(m.visual),
        "metadata": canon({k: v for k, v in m.metadata.items() if k != "processed"}),
        "face_attributes": {k: np.array(v) for k, v in m.face_attributes.items()},
        "vertex_attributes": {k: np.array(v) for k, v in m.vertex_attributes.items()},
        "density": float(m.density),
        # derived values (computed now or earlier)
        "area": float(m.area),
        "volume": float(m.volume),
        "bounds": None if m.bounds is None else np.array(m.bounds),
        "face_normals": np.array(m.face_normals),
        "edges_unique": np.array(m.edges_unique),
        "center_mass": np.array(m.center_mass),
        # spatial indexes answer from their own copy of the coordinates
        "kdtree_data": np.array(m.kdtree.data),
    }
    if isinstance(m, primitives.Primitive):
        p = m.primitive
        for k in ("radius", "height", "extents", "sections", "subdivisions", "transform"):
            if hasattr(p, k):
                val = getattr(p, k)
                d["param_" + k] = np.array(val) if isinstance(val, np.ndarray) else val
        if hasattr(p, "polygon"):
            d["param_polygon"] = p.polygon.wkt
    return d


def snap_path(p):
    ents = []
    for e in p.entities:
        ents.append({"type": type(e).__name__, "points": [int(i) for i in e.points], "closed": bool(e.closed), "layer": getattr(e, "layer", None), "color": None if getattr(e, "color", None) is None else np.array(e.color)})
    d = {
        "type": type(p).__name__,
        "vertices": np.array(p.vertices),
        "entities": ents,
        "metadata": canon(dict(p.metadata)),
        "vertex_attributes": {k: np.array(v) for k, v in getattr(p, "vertex_attributes", {}).items()},
        "colors": None if p.colors is None else np.array(p.colors),
        "length": float(p.length),
        "bounds": np.array(p.bounds),
        "n_paths": len(p.paths),
        "kdtree_data": np.array(p.kdtree.data),
    }
    if p.vertices.shape[1] == 2:
        d["area"] = float(p.area)
    return d


def snap_points(pc):
    return {"type": "PointCloud", "vertices": np.array(pc.vertices), "colors": np.array(pc.colors), "metadata": canon(dict(pc.metadata)), "bounds": np.array(pc.bounds)}


def snap_voxel(vg):
    return {
        "type": "VoxelGrid",
        "dense": np.array(vg.encoding.dense),
        "transform": np.array(vg.transform),
        "metadata": canon(dict(vg.metadata)),
        "points": np.array(vg.points),
        "filled": int(vg.filled_count),
        "shape": tuple(int(x) for x in vg.shape),
        "encoding_type": type(vg.encoding).__name__,
        "bounds": np.array(vg.bounds),
        "volume": float(vg.volume),
    }


def snap_scene(s):
    edges = []
    for a, b, attr in s.graph.to_edgelist():
        edges.append((str(a), str(b), canon({k: (np.array(v) if k == "matrix" else v) for k, v in attr.items()})))
    return {
        "type": "Scene",
        "geometry": {k: snapshot(g) for k, g in s.geometry.items()},
        "edges": sorted(edges, key=lambda e: (e[0], e[1])),
        "base_frame": s.graph.base_frame,
        "metadata": canon(dict(s.metadata)),
        "bounds": None if s.bounds is None else np.array(s.bounds),
        "nodes_geometry": sorted(s.graph.nodes_geometry),
    }


def snapshot(o):
    if isinstance(o, trimesh.Trimesh):
        return snap_mesh(o)
    if isinstance(o, trimesh.path.path.Path):
        return snap_path(o)
    if isinstance(o, trimesh.PointCloud):
        return snap_points(o)
    if isinstance(o, trimesh.voxel.VoxelGrid):
        return snap_voxel(o)
    if isinstance(o, trimesh.Scene):
        return snap_scene(o)
    raise TypeError(type(o))


def diff_keys(a, b, prefix=""):
    """keys (dotted) at which two snapshots differ"""
    out = []
    if isinstance(a, dict) and isinstance(b, dict):
        for k in sorted(set(a) | set(b), key=str):
            if k not in a or k not in b:
                out.append(f"{prefix}{k}(missing)")
            else:
                out += diff_keys(a[k], b[k], f"{prefix}{k}.")
        return out
    if isinstance(a, list) and isinstance(b, list) and len(a) == len(b):
        for i, (x, y) in enumerate(zip(a, b)):
            out += diff_keys(x, y, f"{prefix}{i}.")
        return out
    if canon(a) != canon(b):
        out.append(prefix.rstrip("."))
    return out


# ----------------------------------------------------------------------------------- builders


def build(spec):
    kind = spec["kind"]
    rs = np.random.RandomState(spec.get("seed", 0))
    if kind == "mesh":
        V, F = gmesh.build(spec["mesh"])
        m = trimesh.Trimesh(V.copy(), F.copy(), process=False)
        nf, nv = len(F), len(V)
        vis = spec.get("visual")
        if vis == "face":
            m.visual.face_colors = rs.randint(0, 255, (nf, 4)).astype(np.uint8)
        elif vis == "vertex":
            m.visual.vertex_colors = rs.randint(0, 255, (nv, 4)).astype(np.uint8)
        elif vis == "texture":
            from PIL import Image

            img = Image.fromarray(rs.randint(0, 255, (2, 2, 3)).astype(np.uint8))
            mat = trimesh.visual.material.SimpleMaterial(image=img, diffuse=[10, 20, 30, 255])
            m.visual = trimesh.visual.TextureVisuals(uv=rs.rand(nv, 2), material=mat)
        elif vis == "default_inplace":
            # colours that were never assigned: read the default face colours, then edit the default vertex colours in place
            _ = m.visual.face_colors
            m.visual.vertex_colors[0] = [255, 0, 0, 255]
        elif vis == "default_inplace_face":
            _ = m.visual.vertex_colors
            m.visual.face_colors[0] = [0, 255, 0, 255]
        elif vis == "pbr":
            kw = dict(spec.get("pbr") or {"metallicFactor": 0.3, "roughnessFactor": 0.6})
            if spec.get("pbr_image"):
                from PIL import Image

                kw["baseColorTexture"] = Image.fromarray(rs.randint(0, 255, (2, 2, 3)).astype(np.uint8))
            mat = trimesh.visual.material.PBRMaterial(baseColorFactor=[100, 150, 200, 255], **kw)
            m.visual = trimesh.visual.TextureVisuals(uv=rs.rand(nv, 2), material=mat)
        m.face_attributes["tag"] = np.arange(nf) * 10
        m.vertex_attributes["w"] = np.arange(nv) * 0.5
        m.metadata["nest"] = {"a": [1, 2, 3], "b": {"c": 1}}
        m.metadata["arr"] = np.arange(3.0)
        if spec.get("density"):
            m.density = 2.5
        if spec.get("warm"):
            _ = m.face_normals, m.vertex_normals, m.area, m.volume, m.edges_unique, m.face_adjacency, m.bounds, m.kdtree, m.triangles_tree
        return m
    if kind == "primitive":
        T = np.array(spec["T"], dtype=np.float64)
        pk = spec["prim"]
        if pk == "Box":
            p = primitives.Box(extents=spec["extents"], transform=T)
        elif pk == "Sphere":
            p = primitives.Sphere(radius=spec["radius"], transform=T, subdivisions=spec["subdivisions"])
        elif pk == "Cylinder":
            p = primitives.Cylinder(radius=spec["radius"], height=spec["height"], transform=T, sections=spec["sections"])
        elif pk == "Capsule":
            p = primitives.Capsule(radius=spec["radius"], height=spec["height"], transform=T, sections=spec["sections"])
        else:
            from shapely.geometry import Polygon

            ring = np.array([[0, 0], [2, 0], [2, 1], [1, 1.5], [0, 1]], dtype=np.float64)
            if spec.get("fine_polygon"):
                # coordinates that need all 17 significant digits
                ring = ring * (1.0 / 3.0) + rs.uniform(-1e-3, 1e-3, ring.shape) + np.pi
            p = primitives.Extrusion(polygon=Polygon(ring), height=spec["height"], transform=T)
        p.metadata["nest"] = {"a": [1, 2, 3]}
        if spec.get("visual") == "face":
            p.visual.face_colors = rs.randint(0, 255, (len(p.faces), 4)).astype(np.uint8)
        if spec.get("warm"):
            _ = p.vertices, p.face_normals, p.volume
        return p
    if kind == "path":
        from trimesh.path.entities import Arc, Line

        dim = spec["dim"]
        ang = np.sort(rs.uniform(0, 2 * np.pi, 5))
        poly = np.column_stack((np.cos(ang), np.sin(ang))) * 2.0
        verts = poly.tolist()
        ents = [Line([0, 1, 2]), Line([2, 3, 4, 0])]
        k = len(verts)
        c = np.array([6.0, 0.0])
        verts += [(c + [np.cos(t), np.sin(t)]).tolist() for t in (0.0, 2.0, 4.0)]
        ents.append(Arc([k, k + 1, k + 2], closed=True))
        V = np.array(verts)
        if dim == 3:
            V = np.column_stack((V, np.zeros(len(V))))
        ents[0].layer = "L0"
        ents[1].layer = "L1"
        cls = trimesh.path.Path2D if dim == 2 else trimesh.path.Path3D
        p = cls(entities=ents, vertices=V, process=False, metadata={"nest": {"a": [1, 2]}})
        if spec.get("colors"):
            p.colors = rs.randint(0, 255, (len(ents), 4)).astype(np.uint8)
        if spec.get("vattr"):
            p.vertex_attributes["w"] = np.arange(len(V)) * 1.5
        if spec.get("warm"):
            _ = p.paths, p.discrete, p.length, p.bounds, p.kdtree
            if dim == 2:
                _ = p.polygons_closed, p.polygons_full, p.area
        return p
    if kind == "points":
        n = 8
        pc = trimesh.PointCloud(rs.rand(n, 3), colors=rs.randint(0, 255, (n, 4)).astype(np.uint8))
        pc.metadata["nest"] = {"a": [1, 2]}
        return pc
    if kind == "voxel":
        dense = rs.rand(3, 4, 2) > 0.4
        dense[0, 0, 0] = True
        pad = spec.get("pad")
        if pad:
            # completely empty planes at the far end (and optionally the near end) of every axis: the declared shape
            # is larger than the box of the filled cells
            dense = np.pad(dense, [(pad[3] if len(pad) > 3 else 0, pad[0]), (0, pad[1]), (0, pad[2])])
        enc = spec["encoding"]
        from trimesh.voxel import encoding as E

        if enc == "dense":
            e = E.DenseEncoding(dense)
        elif enc == "sparse":
            e = E.SparseBinaryEncoding(np.column_stack(np.nonzero(dense)), dense.shape)
        elif enc == "rle":
            e = E.RunLengthEncoding.from_dense(dense.reshape(-1), dtype=bool).reshape(dense.shape)
        else:
            e = E.BinaryRunLengthEncoding.from_dense(dense.reshape(-1)).reshape(dense.shape)
        T = np.array(spec["T"], dtype=np.float64)
        vg = trimesh.voxel.VoxelGrid(e, transform=T, metadata={"nest": {"a": [1, 2]}})
        if spec.get("warm"):
            _ = vg.points, vg.bounds, vg.volume
        return vg
    if kind == "scene":
        box = trimesh.Trimesh(*gmesh.build({"parts": [{"kind": "box", "ext": [1, 2, 3]}]}), process=False)
        box.visual.face_colors = rs.randint(0, 255, (12, 4)).astype(np.uint8)
        tet = trimesh.Trimesh(*gmesh.build({"parts": [{"kind": "tetra"}]}), process=False)
        s = trimesh.Scene()
        mats = [np.array(m, dtype=np.float64) for m in spec["edges"]]
        s.add_geometry(box, node_name="n0", geom_name="box", transform=mats[0])
        s.add_geometry(tet, node_name="n1", geom_name="tet", parent_node_name="n0", transform=mats[1])
        s.graph.update(frame_to="n2", frame_from=s.graph.base_frame, matrix=mats[2], geometry="box")
        s.metadata["nest"] = {"a": [1, 2]}
        if spec.get("warm"):
            _ = s.bounds, s.graph.to_flattened(), s.triangles
        return s
    raise ValueError(kind)


def do_copy(o, how):
    if how == "copy":
        return o.copy()
    if how == "copy_cache":
        return o.copy(include_cache=True)
    if how == "copy_novisual":
        return o.copy(include_visual=False)
    if how == "copy.copy":
        return pycopy.copy(o)
    if how == "deepcopy":
        return pycopy.deepcopy(o)
    raise ValueError(how)


# ----------------------------------------------------------------------------------- edits


def edits_for(o):
    """list of (name, function(obj)) edits applicable to this object; every edit is an in-place edit of stored
    state or a public mutator"""
    E = []
    if isinstance(o, trimesh.Trimesh) and not isinstance(o, primitives.Primitive):
        E += [
            ("vertices[0]+=", lambda m: m.vertices.__setitem__(0, m.vertices[0] + 1.0)),
            ("vertices*=", lambda m: m.vertices.__imul__(1.5)),
            ("faces[0]=reversed", lambda m: m.faces.__setitem__(0, m.faces[0][::-1].copy())),
            ("apply_transform", lambda m: m.apply_transform(trimesh.transformations.rotation_matrix(0.3, [1, 2, 3], [1, 0, 0]))),
            ("apply_scale", lambda m: m.apply_scale(2.0)),
            ("update_faces", lambda m: m.update_faces(np.arange(len(m.faces))[1:])),
            ("merge_vertices", lambda m: (m.unmerge_vertices(), m.merge_vertices())),
            ("invert", lambda m: m.invert()),
            ("face_attributes[tag][0]=", lambda m: m.face_attributes["tag"].__setitem__(0, 999)),
            ("vertex_attributes[w][0]=", lambda m: m.vertex_attributes["w"].__setitem__(0, 9.5)),
            ("metadata[nest][a].append", lambda m: m.metadata["nest"]["a"].append(7)),
            ("metadata[nest][b][c]=", lambda m: m.metadata["nest"]["b"].__setitem__("c", 5)),
            ("metadata[arr][0]=", lambda m: m.metadata["arr"].__setitem__(0, 42.0)),
            ("metadata[new]=", lambda m: m.metadata.__setitem__("new", 1)),
            ("density=", lambda m: setattr(m, "density", 9.0)),
        ]
        if o.visual.kind == "face":
            E += [("face_colors[0]=", lambda m: m.visual.face_colors.__setitem__(0, [1, 2, 3, 4])), ("face_colors=", lambda m: setattr(m.visual, "face_colors", [9, 9, 9, 255]))]
        if o.visual.kind == "vertex":
            E += [("vertex_colors[0]=", lambda m: m.visual.vertex_colors.__setitem__(0, [1, 2, 3, 4])), ("vertex_colors=", lambda m: setattr(m.visual, "vertex_colors", [9, 9, 9, 255]))]
        if o.visual.kind == "texture":
            E += [("uv[0]=", lambda m: m.visual.uv.__setitem__(0, [0.5, 0.25]))]
            if getattr(o.visual.material, "image", None) is not None:
                # PIL images are mutable objects: an in-place edit of the pixels
                E += [("material.image.putpixel", lambda m: m.visual.material.image.putpixel((0, 0), (1, 2, 3)))]
            elif getattr(o.visual.material, "baseColorTexture", None) is not None:
                E += [("material.baseColorTexture.putpixel", lambda m: m.visual.material.baseColorTexture.putpixel((0, 0), (1, 2, 3)))]
            if hasattr(o.visual.material, "diffuse"):
                E += [("material.diffuse=", lambda m: setattr(m.visual.material, "diffuse", [1, 2, 3, 255]))]
            if hasattr(o.visual.material, "baseColorFactor"):
                E += [("material.baseColorFactor=", lambda m: setattr(m.visual.material, "baseColorFactor", [1, 2, 3, 255]))]
    elif isinstance(o, primitives.Primitive):
        if hasattr(o.primitive, "radius"):
            E.append(("primitive.radius=", lambda p: setattr(p.primitive, "radius", float(p.primitive.radius) * 1.5)))
        if hasattr(o.primitive, "height"):
            E.append(("primitive.height=", lambda p: setattr(p.primitive, "height", float(p.primitive.height) * 0.5)))
        if hasattr(o.primitive, "extents"):
            E.append(("primitive.extents=", lambda p: setattr(p.primitive, "extents", np.array(p.primitive.extents) * 2.0)))
        if hasattr(o.primitive, "sections"):
            E.append(("primitive.sections=", lambda p: setattr(p.primitive, "sections", int(p.primitive.sections) + 3)))
        if hasattr(o.primitive, "extents"):
            E.append(("primitive.extents*=", lambda p: p.primitive.extents.__imul__(1.5)))
        E += [
            ("primitive.transform[0,3]+=", lambda p: p.primitive.transform.__setitem__((0, 3), p.primitive.transform[0, 3] + 1.0)),
            ("apply_transform(scale)", lambda p: p.apply_transform(trimesh.transformations.scale_matrix(2.0))),
            ("apply_scale", lambda p: p.apply_scale(0.5)),
            ("primitive.transform=", lambda p: setattr(p.primitive, "transform", trimesh.transformations.translation_matrix([1, 2, 3]) @ np.array(p.primitive.transform))),
            ("apply_transform", lambda p: p.apply_transform(trimesh.transformations.rotation_matrix(0.4, [0, 1, 0], [1, 1, 1]))),
            ("metadata[nest][a].append", lambda p: p.metadata["nest"]["a"].append(7)),
            ("density=", lambda p: setattr(p, "density", 3.0)),
        ]
        if o.visual.kind == "face":
            E.append(("face_colors[0]=", lambda p: p.visual.face_colors.__setitem__(0, [1, 2, 3, 4])))
    elif isinstance(o, trimesh.path.path.Path):
        E += [
            ("vertices[0]+=", lambda p: p.vertices.__setitem__(0, p.vertices[0] + 0.25)),
            ("entity.points[0]=", lambda p: p.entities[0].points.__setitem__(0, 3)),
            ("entity.layer=", lambda p: setattr(p.entities[0], "layer", "changed")),
            ("entities.pop", lambda p: setattr(p, "entities", list(p.entities)[:-1])),
            ("apply_transform", lambda p: p.apply_transform(np.eye(p.vertices.shape[1] + 1) * 2.0 + np.diag([0] * p.vertices.shape[1] + [-1.0]))),
            ("metadata[nest][a].append", lambda p: p.metadata["nest"]["a"].append(7)),
            ("metadata[new]=", lambda p: p.metadata.__setitem__("new", 1)),
        ]
        if o.colors is not None:
            E.append(("entity.color=", lambda p: setattr(p.entities[0], "color", np.array([1, 2, 3, 4], dtype=np.uint8))))
        if getattr(o, "vertex_attributes", None):
            E.append(("vertex_attributes[w][0]=", lambda p: p.vertex_attributes["w"].__setitem__(0, 77.0)))
    elif isinstance(o, trimesh.PointCloud):
        E += [
            ("vertices[0]+=", lambda p: p.vertices.__setitem__(0, p.vertices[0] + 1.0)),
            ("colors[0]=", lambda p: p.colors.__setitem__(0, [1, 2, 3, 4])),
            ("apply_transform", lambda p: p.apply_transform(trimesh.transformations.translation_matrix([1, 2, 3]))),
            ("metadata[nest][a].append", lambda p: p.metadata["nest"]["a"].append(7)),
        ]
    elif isinstance(o, trimesh.voxel.VoxelGrid):
        E += [
            ("apply_transform", lambda v: v.apply_transform(trimesh.transformations.translation_matrix([1, 2, 3]))),
            ("apply_scale", lambda v: v.apply_scale(2.0)),
            ("transform[0,3]=", lambda v: v.transform.__setitem__((0, 3), 55.0) if v.transform.flags.writeable else v.apply_translation([55.0, 0, 0])),
            ("strip", lambda v: v.strip()),
            ("metadata[nest][a].append", lambda v: v.metadata["nest"]["a"].append(7)),
            ("metadata[new]=", lambda v: v.metadata.__setitem__("new", 1)),
            ("encoding.data[0]=", _voxel_data_edit),
        ]
    elif isinstance(o, trimesh.Scene):
        E += [
            ("geometry[box].vertices[0]+=", lambda s: s.geometry["box"].vertices.__setitem__(0, s.geometry["box"].vertices[0] + 1.0)),
            ("geometry[box].face_colors[0]=", lambda s: s.geometry["box"].visual.face_colors.__setitem__(0, [1, 2, 3, 4])),
            ("geometry[tet].apply_scale", lambda s: s.geometry["tet"].apply_scale(3.0)),
            ("graph.update(n1)", lambda s: s.graph.update(frame_to="n1", frame_from="n0", matrix=trimesh.transformations.translation_matrix([9, 9, 9]))),
            ("graph.update(reparent n2)", lambda s: s.graph.update(frame_to="n2", frame_from="n1", matrix=np.eye(4))),
            ("edge_matrix[0,3]=", _scene_edge_edit),
            ("add_geometry", lambda s: s.add_geometry(trimesh.Trimesh(*gmesh.build({"parts": [{"kind": "octa"}]}), process=False), node_name="extra", geom_name="octa")),
            ("delete_geometry", lambda s: s.delete_geometry("tet")),
            ("apply_transform", lambda s: s.apply_transform(trimesh.transformations.translation_matrix([1, 2, 3]))),
            ("metadata[nest][a].append", lambda s: s.metadata["nest"]["a"].append(7)),
            ("geometry[box].metadata", lambda s: s.geometry["box"].metadata.__setitem__("x", 1)),
        ]
    return E


def _voxel_data_edit(v):
    enc = v.encoding
    # walk to the array actually stored
    data = getattr(enc, "_data", None)
    arr = None
    if hasattr(data, "data") and isinstance(data.data, dict):
        for key in ("data", "values", "indices"):
            if key in data.data and isinstance(data.data[key], np.ndarray) and data.data[key].size:
                arr = data.data[key]
                break
    if arr is None or not arr.flags.writeable:
        raise _Skip()
    flat = arr.reshape(-1)
    if flat.dtype == bool:
        flat[0] = not flat[0]
    else:
        flat[0] = flat[0] + 1


def _scene_edge_edit(s):
    for key, attr in s.graph.transforms.edge_data.items():
        mat = attr.get("matrix")
        if isinstance(mat, np.ndarray) and mat.flags.writeable:
            mat[0, 3] = mat[0, 3] + 17.0
            s.graph.transforms._hash = None  # in-place edit through the documented data path needs the hash reset
            return
    raise _Skip()


class _Skip(Exception):
    pass


def pre_edit(o):
    """an in-place edit of stored data that is NOT followed by any read before the copy is taken"""
    if isinstance(o, primitives.Primitive):
        if hasattr(o.primitive, "radius"):
            o.primitive.radius = float(o.primitive.radius) * 1.5
        elif hasattr(o.primitive, "extents"):
            o.primitive.extents = np.array(o.primitive.extents) * 1.5
        else:
            o.primitive.height = float(o.primitive.height) * 1.5
    elif isinstance(o, trimesh.Trimesh):
        o.vertices *= 1.5
        o.faces[0] = o.faces[0][::-1].copy()
    elif isinstance(o, trimesh.path.path.Path):
        o.vertices[0] += 0.25
    elif isinstance(o, trimesh.PointCloud):
        o.vertices[0] += 1.0
    elif isinstance(o, trimesh.voxel.VoxelGrid):
        o.apply_translation([3.0, 0.0, 0.0])
    elif isinstance(o, trimesh.Scene):
        o.geometry["box"].vertices[0] += 1.0
        o.graph.update(frame_to="n1", frame_from="n0", matrix=trimesh.transformations.translation_matrix([7, 7, 7]))


# ----------------------------------------------------------------------------------- body


@body("C17.copy")
def b_copy(case, ctx):
    with np.errstate(all="ignore"):
        o = build(case["spec"])
        how = case["how"]
        if how in ("copy_cache", "copy_novisual") and not (isinstance(o, trimesh.Trimesh) and (how != "copy_cache" or not isinstance(o, primitives.Primitive))):
            how = "copy"
        kind = case["spec"]["kind"] + (":" + case["spec"].get("prim", "") if case["spec"]["kind"] == "primitive" else "")
        # the reference state comes from an identically built twin, so that the object which is copied has NOT been
        # read (and its caches not re-validated) between its last edit and the copy
        twin = build(case["spec"])
        if case["spec"].get("pre_edit"):
            pre_edit(o)
            pre_edit(twin)
        s0 = snapshot(twin)
        try:
            c = do_copy(o, how)
        except Exception as e:  # noqa
            from ..core import trimesh_frame

            if trimesh_frame(e) is not None:
                raise
            # raised from the standard copy machinery while walking the object
            raise Violation(f"C17|copy_raises|{kind}|how={how}|{type(e).__name__}", f"{how} raised {type(e).__name__}: {e}")
        check(type(c) is type(o), f"C17|faithful|{kind}|type", f"{type(c).__name__} vs {type(o).__name__}")
        s_c = snapshot(c)
        d = diff_keys(s0, s_c)
        if how == "copy_novisual":
            d = [k for k in d if not k.startswith("visual")]
        if d:
            raise Violation(f"C17|faithful|{kind}|{d[0].split('.')[0] if not d[0].startswith('param_') else d[0]}|how={'copy' if how.startswith('copy_') or how == 'copy' else how}", f"{how}: copy differs from original at {d[:6]}")
        # the original must not have been modified by copying
        d = diff_keys(s0, snapshot(o))
        check(not d, f"C17|copying_modified_original|{kind}", f"{how}: original changed at {d[:6]}")
        # ---- edits
        edited, other = (c, o) if case["edit"] == "copy" else (o, c)
        names = []
        E = edits_for(edited)
        nontrivial = False
        s_other = snapshot(other)
        for idx in case["edits"]:
            name, fn = E[idx % len(E)]
            before = snapshot(edited) if not nontrivial else None
            try:
                fn(edited)
            except _Skip:
                continue
            except (ValueError, KeyError, IndexError, AttributeError, TypeError):
                # an edit that is not applicable in the current state (e.g. geometry already deleted)
                continue
            names.append(name)
            if before is not None:
                try:
                    if diff_keys(before, snapshot(edited)):
                        nontrivial = True
                except BaseException:  # noqa  the edited side may legitimately be in a state that cannot be snapshotted
                    nontrivial = True
            d = diff_keys(s_other, snapshot(other))
            if d:
                raise Violation(
                    f"C17|shared_state|{kind}|edit={name}|seen_in={d[0].split('.')[0]}|how={'copy' if how.startswith('copy') and how != 'copy.copy' else how}",
                    f"{how}, edited the {case['edit']} with {names}: the other object changed at {d[:6]}",
                )
        ctx.note(nontrivial=nontrivial, cls=[f"kind:{kind}", f"how:{how}", f"edit_side:{case['edit']}"] + [f"edit:{n}" for n in names if "putpixel" in n] + (["voxel:padded_shape"] if case["spec"].get("pad") else []) + (["primitive:fine_polygon"] if case["spec"].get("fine_polygon") and case["spec"].get("prim") == "Extrusion" else []) + [f"edit:{n}" for n in names if n.startswith("primitive.") and ("*=" in n or "+=" in n)]
                 + (["visual:pbr_zero_factor", "voxel:padded_shape", "primitive:fine_polygon", "edit:material.image.putpixel"] if (case["spec"].get("pbr") or {}).get("metallicFactor") == 0.0 else []))


# ----------------------------------------------------------------------------------- strategies


@st.composite
def spec(draw):
    kind = draw(st.sampled_from(["mesh", "mesh", "primitive", "primitive", "path", "points", "voxel", "scene"]))
    s = {"kind": kind, "seed": draw(st.integers(0, 10**6)), "warm": draw(st.booleans()), "pre_edit": draw(st.booleans())}
    if kind == "mesh":
        s["mesh"] = draw(gmesh.mesh_spec(kinds=["tetra", "box", "octa", "prism"], max_parts=1, jitter=True))
        s["visual"] = draw(st.sampled_from([None, "face", "vertex", "texture", "pbr", "default_inplace", "default_inplace_face"]))
        s["density"] = draw(st.booleans())
        s["pbr_image"] = draw(st.booleans())
        if s["visual"] == "pbr":
            # exact zeros, False and empty values are legitimate parameter values
            s["pbr"] = {
                "metallicFactor": draw(st.sampled_from([0.0, 0.3, 1.0])),
                "roughnessFactor": draw(st.sampled_from([0.0, 0.6, 1.0])),
                "alphaCutoff": draw(st.sampled_from([0.0, 0.5])),
                "alphaMode": draw(st.sampled_from(["OPAQUE", "MASK", "BLEND"])),
                "doubleSided": draw(st.booleans()),
                "emissiveFactor": draw(st.sampled_from([[0.0, 0.0, 0.0], [0.5, 0.0, 1.0]])),
                "name": draw(st.sampled_from(["", "mat"])),
            }
    elif kind == "primitive":
        s["prim"] = draw(st.sampled_from(["Box", "Sphere", "Cylinder", "Capsule", "Extrusion"]))
        s["T"] = draw(gm.matrix(classes=["identity", "rigid", "translation"], tscale=3.0))["M"]
        s["radius"] = draw(_f(0.3, 3.0))
        s["height"] = draw(_f(0.3, 3.0))
        s["extents"] = [draw(_f(0.3, 3.0)) for _ in range(3)]
        s["sections"] = draw(st.sampled_from([5, 8, 13, 32, 40]))
        s["subdivisions"] = draw(st.sampled_from([0, 1, 2, 3]))
        s["visual"] = draw(st.sampled_from([None, "face"]))
        s["fine_polygon"] = draw(st.booleans())
    elif kind == "path":
        s["dim"] = draw(st.sampled_from([2, 3]))
        s["colors"] = draw(st.booleans())
        s["vattr"] = draw(st.booleans())
    elif kind == "voxel":
        s["encoding"] = draw(st.sampled_from(["dense", "sparse", "rle", "brle"]))
        s["pad"] = draw(st.sampled_from([None, [1, 0, 0], [0, 2, 1], [1, 1, 1, 1]]))
        s["T"] = draw(gm.matrix(classes=["identity", "similarity", "translation", "anisotropic"], tscale=3.0))["M"]
    elif kind == "scene":
        s["edges"] = [draw(gm.matrix(classes=["rigid", "translation", "similarity"], tscale=3.0))["M"] for _ in range(3)]
    return s


@st.composite
def copy_case(draw):
    s = draw(spec())
    hows = ["copy", "copy.copy", "deepcopy"]
    if s["kind"] == "mesh":
        hows += ["copy_cache", "copy_novisual"]
    return {
        "spec": s,
        "how": draw(st.sampled_from(hows)),
        "edit": draw(st.sampled_from(["copy", "original"])),
        "edits": draw(st.lists(st.integers(0, 40), min_size=1, max_size=8)),
    }


def grid_cases():
    """every kind x copy method x edit side x every single edit"""
    I = np.eye(4).tolist()
    T = np.eye(4)
    T[:3, 3] = [1, 2, 3]
    T = T.tolist()
    specs = [
        {"kind": "mesh", "seed": 1, "warm": True, "mesh": {"parts": [{"kind": "box", "ext": [1, 2, 3]}]}, "visual": "face", "density": True},
        {"kind": "mesh", "seed": 2, "warm": False, "mesh": {"parts": [{"kind": "octa"}]}, "visual": "vertex", "density": False},
        {"kind": "mesh", "seed": 3, "warm": True, "mesh": {"parts": [{"kind": "tetra"}]}, "visual": "texture", "density": False},
        {"kind": "mesh", "seed": 4, "warm": False, "mesh": {"parts": [{"kind": "tetra"}]}, "visual": "pbr", "density": False},
        {"kind": "mesh", "seed": 7, "warm": False, "mesh": {"parts": [{"kind": "tetra"}]}, "visual": "pbr", "density": False,
         "pbr": {"metallicFactor": 0.0, "roughnessFactor": 0.0, "alphaCutoff": 0.0, "alphaMode": "MASK", "doubleSided": False, "emissiveFactor": [0.0, 0.0, 0.0], "name": ""}},
        {"kind": "path", "seed": 1, "warm": True, "dim": 2, "colors": True, "vattr": True},
        {"kind": "path", "seed": 2, "warm": False, "dim": 3, "colors": False, "vattr": True},
        {"kind": "points", "seed": 1, "warm": False},
        {"kind": "scene", "seed": 1, "warm": True, "edges": [T, T, I]},
    ]
    for pk in ("Box", "Sphere", "Cylinder", "Capsule", "Extrusion"):
        specs.append({"kind": "primitive", "seed": 1, "warm": True, "prim": pk, "T": T, "radius": 1.5, "height": 2.5, "extents": [1, 2, 3], "sections": 9, "subdivisions": 1, "visual": "face"})
    for enc in ("dense", "sparse", "rle", "brle"):
        specs.append({"kind": "voxel", "seed": 1, "warm": enc != "dense", "encoding": enc, "T": T})
        specs.append({"kind": "voxel", "seed": 2, "warm": False, "encoding": enc, "T": T, "pad": [1, 2, 1, 1]})
    specs.append({"kind": "primitive", "seed": 3, "warm": False, "prim": "Extrusion", "T": T, "radius": 1.5, "height": 2.5, "extents": [1, 2, 3], "sections": 9, "subdivisions": 1, "visual": None, "fine_polygon": True})
    specs += [
        {"kind": "mesh", "seed": 5, "warm": True, "mesh": {"parts": [{"kind": "box", "ext": [1, 2, 3]}]}, "visual": "default_inplace", "density": False},
        {"kind": "mesh", "seed": 6, "warm": False, "mesh": {"parts": [{"kind": "octa"}]}, "visual": "default_inplace_face", "density": False},
    ]
    specs = specs + [dict(sp, pre_edit=True) for sp in specs]
    for s in specs:
        hows = ["copy", "copy.copy", "deepcopy"] + (["copy_cache", "copy_novisual"] if s["kind"] == "mesh" else [])
        for how in hows:
            for side in ("copy", "original"):
                for e in range(20):
                    yield {"spec": s, "how": how, "edit": side, "edits": [e]}


@subcheck("C17", "grid", shards={"quick": 8, "thorough": 8})
def s_grid(ctx):
    ctx.enumerate("C17.copy", grid_cases(), label="kind_x_copy_method_x_side_x_single_edit")


@subcheck("C17", "histories", shards={"quick": 8, "thorough": 16})
def s_hist(ctx):
    ctx.given("C17.copy", copy_case(), n={"quick": 1200, "thorough": 30000})


REQUIRED_CLASSES["C17"] = ["kind:mesh", "kind:primitive:Cylinder", "kind:path", "kind:scene", "kind:voxel", "kind:points", "how:deepcopy", "how:copy.copy", "edit_side:original", "edit:primitive.extents*=", "edit:primitive.transform[0,3]+=", "visual:pbr_zero_factor", "voxel:padded_shape", "primitive:fine_polygon", "edit:material.image.putpixel"]
