"""C01 — derived mesh values never go stale (the cache is history independent).

A history of reads and mutators is applied to a live Trimesh; afterwards (and at drawn points) every registered
derived value must equal the value reported by a mesh freshly built from copies of the current arrays and the
same explicit overrides (density, centre of mass).  The only difference between both sides is the history."""

import copy as pycopy
import zlib

import numpy as np
from hypothesis import strategies as st

import trimesh

from ..core import ASSUMPTIONS, REQUIRED_CLASSES, RULES, Violation, body, check, subcheck
from ..gen import matrices as gm
from ..gen import meshes as gmesh
from ..oracle import meshvalues as mv

RULES["C01"] = (
    "Histories over a live Trimesh built from the template pool (closed/open, multi-body, optionally with duplicated "
    "and unreferenced vertices, a degenerate face, constructor-supplied normals): read(subset of 50 derived values) "
    "interleaved with mutators apply_transform(every matrix class incl. mirror/anisotropic/shear), apply_scale, "
    "apply_translation, rezero, invert, update_faces(bool|int|int with repeats), update_vertices, merge_vertices, "
    "remove_unreferenced_vertices, unmerge_vertices, remove_infinite_values, process, fix_normals, fill_holes, in-place "
    "vertex/face edits, reassignment, density/center_mass overrides, copy(include_cache)/copy.copy/deepcopy, and "
    "there-and-back pairs (an edit, reads, the bit-exact inverse edit: the arrays return to earlier bytes) on objects "
    "that are raw, default-processed, copied or just moved. Drivers: an enumerated depth-1 matrix (warm set in {none, each single value, all} x mutator x start mesh) and "
    "Hypothesis histories (<=10 steps). Oracle: every value equals that of Trimesh(vertices.copy(), faces.copy(), "
    "process=False) with the same overrides. Non-trivial: read(P) ... effective mutator ... read(Q); distinct by "
    "(warm value, mutator, start mesh) triple or history."
)
ASSUMPTIONS["C01"] = [
    "user-assigned vertex normals are not in the domain (they live only in the cache; the property speaks of functions of vertices, faces and overrides)",
    "transform matrices are far from the documented 1e-8 identity / 1e-6 has_rotation shortcuts (those thresholds are exercised in C04)",
    "row order of face_adjacency (and values row-aligned with it) is compared after canonicalisation, since no order is documented",
    "after merge_vertices/process cached vertex normals are compared at 2e-2: merge_vertices documents merging vertices whose normals agree to digits_norm=2 decimals and keeping one of them",
]


def true_normals(V, F):
    t = V[F]
    n = np.cross(t[:, 1] - t[:, 0], t[:, 2] - t[:, 0])
    l = np.linalg.norm(n, axis=1)
    ok = l > 1e-12
    n[ok] /= l[ok][:, None]
    n[~ok] = 0
    return n


def build_start(spec):
    V, F = gmesh.build(spec["mesh"])
    rs = np.random.RandomState(spec.get("dseed", 0))
    if spec.get("drop"):
        keep = np.ones(len(F), dtype=bool)
        for i in spec["drop"]:
            keep[i % len(F)] = False
        if keep.sum() >= 2:
            F = F[keep]
    d = spec.get("dirty") or []
    if "dup_vertex" in d:
        # split one vertex: faces after the first that use it get a duplicate
        v = int(F[len(F) // 2][0])
        V = np.vstack((V, V[v : v + 1]))
        F = F.copy()
        F[len(F) // 2][0] = len(V) - 1
    if "unreferenced" in d:
        V = np.vstack((V, V.mean(axis=0) + [0.1, 0.2, 0.3], V.max(axis=0) + 1.0))
    if "degenerate" in d:
        F = np.vstack((F, [F[0][0], F[0][0], F[0][1]]))
    if "dup_face" in d:
        F = np.vstack((F, F[:1]))
    kw = {}
    if spec.get("ctor_normals"):
        kw["face_normals"] = true_normals(V, F)
    ctor = spec.get("ctor", "raw")
    if ctor == "process":
        # the default constructor path: process() runs, so the cache has been verified (and emptied) once already
        m = trimesh.Trimesh(V.copy(), F.copy(), **kw)
    else:
        m = trimesh.Trimesh(V.copy(), F.copy(), process=False, **kw)
        if ctor == "copy":
            m = m.copy()
        elif ctor == "moved":
            m.apply_translation([0.5, -0.25, 1.0])
    return m


def fresh_of(m, overrides):
    f = trimesh.Trimesh(np.array(m.vertices, dtype=np.float64).copy(), np.array(m.faces, dtype=np.int64).copy(), process=False)
    if overrides.get("density"):
        f.density = float(m.density)
    if overrides.get("center_mass"):
        f.center_mass = np.array(m.center_mass, dtype=np.float64).copy()
    return f


def scale_of(m):
    v = np.asarray(m.vertices)
    if len(v) == 0 or not np.isfinite(v).all():
        return 1.0
    return float(max(np.abs(v).max(), np.ptp(v, axis=0).max(), 1e-9))


def compare(m, overrides, names, where, last_mut, warm, vn_atol=1e-9):
    f = fresh_of(m, overrides)
    s = scale_of(m)
    # the order in which values are asked for is part of the history: vary it deterministically (a value read first
    # meets the object exactly as the mutator left it)
    names = list(names)
    np.random.RandomState(zlib.crc32(repr((where, last_mut, len(names))).encode()) & 0x7FFFFFFF).shuffle(names)
    for name in names:
        a = mv.read(m, name)
        b = mv.read(f, name)
        ok, msg = mv.same(name, a, b, s, unit_atol=vn_atol if name == "vertex_normals" else 1e-9)
        if not ok:
            group = VALUE_GROUP.get(name, name)
            raise Violation(
                f"C01|stale|value={group}|after={last_mut}",
                f"{where}: {name} of the live mesh differs from a fresh mesh built from its arrays: {msg} (values read before: {warm})",
            )


VALUE_GROUP = {}
VALUE_GROUP["face_normals"] = "face_normals"
VALUE_GROUP["vertex_normals"] = "vertex_normals"
for _n in ("edges", "edges_face", "edges_sorted", "edges_unique", "edges_unique_recon", "edges_unique_length", "edges_sparse", "faces_unique_edges", "face_adjacency"):
    VALUE_GROUP[_n] = "edges_topology"
for _n in ("volume", "mass", "center_mass", "moment_inertia", "principal_inertia_components"):
    VALUE_GROUP[_n] = "mass_properties"
for _n in ("ray_hits", "ray_first", "ray_any", "contains"):
    VALUE_GROUP[_n] = "ray"
for _n in ("nearest", "signed_distance", "kdtree", "triangles_tree_bounds"):
    VALUE_GROUP[_n] = "proximity"


def apply_mutator(m, op, overrides):
    """apply one mutating op to mesh m. returns (label, new_mesh or m) ; label None if skipped"""
    k = op[0]
    if k == "transform":
        M = np.array(op[1]["M"], dtype=np.float64)
        m.apply_transform(M)
        return f"apply_transform:{op[1]['cls']}", m
    if k == "scale":
        m.apply_scale(op[1])
        kind = "scalar" if not isinstance(op[1], list) else "vector"
        neg = np.prod(np.atleast_1d(op[1])) < 0
        return f"apply_scale:{kind}{':neg' if neg else ''}", m
    if k == "translate":
        m.apply_translation(op[1])
        return "apply_translation", m
    if k == "rezero":
        m.rezero()
        return "rezero", m
    if k == "invert":
        m.invert()
        return "invert", m
    if k == "update_faces":
        nf = len(m.faces)
        if nf < 3:
            return None, m
        rs = np.random.RandomState(op[2])
        if op[1] == "bool":
            mask = rs.rand(nf) > 0.3
            mask[0] = True
            mask[1] = False
        elif op[1] == "int":
            mask = np.sort(rs.choice(nf, size=max(1, nf - 2), replace=False))
        elif op[1] == "int_perm":
            mask = rs.permutation(nf)[: max(2, nf - 1)]
        else:
            mask = rs.randint(0, nf, size=nf + 2)
        m.update_faces(mask)
        return f"update_faces:{op[1]}", m
    if k == "update_vertices":
        nv = len(m.vertices)
        ref = np.zeros(nv, dtype=bool)
        if len(m.faces):
            ref[np.asarray(m.faces).reshape(-1)] = True
        if ref.all():
            return None, m
        rs = np.random.RandomState(op[1])
        mask = ref | (rs.rand(nv) > 0.5)
        if mask.all():
            mask = ref
        m.update_vertices(mask)
        return "update_vertices", m
    if k == "merge_vertices":
        m.merge_vertices(**op[1])
        return "merge_vertices", m
    if k == "remove_unreferenced":
        m.remove_unreferenced_vertices()
        return "remove_unreferenced_vertices", m
    if k == "unmerge":
        m.unmerge_vertices()
        return "unmerge_vertices", m
    if k == "remove_infinite":
        m.remove_infinite_values()
        return "remove_infinite_values", m
    if k == "process":
        m.process(validate=op[1])
        return f"process:validate={op[1]}", m
    if k == "fix_normals":
        m.fix_normals(multibody=op[1])
        return "fix_normals", m
    if k == "fill_holes":
        m.fill_holes()
        return "fill_holes", m
    if k == "edit_vertex":
        if len(m.vertices) == 0:
            return None, m
        m.vertices[op[1] % len(m.vertices)] += np.array(op[2])
        return "inplace:vertex+=", m
    if k == "scale_inplace":
        m.vertices *= op[1]
        return "inplace:vertices*=", m
    if k == "flip_face":
        if len(m.faces) == 0:
            return None, m
        i = op[1] % len(m.faces)
        m.faces[i] = m.faces[i][::-1].copy()
        return "inplace:face_reversed", m
    if k == "assign_vertices":
        m.vertices = np.asarray(m.vertices) * op[1] + np.array(op[2])
        return "assign:vertices", m
    if k == "assign_faces":
        nf = len(m.faces)
        if nf < 2:
            return None, m
        perm = np.random.RandomState(op[1]).permutation(nf)
        m.faces = np.asarray(m.faces)[perm]
        return "assign:faces_permuted", m
    if k == "density":
        m.density = op[1]
        overrides["density"] = True
        return "density=", m
    if k == "center_mass":
        m.center_mass = op[1]
        overrides["center_mass"] = True
        return "center_mass=", m
    if k == "copy":
        how = op[1]
        if how == "copy_cache":
            c = m.copy(include_cache=True)
        elif how == "copy":
            c = m.copy()
        elif how == "copy.copy":
            c = pycopy.copy(m)
        else:
            c = pycopy.deepcopy(m)
        return f"copy:{how}", c
    raise ValueError(k)


def _data_state(m):
    d = m._data.data
    return tuple((k, np.asarray(v).tobytes() if hasattr(v, "tobytes") else repr(v)) for k, v in sorted(d.items(), key=lambda kv: kv[0]))


@body("C01.history")
def b_history(case, ctx):
    with np.errstate(all="ignore"):
        m = build_start(case["start"])
        overrides = {}
        kept = []  # originals left behind by copy ops: (mesh, overrides, label)
        warm = []
        last = "none"
        effective = False
        nontrivial = False
        labels = []
        # merge_vertices documents that vertices are merged when position AND cached vertex normal agree to
        # digits_norm=2 decimals and the merged vertex keeps one of the normals: after such a merge cached
        # vertex normals are only defined to that documented precision (sqrt(3)*0.5e-2 per component bound -> 2e-2)
        vn_atol = 1e-9
        held = None
        for si, op in enumerate(case["ops"]):
            if op[0] == "read":
                names = mv.ALL if op[1] == "ALL" else mv.CHEAP if op[1] == "CHEAP" else op[1]
                for n in names:
                    mv.read(m, n)
                warm = list(dict.fromkeys(warm + list(names)))[-60:]
                if effective:
                    nontrivial = True
                continue
            if op[0] == "hold":
                # keep a (possibly nested) view of a stored array across later reads
                arr = m.vertices if op[1] == "v" else m.faces
                v = arr
                for kind in op[2]:
                    if kind == "rows":
                        v = v[1:]
                    elif kind == "col":
                        v = v[:, 2] if v.ndim == 2 and v.shape[1] > 2 else v
                    elif kind == "flat":
                        v = v.reshape(-1)
                    elif kind == "step":
                        v = v[0::3]
                    elif kind == "row0":
                        v = v[0] if v.ndim == 2 and len(v) else v
                    elif kind == "T":
                        v = v.T
                held = (op[1], v)
                continue
            if op[0] == "write_held":
                if held is None or held[1].size == 0:
                    continue
                which, v = held
                h0 = (m.vertices.tobytes(), m.faces.tobytes())
                if which == "v":
                    v += op[1]
                else:
                    # reverse the first face reachable through the view (keeps indices valid)
                    flat = v.reshape(-1)
                    if flat.size >= 3:
                        flat[:3] = flat[:3][::-1].copy()
                if (m.vertices.tobytes(), m.faces.tobytes()) != h0 and warm:
                    effective = True
                last = f"inplace:write_through_held_view:{which}"
                labels.append("inplace:held_view")
                continue
            if op[0] == "there_and_back":
                # an edit, reads, then the bit-exact inverse edit: the stored arrays are back at earlier bytes and every
                # derived value must be the one of those bytes again
                kind, names = op[1], op[2]
                nf = len(m.faces)
                if kind.startswith("faces") and nf < 2:
                    continue
                b0 = _data_state(m)
                saved_v, saved_f = np.array(m.vertices).copy(), np.array(m.faces).copy()
                if kind == "mul2":
                    m.vertices *= 2.0
                elif kind == "neg":
                    m.vertices *= -1.0
                elif kind == "faces_flipcols":
                    m.faces = saved_f[:, ::-1].copy()
                elif kind == "faces_subset":
                    m.faces = saved_f[: max(1, nf - 1)].copy()
                else:
                    m.vertices = saved_v * 3.0 + 1.0
                for n in names:
                    mv.read(m, n)
                if kind == "mul2":
                    m.vertices *= 0.5
                elif kind == "neg":
                    m.vertices *= -1.0
                elif kind.startswith("faces"):
                    m.faces = saved_f
                else:
                    m.vertices = saved_v
                check(_data_state(m) == b0, "C01|harness|there_and_back_not_exact", kind)
                last = f"there_and_back:{kind}"
                labels.append("there_and_back" + (":nothing_read_before" if not warm else ""))
                compare(m, overrides, names, f"step {si}", last, warm[:12], vn_atol)
                warm = list(dict.fromkeys(warm + list(names)))[-60:]
                nontrivial = True
                continue
            if op[0] == "check":
                compare(m, overrides, op[1], f"step {si}", last, warm[:12], vn_atol)
                warm = list(dict.fromkeys(warm + list(op[1])))[-60:]
                if effective:
                    nontrivial = True
                continue
            # bookkeeping must not touch the cache of the mesh under test: look at the stored data only
            h0 = _data_state(m)
            label, m2 = apply_mutator(m, op, overrides)
            if label is None:
                continue
            if m2 is not m:
                kept.append((m, dict(overrides), last))
                m = m2
            h1 = _data_state(m)
            if h1 != h0 and warm:
                effective = True
            last = label
            if label.startswith(("merge_vertices", "process")):
                vn_atol = 2e-2
            labels.append(label.split(":")[0] + (":" + label.split(":")[1] if label.startswith(("apply_transform", "copy", "inplace", "update_faces")) else ""))
        final = case.get("final", "MEDIUM")
        names = mv.ALL if final == "ALL" else mv.MEDIUM if final == "MEDIUM" else mv.CHEAP
        compare(m, overrides, names, "end of history", last, warm[:12], vn_atol)
        for m0, ov0, l0 in kept:
            compare(m0, ov0, mv.CHEAP, "original left behind by copy, after edits of the copy", l0 + "+copy_then_edit", warm[:12], vn_atol)
        ctx.note(nontrivial=nontrivial or (effective and bool(warm)), cls=sorted(set(labels))[:8] or ["no_mutator"])


# --------------------------------------------------------------------------------- strategies

_f = lambda lo, hi: st.floats(lo, hi, allow_nan=False, allow_infinity=False)  # noqa

SMALL_KINDS = ["tetra", "box", "octa", "icos", "prism", "torus", "uvsphere"]


@st.composite
def start_spec(draw):
    mesh = draw(gmesh.mesh_spec(kinds=SMALL_KINDS, max_parts=2, jitter=True, max_faces=80))
    for p in mesh["parts"]:
        if p["kind"] == "icos":
            p["sub"] = 0
        if p["kind"] == "torus":
            p["nu"], p["nv"] = min(p["nu"], 4), min(p["nv"], 3)
    spec = {"mesh": mesh}
    if draw(st.integers(0, 3)) == 0:
        spec["drop"] = draw(st.lists(st.integers(0, 50), min_size=1, max_size=3))
    if draw(st.integers(0, 2)) == 0:
        spec["dirty"] = draw(st.lists(st.sampled_from(["dup_vertex", "unreferenced", "degenerate", "dup_face"]), min_size=1, max_size=3, unique=True))
    spec["ctor_normals"] = draw(st.booleans())
    spec["ctor"] = draw(st.sampled_from(["raw", "raw", "process", "copy", "moved"]))
    return spec


MATRIX_CLASSES = ["translation", "rotation", "rigid", "similarity", "mirror", "neg_uniform", "anisotropic", "shear", "general_affine"]


@st.composite
def mutator(draw):
    k = draw(
        st.sampled_from(
            ["transform"] * 6
            + ["scale", "scale", "translate", "rezero", "invert", "invert", "update_faces", "update_faces", "update_vertices", "merge_vertices",
               "remove_unreferenced", "unmerge", "remove_infinite", "process", "fix_normals", "fill_holes", "edit_vertex", "scale_inplace",
               "flip_face", "assign_vertices", "assign_faces", "density", "center_mass", "copy", "copy"]
        )
    )
    if k == "transform":
        m = draw(gm.matrix(classes=MATRIX_CLASSES, tscale=draw(st.sampled_from([0.0, 1.0, 10.0]))))
        # keep the overall scale moderate: face normals of triangles below trimesh's absolute degenerate-area threshold
        # are zero by documentation, which is a question of scale (C04 / C15) and not of history
        M = np.array(m["M"], dtype=np.float64)
        sc = abs(np.linalg.det(M[:3, :3])) ** (1.0 / 3.0)
        if sc < 0.05 or sc > 50:
            M[:3, :3] /= sc
            m["M"] = M.tolist()
        return ["transform", m]
    if k == "scale":
        if draw(st.booleans()):
            return ["scale", draw(st.sampled_from([0.5, 2.0, 3.0, -1.0, -2.0, 10.0]))]
        return ["scale", [draw(st.sampled_from([0.5, 1.0, 2.0, -1.0, 3.0])) for _ in range(3)]]
    if k == "translate":
        return ["translate", [draw(_f(-5, 5)) for _ in range(3)]]
    if k in ("rezero", "invert", "remove_unreferenced", "unmerge", "remove_infinite", "fill_holes"):
        return [k]
    if k == "update_faces":
        return ["update_faces", draw(st.sampled_from(["bool", "int", "int_perm", "int_repeat"])), draw(st.integers(0, 10**6))]
    if k == "update_vertices":
        return ["update_vertices", draw(st.integers(0, 10**6))]
    if k == "merge_vertices":
        return ["merge_vertices", draw(st.sampled_from([{}, {"merge_norm": True}, {"merge_tex": True, "merge_norm": True}, {"digits_vertex": 3}]))]
    if k == "process":
        return ["process", draw(st.booleans())]
    if k == "fix_normals":
        return ["fix_normals", draw(st.sampled_from([None, True, False]))]
    if k == "edit_vertex":
        return ["edit_vertex", draw(st.integers(0, 100)), [draw(_f(-0.3, 0.3)) for _ in range(3)]]
    if k == "scale_inplace":
        return ["scale_inplace", draw(st.sampled_from([0.5, 2.0, -1.0]))]
    if k == "flip_face":
        return ["flip_face", draw(st.integers(0, 100))]
    if k == "assign_vertices":
        return ["assign_vertices", draw(st.sampled_from([1.0, 2.0, -1.0])), [draw(_f(-2, 2)) for _ in range(3)]]
    if k == "assign_faces":
        return ["assign_faces", draw(st.integers(0, 10**6))]
    if k == "density":
        return ["density", draw(st.sampled_from([0.5, 2.0, 7.0]))]
    if k == "center_mass":
        return ["center_mass", [draw(_f(-1, 1)) for _ in range(3)]]
    return ["copy", draw(st.sampled_from(["copy", "copy_cache", "copy.copy", "deepcopy"]))]


@st.composite
def history(draw):
    ops = []
    n = draw(st.integers(2, 10))
    names = st.lists(st.sampled_from(mv.MEDIUM + ["ray_first", "ray_any", "ray_hits", "contains", "ray_first", "ray_any"]), min_size=1, max_size=6, unique=True)
    for _ in range(n):
        t = draw(st.sampled_from(["read", "read", "check", "mut", "mut", "mut", "mut", "hold", "write_held", "there_and_back"]))
        if t == "there_and_back":
            ops.append(["there_and_back", draw(st.sampled_from(["mul2", "neg", "faces_flipcols", "faces_subset", "reassign"])), draw(names)])
        elif t == "hold":
            ops.append(["hold", draw(st.sampled_from(["v", "v", "f"])), draw(st.lists(st.sampled_from(["rows", "col", "flat", "step", "row0", "T"]), min_size=1, max_size=3))])
        elif t == "write_held":
            ops.append(["write_held", draw(st.sampled_from([0.5, -1.25, 2.0]))])
        elif t == "read":
            ops.append(["read", draw(st.one_of(st.just("CHEAP"), names, names))])
        elif t == "check":
            ops.append(["check", draw(names)])
        else:
            ops.append(draw(mutator()))
    return {"start": draw(start_spec()), "ops": ops, "final": draw(st.sampled_from(["MEDIUM", "MEDIUM", "ALL"]))}


# depth-1 matrix: warm-set x mutator x start mesh
DEPTH1_STARTS = [
    {"mesh": {"parts": [{"kind": "box", "ext": [1.0, 2.0, 3.0]}]}, "ctor_normals": False},
    {"mesh": {"parts": [{"kind": "icos", "sub": 0}], "jseed": 3, "jamp": 0.05}, "ctor_normals": True},
    {"mesh": {"parts": [{"kind": "torus", "nu": 4, "nv": 3, "R": 2.0, "r": 0.6}, {"kind": "tetra", "offset": [12.0, 0, 0], "scale": 2.0}]}, "ctor_normals": False},
    {"mesh": {"parts": [{"kind": "prism", "radii": [1.0, 0.5, 1.2, 0.6, 0.9], "height": 1.5}], "jseed": 5, "jamp": 0.02}, "drop": [3], "dirty": ["unreferenced", "dup_vertex"], "ctor_normals": False},
]


DEPTH1_STARTS.append({"mesh": {"parts": [{"kind": "icos", "sub": 1}], "jseed": 7, "jamp": 0.03}, "drop": [5, 23, 60], "ctor_normals": False})


def ray_first_cases():
    """an accelerated query, then an edit that goes around apply_transform, then the same kind of query FIRST"""
    edits = [["edit_vertex", 1, [0.4, 0.3, -0.2]], ["scale_inplace", 2.0], ["flip_face", 0], ["assign_vertices", 2.0, [1.0, 0.0, 0.0]], ["update_faces", "bool", 1],
             ["translate", [0.5, 0.25, -1.0]], ["scale", 2.0], ["invert"]]
    for start in DEPTH1_STARTS[:3]:
        for pre in (["ray_first"], ["ray_any"], ["ray_hits"], ["contains"], ["nearest"], ["kdtree"], ["ray_first", "nearest"]):
            for e in edits:
                for post in (["ray_first"], ["ray_any"], ["ray_hits"], ["contains"], ["nearest"], ["signed_distance"]):
                    yield {"start": start, "ops": [["read", pre], e, ["check", post]], "final": "MEDIUM"}


def there_and_back_cases():
    """cold object (constructed / copied / moved, nothing read), edit, read, exact inverse edit, read again"""
    for start in DEPTH1_STARTS[:3]:
        for ctor in ("raw", "process", "copy", "moved"):
            for kind in ("mul2", "neg", "faces_flipcols", "faces_subset", "reassign"):
                for names in (["area"], ["bounds"], ["volume"], ["face_normals"], ["triangles_center", "area_faces"], ["edges_unique", "face_adjacency"], "MEDIUM"):
                    nm = mv.MEDIUM if names == "MEDIUM" else names
                    for pre in (None, ["extents"]):
                        ops = ([["read", pre]] if pre else []) + [["there_and_back", kind, nm]]
                        yield {"start": dict(start, ctor=ctor), "ops": ops, "final": "MEDIUM"}


def _rot(axis, ang, t=(0, 0, 0)):
    M = np.eye(4)
    M[:3, :3] = gm.rodrigues(axis, ang)
    M[:3, 3] = t
    return M


def depth1_mutators():
    H = np.eye(4)
    H[:3, :3] = gm.householder([1.0, 2.0, 0.5])
    A = np.diag([1.0, 2.0, 0.5, 1.0])
    S = np.eye(4)
    S[0, 1] = 0.7
    K1 = np.eye(4)
    K1[:3, :3] = np.eye(3) + 0.5 * (np.ones((3, 3)) - np.eye(3))
    K2 = np.eye(4)
    K2[:3, :3] = 2.0 * gm.rodrigues([1, 2, 3], 0.9) @ (np.eye(3) - 0.3 * (np.ones((3, 3)) - np.eye(3))) @ np.diag([1.0, 1.0, -1.0])
    K2[:3, 3] = [1.0, -2.0, 0.5]
    out = [
        ["transform", {"cls": "rotation", "M": _rot([1, 2, 3], 0.8).tolist()}],
        ["transform", {"cls": "rigid", "M": _rot([0, 0, 1], np.pi / 2, (1, 2, 3)).tolist()}],
        ["transform", {"cls": "translation", "M": _rot([1, 0, 0], 0.0, (4, 5, 6)).tolist()}],
        ["transform", {"cls": "similarity", "M": (np.diag([3.0, 3.0, 3.0, 1.0]) @ _rot([1, 1, 0], 0.4)).tolist()}],
        ["transform", {"cls": "mirror", "M": H.tolist()}],
        ["transform", {"cls": "mirror", "M": (_rot([0, 1, 0], 1.1, (1, 0, 0)) @ H).tolist()}],
        ["transform", {"cls": "neg_uniform", "M": np.diag([-1.0, -1.0, -1.0, 1.0]).tolist()}],
        ["transform", {"cls": "anisotropic", "M": A.tolist()}],
        ["transform", {"cls": "anisotropic", "M": (_rot([1, 2, 3], 0.5) @ A).tolist()}],
        ["transform", {"cls": "shear", "M": S.tolist()}],
        # skew bases whose columns all have the same length (not conformal)
        ["transform", {"cls": "general_affine", "M": K1.tolist()}],
        ["transform", {"cls": "general_affine", "M": K2.tolist()}],
        # unit conversions combined with a mirror: |det| far below any absolute epsilon
        ["transform", {"cls": "mirror", "M": (np.diag([1.5e-3, 1.5e-3, 1.5e-3, 1.0]) @ H).tolist()}],
        ["scale", -0.001],
        ["scale", 0.001],
        ["scale", [0.001, -0.001, 0.001]],
        ["scale", 2.0],
        ["scale", -1.0],
        ["scale", [1.0, 2.0, 3.0]],
        ["scale", [1.0, -1.0, 1.0]],
        ["translate", [1.0, -2.0, 0.5]],
        ["rezero"],
        ["invert"],
        ["update_faces", "bool", 1],
        ["update_faces", "int", 2],
        ["update_faces", "int_perm", 3],
        ["update_faces", "int_repeat", 4],
        ["update_vertices", 1],
        ["merge_vertices", {}],
        ["merge_vertices", {"merge_norm": True}],
        ["remove_unreferenced"],
        ["unmerge"],
        ["remove_infinite"],
        ["process", False],
        ["process", True],
        ["fix_normals", None],
        ["fill_holes"],
        ["edit_vertex", 2, [0.2, -0.1, 0.3]],
        ["scale_inplace", 2.0],
        ["scale_inplace", -1.0],
        ["flip_face", 1],
        ["assign_vertices", 2.0, [1.0, 0.0, 0.0]],
        ["assign_faces", 7],
        ["density", 3.0],
        ["center_mass", [0.1, 0.2, 0.3]],
        ["copy", "copy"],
        ["copy", "copy_cache"],
        ["copy", "copy.copy"],
        ["copy", "deepcopy"],
    ]
    return out


def depth1_cases(stride=1, offset=0):
    i = 0
    muts = depth1_mutators()
    for start in DEPTH1_STARTS:
        for mut in muts:
            for w in [None, "ALL"] + mv.MEDIUM:
                i += 1
                if (i + offset) % stride:
                    continue
                ops = []
                if w == "ALL":
                    ops.append(["read", "ALL"])
                elif w is not None:
                    ops.append(["read", [w]])
                ops.append(mut)
                # after a copy also edit the copy so that sharing is visible on the original
                if mut[0] == "copy":
                    ops.append(["edit_vertex", 0, [0.5, 0.5, 0.5]])
                    ops.append(["flip_face", 0])
                yield {"start": start, "ops": ops, "final": "ALL" if w in (None, "ALL") else "MEDIUM"}


def two_step_cases():
    """all-warm, mutator A, all-warm, mutator B: transported values are transported twice"""
    muts = depth1_mutators()
    core = [m for m in muts if m[0] in ("transform", "scale", "invert", "update_faces", "flip_face", "copy")]
    for start in DEPTH1_STARTS[:2]:
        for a in core:
            for b in core:
                yield {"start": start, "ops": [["read", "CHEAP"], a, ["read", "CHEAP"], b], "final": "MEDIUM"}


def held_view_cases():
    """view (depth 1-3) of vertices / faces created first, values read, then a write through the held view"""
    chains = [["rows"], ["col"], ["flat"], ["T"], ["col", "rows"], ["rows", "col"], ["flat", "step"], ["rows", "row0"], ["T", "row0"], ["rows", "rows", "col"], ["flat", "rows", "step"]]
    for start in DEPTH1_STARTS[:3]:
        for which in ("v", "f"):
            for chain in chains:
                for w in (None, "CHEAP", ["bounds"], ["area", "face_normals"], ["edges", "face_adjacency"], ["volume"]):
                    for again in (False, True):
                        ops = [["hold", which, chain]]
                        if w is not None:
                            ops.append(["read", w])
                        ops.append(["write_held", 0.75])
                        if again:
                            ops += [["read", "CHEAP"], ["write_held", -0.5]]
                        yield {"start": start, "ops": ops, "final": "MEDIUM"}
    # an in-place edit immediately followed by a copy (no read in between)
    for start in DEPTH1_STARTS[:3]:
        for how in ("copy", "copy_cache", "copy.copy", "deepcopy"):
            for edit in (["edit_vertex", 1, [0.3, 0.2, -0.4]], ["scale_inplace", 2.0], ["flip_face", 0], ["assign_vertices", 2.0, [0.0, 1.0, 0.0]]):
                for w in ("CHEAP", ["area", "bounds", "volume"]):
                    yield {"start": start, "ops": [["read", w], edit, ["copy", how]], "final": "MEDIUM"}


@subcheck("C01", "held_views", shards={"quick": 6, "thorough": 8})
def s_held(ctx):
    ctx.enumerate("C01.history", held_view_cases(), label="held_view_chains_x_warm_sets_and_edit_then_copy")


@subcheck("C01", "accelerated_query_first", shards={"quick": 4, "thorough": 4})
def s_rayfirst(ctx):
    ctx.enumerate("C01.history", ray_first_cases(), label="query_x_edit_x_query_read_first")


@subcheck("C01", "there_and_back", shards={"quick": 4, "thorough": 4})
def s_tab(ctx):
    ctx.enumerate("C01.history", there_and_back_cases(), label="ctor_x_edit_and_exact_inverse_x_values_read_in_between")


@subcheck("C01", "depth1_matrix", shards={"quick": 12, "thorough": 16})
def s_depth1(ctx):
    if ctx.tier == "quick":
        # the complete all-warm and cold columns + a seeded quarter of the single-warm cells
        off = ctx.seed % 4
        full = [c for c in depth1_cases() if c["final"] == "ALL"]
        ctx.enumerate("C01.history", full, label="depth1_all_warm_and_cold_columns")
        ctx.enumerate("C01.history", [c for c in depth1_cases(stride=4, offset=off) if c["final"] != "ALL"], label="depth1_single_warm(quarter)", complete=False)
    else:
        ctx.enumerate("C01.history", depth1_cases(), label="depth1_matrix_warmset_x_mutator_x_start")


@subcheck("C01", "two_step", shards={"quick": 4, "thorough": 8})
def s_two(ctx):
    cases = list(two_step_cases())
    if ctx.tier == "quick":
        cases = cases[ctx.seed % 3 :: 3]
        ctx.enumerate("C01.history", cases, label="two_step(third)", complete=False)
    else:
        ctx.enumerate("C01.history", cases, label="two_step_core_mutators_squared")


@subcheck("C01", "histories", shards={"quick": 12, "thorough": 16})
def s_hist(ctx):
    ctx.given("C01.history", history(), n={"quick": 700, "thorough": 20000})


REQUIRED_CLASSES["C01"] = ["inplace:held_view", "apply_transform:mirror", "apply_transform:anisotropic", "invert", "update_faces:bool", "copy:copy_cache", "inplace:face_reversed", "there_and_back:nothing_read_before", "fill_holes"]
