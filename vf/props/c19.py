"""C19 — rotation / transform representations convert consistently
(trimesh/transformations.py, trimesh/geometry.py, trimesh/scene/transforms.py).

Tolerances (float64, eps = 2.2e-16), derived, not tuned:
  T14 = 1e-14  one closed formula evaluated on both sides (<= a dozen roundings of values <= 1)
  T13 = 1e-13  two chained conversions / an iterative eigen-solver in between
  T12 = 1e-12  products and chains of several rotations
  near a singular branch (gimbal lock, axis component used as divisor, acos/asin at +-1, slerp of
  almost equal quaternions) the parameters are ill conditioned: error = noise / distance-to-singularity.
  That is honoured up to CAP = 1e-7 (what any threshold-switched algorithm can reach: sqrt(eps) ~ 1.5e-8,
  times a small constant) and never further, because the *rotation* itself stays well conditioned.
"""

import itertools
import math

import numpy as np
from hypothesis import strategies as st

from trimesh import geometry
from trimesh import transformations as tf
from trimesh.scene.transforms import kwargs_to_matrix

from ..core import ASSUMPTIONS, REQUIRED_CLASSES, RULES, Violation, body, check, subcheck
from ..gen import matrices as gm
from ..oracle import c19_ref as ref

PI = math.pi
EPS = ref.EPS
T14, T13, T12 = 1e-14, 1e-13, 1e-12
CAP = 1e-7

RULES["C19"] = (
    "All 24 Euler conventions x (special-angle set)^3 enumerated (0, +-pi/2, +-pi, +-pi/4, +-2pi, tiny +-1e-k, "
    "pi/2 -+ 1e-k, pi - 1e-k, generic; the complete 31-value set in the thorough tier, a 17-value subset in quick) "
    "against the explicit product of elementary rotations; Hypothesis cases built from the same special set, sums of "
    "two specials and random reals for axis-angle, unit quaternions of both signs (grid {0,+-1,+-1.001}^4 normalised "
    "drives every largest-diagonal branch and the ties), quaternion pairs for multiply/inverse/slerp, TRS(+shear) "
    "factors (scale +-[0.1,10], shear [-2,2], canonical and non-canonical angles incl. exact gimbal lock), point arrays "
    "(n>=0, 2-D/3-D) x matrix classes incl. near-identity on both sides of the documented 1e-8 shortcut x translate, "
    "planar matrices, rigid / stretched matrices (stretch direction axis-aligned, diagonal, random), vector pairs "
    "(generic, parallel, antiparallel, tiny and pi-tiny angle) and planes. Wherever a scale factor or a length is a "
    "legal input (compose/decompose, scale_matrix/scale_from_matrix, scale_and_translate, planar scale, rescaled "
    "matrices for transform_points / transform_around, rotation points, plane origins) it ranges over every decade: "
    "scale factors 1e-9..1e9 (uniform and per-axis with ratio <= 100, both signs), lengths 1e-6..1e6, and every "
    "comparison is relative to the magnitude of the block it concerns. Every call is made with the caller's ndarrays "
    "watched: arguments must come back bit-identical and results must not alias them. 31 conversion entry points are also "
    "called with the same exactly representable values (24 signed permutation rotations, integer translations / points / "
    "scales / quaternions, fractional points where legal) in other argument forms - int64, int32, nested int lists, tuples, "
    "float32, read-only, Fortran-ordered, strided arrays, integer scalars; one argument at a time and all together - and "
    "must return the float64 answer as float64. Round trips are compared as matrices. "
    "Non-trivial: the rotation / transform of the case is not the identity (angle > 1e-13 or non-identity matrix)."
)
ASSUMPTIONS["C19"] = [
    "static 'sABC' means R = R_C(ak).R_B(aj).R_A(ai), rotating 'rABC' means R = R_A(ai).R_B(aj).R_C(ak); quaternions are [w,x,y,z]",
    "planar_matrix(theta) is the matrix [[c,s],[-s,c]] (clockwise for positive theta): the docstring leaves the sense open and trimesh.bounds.oriented_bounds_2D relies on this form",
    "quaternion_slerp is checked for spin=0 and fraction in [0,1] only (spin is undocumented); q1=-q0 with shortestpath=False is undefined and not generated",
    "near singular branches parameter noise/distance is tolerated up to 1e-7, see module docstring",
    "is_rigid is not asserted on reflections (orthogonal, det -1); fix_rigid is checked for (4,4) and (3,3) ndarray input",
    "transform_points is checked for affine matrices (last row 0..0 1); inside the documented 1e-8 identity shortcut both the unchanged points and the exact product are accepted",
    "scale_from_matrix: a uniform scaling stores the factor itself (relative precision expected), a directional one stores I+(f-1)dd^T (absolute precision eps*max(1,|f|) expected); the recovered origin may be any point of the fixed set",
    "argument forms: an angle handed over as float32 is evaluated by numpy in float32, so only float32 accuracy (16 eps32) is demanded there; fix_rigid is given ndarrays only (it reads matrix.shape) and may return its argument",
    "decompose_matrix is checked for perspective-free matrices; factor equality only for canonical factors (scales of one sign, |aj| < pi/2, ai, ak in (-pi, pi])",
]


# ------------------------------------------------------------------------------------------ helpers


def A(x, shape=None):
    a = np.asarray(x, dtype=np.float64)
    if shape is not None:
        a = a.reshape(shape)
    return a


def maxabs(x):
    x = np.asarray(x, dtype=np.float64)
    if x.size == 0:
        return 0.0
    m = float(np.abs(x).max())
    return m if m == m else float("inf")  # NaN counts as infinitely wrong


def check_rotation(R, sig, tol=T12, what=""):
    R = np.asarray(R, dtype=np.float64)
    check(np.isfinite(R).all(), sig + "|not_finite", lambda: f"{what} {R.tolist()}")
    o, d = ref.orth_defect(R)
    check(o <= tol, sig + "|not_orthonormal", lambda: f"{what} max|R^T R - I| = {o:.3g} > {tol:g}")
    check(d <= tol, sig + "|det_not_one", lambda: f"{what} |det-1| = {d:.3g}")


def check_hom(M, sig, dim=3):
    M = np.asarray(M)
    check(M.shape == (dim + 1, dim + 1), sig + "|shape", str(M.shape))
    last = [0.0] * dim + [1.0]
    check(M[dim].tolist() == last, sig + "|last_row", lambda: str(M[dim].tolist()))


def harness(cond, msg):
    """a broken generator is a harness error (exit 2), never a finding"""
    if not cond:
        raise RuntimeError("C19 harness: " + msg)


def guard(sig, fn, *args, _alias_ok=True, **kw):
    """fn(*args, **kw) with the caller's arrays watched: conversions are functions, so every ndarray argument must
    come back bit-identical, and (unless _alias_ok) an ndarray result must not share memory with an argument."""
    watched = [(k, a, a.copy()) for k, a in list(enumerate(args)) + list(kw.items()) if isinstance(a, np.ndarray)]
    out = fn(*args, **kw)
    for k, a, c in watched:
        same = a.shape == c.shape and bool(((a == c) | ((a != a) & (c != c))).all())
        check(same, sig + "|mutates_input", lambda: f"{fn.__name__}: argument {k} changed from {c.tolist()} to {a.tolist()}")
        if not _alias_ok:
            for o in out if isinstance(out, tuple) else (out,):
                check(not (isinstance(o, np.ndarray) and np.shares_memory(o, a)), sig + "|result_aliases_input", lambda: f"{fn.__name__}: result shares memory with argument {k}")
    return out


def mag_class(x):
    """decade bucket of a magnitude, for the histogram"""
    x = abs(float(x))
    return "0" if x == 0 else "<=1e-6" if x <= 1e-6 else "<=1e-3" if x <= 1e-3 else "unit" if x < 1e3 else "<1e6" if x < 1e6 else ">=1e6"


def sing_tol(base, dist, noise=32 * EPS):
    """base + noise/dist, the second term never above CAP"""
    return base + min(noise / max(dist, EPS), CAP)


# ------------------------------------------------------------------------------------------ Euler grid

SPECIAL_QUICK = [
    0.0, PI / 2, -PI / 2, PI, -PI, PI / 4, -PI / 4, 2 * PI, -2 * PI,
    1e-6, -1e-10, PI / 2 - 1e-6, -PI / 2 + 1e-10, PI - 1e-6, 0.7, -2.1, 3 * PI / 4,
]  # fmt: skip
SPECIAL_FULL = SPECIAL_QUICK + [
    1e-3, -1e-4, 1e-8, -1e-12, PI / 2 + 1e-8, PI / 2 - 1e-12, -PI / 2 - 1e-4, PI + 1e-10, -PI + 1e-3,
    2 * PI - 1e-8, 1.3, -0.4, 2.9, -3 * PI / 4,
]  # fmt: skip


def euler_class(axes, a):
    rep = axes[1] == axes[3]
    g = abs(math.sin(a[1])) if rep else abs(math.cos(a[1]))
    kind = "gimbal" if g <= 1e-15 else "near_gimbal" if g < 1e-3 else "regular"
    return ("static" if axes[0] == "s" else "rotating") + (":rep" if rep else ":norep") + ":" + kind, g


@body("C19.euler")
def b_euler(case, ctx):
    """euler_matrix == explicit product of elementary rotations; euler_from_matrix round trip as matrices."""
    axes = case["axes"]
    ai, aj, ak = case["a"]
    cls, _g = euler_class(axes, case["a"])
    want = ref.euler_ref(ai, aj, ak, axes)
    ctx.note(nontrivial=ref.rot_angle(want) > 1e-13, cls="euler:" + cls)
    M = tf.euler_matrix(ai, aj, ak, axes)
    check_hom(M, f"C19.euler|euler_matrix|{axes}")
    check(np.abs(M[:3, 3]).max() == 0.0, f"C19.euler|euler_matrix|{axes}|translation", "")
    e = maxabs(M[:3, :3] - want)
    check(e <= T14, f"C19.euler|euler_matrix|{axes}", lambda: f"a={case['a']} differs from elementary product by {e:.3g}")
    check_rotation(M[:3, :3], f"C19.euler|euler_matrix|{axes}", T14)
    tup = ref.axes_tuple(axes)
    Mt = tf.euler_matrix(ai, aj, ak, tup)
    check(np.array_equal(Mt, M), f"C19.euler|euler_matrix|tuple_form|{axes}", lambda: f"tuple {tup} gives a different matrix")
    # round trip (input is the library's own matrix: entries carry full relative precision)
    a2 = guard(f"C19.euler|euler_from_matrix|{axes}", tf.euler_from_matrix, M, axes)
    check(all(math.isfinite(float(x)) for x in a2), f"C19.euler|euler_from_matrix|{axes}|not_finite", str(a2))
    M2 = ref.euler_ref(float(a2[0]), float(a2[1]), float(a2[2]), axes)
    e = maxabs(M2 - want)
    check(e <= T13, f"C19.euler|euler_from_matrix|{axes}|{cls.split(':')[-1]}", lambda: f"a={case['a']} -> {tuple(map(float, a2))}: rotation differs by {e:.3g}")
    a3 = tf.euler_from_matrix(M, tup)
    check(tuple(map(float, a3)) == tuple(map(float, a2)), f"C19.euler|euler_from_matrix|tuple_form|{axes}", "")


@body("C19.euler_quat")
def b_euler_quat(case, ctx):
    """quaternion_from_euler vs elementary product; Euler angles recovered from matrices that carry ordinary
    rounding noise (reference product, quaternion_matrix) reproduce the rotation."""
    axes = case["axes"]
    ai, aj, ak = case["a"]
    cls, _g = euler_class(axes, case["a"])
    want = ref.euler_ref(ai, aj, ak, axes)
    ctx.note(nontrivial=ref.rot_angle(want) > 1e-13, cls="euler_quat:" + cls)
    q = tf.quaternion_from_euler(ai, aj, ak, axes)
    check(q.shape == (4,) and np.isfinite(q).all(), f"C19.euler_quat|quaternion_from_euler|{axes}|shape", str(q))
    check(abs(float(np.dot(q, q)) - 1.0) <= T14, f"C19.euler_quat|quaternion_from_euler|{axes}|norm", lambda: str(q.tolist()))
    e = maxabs(ref.quat_to_mat(q) - want)
    check(e <= T13, f"C19.euler_quat|quaternion_from_euler|{axes}", lambda: f"a={case['a']} q={q.tolist()} rotation differs by {e:.3g}")
    qt = tf.quaternion_from_euler(ai, aj, ak, ref.axes_tuple(axes))
    check(np.array_equal(qt, q), f"C19.euler_quat|quaternion_from_euler|tuple_form|{axes}", "")
    routes = (("reference_matrix", lambda: guard("C19.euler_quat|euler_from_matrix", tf.euler_from_matrix, ref.hom(want), axes), want), ("euler_from_quaternion", lambda: guard("C19.euler_quat|euler_from_quaternion", tf.euler_from_quaternion, q, axes), ref.quat_to_mat(q)))
    for name, fn, Rin in routes:
        a2 = fn()
        M2 = ref.euler_ref(float(a2[0]), float(a2[1]), float(a2[2]), axes)
        g = ref.gimbal_measure(Rin, axes)
        tol = sing_tol(T12, g)
        e = maxabs(M2 - Rin)
        kind = "near_gimbal" if g < 1e-6 else "regular"
        check(e <= tol, f"C19.euler_quat|{name}|{kind}", lambda: f"{axes} a={case['a']} (distance to gimbal lock {g:.3g}) -> {tuple(map(float, a2))}: rotation differs by {e:.3g} > {tol:.3g}")


def euler_grid(values):
    for axes in ref.AXES24:
        for a in itertools.product(values, repeat=3):
            yield {"axes": axes, "a": list(a)}


# ------------------------------------------------------------------------------------------ axis-angle


def angle_class(t):
    r = abs(t) % (2 * PI)
    r = min(r, 2 * PI - r)
    if r == 0.0 or r < 1e-14:
        return "zero"
    if r < 1e-3:
        return "tiny"
    if abs(r - PI) < 1e-3:
        return "pi"
    if abs(r - PI / 2) < 1e-3:
        return "half_pi"
    return "generic"


@body("C19.axis_angle")
def b_axis_angle(case, ctx):
    angle = case["angle"]
    axis = A(case["axis"])
    point = None if case.get("point") is None else A(case["point"])
    want = ref.rodrigues(axis, angle)
    u = ref.unit(axis)
    acls = angle_class(angle)
    planar = "axis_in_plane" if min(abs(u[2]), max(abs(u[1]), abs(u[0]))) < 1e-3 else "axis_generic"
    ctx.note(nontrivial=acls != "zero", cls=[f"axis_angle:{acls}", f"axis_angle:{planar}", "axis_angle:" + ("point" if point is not None else "origin")])
    M = guard("C19.axis_angle|rotation_matrix", tf.rotation_matrix, angle, axis, point)
    check_hom(M, "C19.axis_angle|rotation_matrix")
    e = maxabs(M[:3, :3] - want)
    check(e <= T14, "C19.axis_angle|rotation_matrix|vs_rodrigues", lambda: f"angle={angle} axis={axis.tolist()}: {e:.3g}")
    check_rotation(M[:3, :3], "C19.axis_angle|rotation_matrix", T14)
    ps = 1.0
    if point is None:
        check(maxabs(M[:3, 3]) == 0.0, "C19.axis_angle|rotation_matrix|translation_without_point", str(M[:3, 3]))
    else:
        ps = 1.0 + maxabs(point)
        for s in (0.0, 1.0, -2.5):
            p = point + s * u
            e = maxabs(M[:3, :3] @ p + M[:3, 3] - p)
            check(e <= 16 * EPS * (ps + abs(s)), "C19.axis_angle|rotation_matrix|point_not_fixed", lambda: f"angle={angle} axis={axis.tolist()} point={p.tolist()} moves by {e:.3g}")
    # documented identities
    for nm, M1 in (("angle_minus_2pi", tf.rotation_matrix(angle - 2 * PI, axis, point)), ("negated_axis_and_angle", tf.rotation_matrix(-angle, -axis, point))):
        e = maxabs(M1 - M)
        check(e <= T13 * ps * (1 + abs(angle)), f"C19.axis_angle|rotation_matrix|{nm}", lambda: f"{e:.3g}")
    # quaternion_about_axis
    q = guard("C19.axis_angle|quaternion_about_axis", tf.quaternion_about_axis, angle, axis)
    e = maxabs(q - ref.axis_angle_quat(axis, angle))
    check(e <= T14, "C19.axis_angle|quaternion_about_axis", lambda: f"angle={angle} axis={axis.tolist()} q={q.tolist()}: {e:.3g}")
    e = maxabs(tf.quaternion_matrix(q)[:3, :3] - want)
    check(e <= T13, "C19.axis_angle|quaternion_about_axis|matrix", lambda: f"{e:.3g}")
    # kwargs_to_matrix(axis=, angle=)
    K = guard("C19.axis_angle|kwargs_to_matrix", kwargs_to_matrix, axis=axis, angle=angle)
    check(maxabs(K - ref.hom(want)) <= T14, "C19.axis_angle|kwargs_to_matrix|axis_angle", "")
    # axis-angle recovered from the matrix describes the same transform
    try:
        ang2, d2, p2 = guard("C19.axis_angle|rotation_from_matrix", tf.rotation_from_matrix, M)
    except ValueError as exc:
        raise Violation(f"C19.axis_angle|rotation_from_matrix|raises|{acls}", f"angle={angle} axis={axis.tolist()} point={case.get('point')}: {exc}")
    d2 = A(d2)
    ok = np.isfinite(d2).all() and math.isfinite(float(ang2)) and np.isfinite(p2).all() and float(np.dot(d2, d2)) > 0
    check(ok, f"C19.axis_angle|rotation_from_matrix|not_finite|{acls}", lambda: f"angle={angle} axis={axis.tolist()} -> {ang2} {d2} {p2}")
    # the divisor documented in the source: first of d[2], d[1], d[0] that exceeds 1e-8
    div = abs(d2[2]) if abs(d2[2]) > 1e-8 else abs(d2[1]) if abs(d2[1]) > 1e-8 else abs(d2[0])
    M2 = tf.rotation_matrix(float(ang2), d2, A(p2)[:3])
    tol = sing_tol(T12, div / max(1e-300, math.sqrt(float(np.dot(d2, d2)))))
    e = maxabs(M2[:3, :3] - M[:3, :3])
    check(e <= tol, f"C19.axis_angle|rotation_from_matrix|rotation|{acls}|{planar}", lambda: f"angle={angle} axis={axis.tolist()} -> angle={float(ang2)} dir={d2.tolist()}: {e:.3g} > {tol:.3g}")
    if acls != "zero":
        e = maxabs(M2[:3, 3] - M[:3, 3])
        tt = tol * (ps + maxabs(A(p2)[:3]))
        check(e <= tt, f"C19.axis_angle|rotation_from_matrix|translation|{acls}", lambda: f"angle={angle} axis={axis.tolist()} point={case.get('point')} -> point={A(p2).tolist()}: {e:.3g} > {tt:.3g}")


# ------------------------------------------------------------------------------------------ quaternions


def quat_branch(q):
    q = ref.unit(q)
    if 4 * q[0] * q[0] > 1.0:
        return "w"
    return "xyz"[int(np.argmax(np.abs(q[1:])))]


@body("C19.quat_matrix")
def b_quat_matrix(case, ctx):
    q = ref.unit(case["q"])
    want = ref.quat_to_mat(q)
    br = quat_branch(q)
    tie = sorted(np.abs(q))[-1] - sorted(np.abs(q))[-2] < 1e-2
    ctx.note(nontrivial=ref.rot_angle(want) > 1e-13, cls=[f"quat:branch={br}", "quat:" + ("w<0" if q[0] < 0 else "w=0" if q[0] == 0 else "w>0")] + (["quat:tie"] if tie else []))
    M = guard("C19.quat|quaternion_matrix", tf.quaternion_matrix, q, _alias_ok=False)
    check_hom(M, "C19.quat|quaternion_matrix")
    check(maxabs(M[:3, 3]) == 0.0, "C19.quat|quaternion_matrix|translation", "")
    e = maxabs(M[:3, :3] - want)
    check(e <= T14, "C19.quat|quaternion_matrix|vs_definition", lambda: f"q={q.tolist()}: {e:.3g}")
    check_rotation(M[:3, :3], "C19.quat|quaternion_matrix", T14)
    e = maxabs(tf.quaternion_matrix(-q) - M)
    check(e <= T14, "C19.quat|quaternion_matrix|sign", lambda: f"q and -q give matrices differing by {e:.3g}")
    K = kwargs_to_matrix(quaternion=q.tolist(), translation=[1.0, -2.0, 3.0])
    check(maxabs(K - ref.hom(want, [1.0, -2.0, 3.0])) <= T14, "C19.quat|kwargs_to_matrix|quaternion", "")
    for precise in (True, False):
        for src, Min in (("reference", ref.hom(want)), ("quaternion_matrix", M)):
            qr = guard("C19.quat|quaternion_from_matrix", tf.quaternion_from_matrix, Min, isprecise=precise, _alias_ok=False)
            sig = f"C19.quat|quaternion_from_matrix|isprecise={precise}|branch={br}"
            check(qr.shape == (4,) and np.isfinite(qr).all(), sig + "|not_finite", lambda: f"q={q.tolist()} -> {qr}")
            check(abs(float(np.dot(qr, qr)) - 1.0) <= T13, sig + "|norm", lambda: f"q={q.tolist()} -> {qr.tolist()}")
            e = min(maxabs(qr - q), maxabs(qr + q))
            check(e <= T13, sig, lambda: f"q={q.tolist()} ({src} matrix) -> {qr.tolist()}: differs from +-q by {e:.3g}")
            e = maxabs(ref.quat_to_mat(qr) - want)
            check(e <= T13, sig + "|matrix", lambda: f"{e:.3g}")


@body("C19.quat_algebra")
def b_quat_algebra(case, ctx):
    q = ref.unit(case["q"])
    p = ref.unit(case["p"])
    s = float(case["s"])
    Rq, Rp = ref.quat_to_mat(q), ref.quat_to_mat(p)
    ctx.note(nontrivial=ref.rot_angle(Rq) > 1e-13 and ref.rot_angle(Rp) > 1e-13, cls="quat_algebra")
    r = guard("C19.quat_algebra|multiply", tf.quaternion_multiply, q, p, _alias_ok=False)
    e = maxabs(r - ref.hamilton(q, p))
    check(e <= T14, "C19.quat_algebra|multiply|vs_hamilton", lambda: f"q={q.tolist()} p={p.tolist()} -> {r.tolist()}: {e:.3g}")
    e = maxabs(ref.quat_to_mat(r) - Rq @ Rp)
    check(e <= T13, "C19.quat_algebra|multiply|matrix_product", lambda: f"{e:.3g}")
    c = guard("C19.quat_algebra|conjugate", tf.quaternion_conjugate, q, _alias_ok=False)
    check(c.tolist() == [q[0], -q[1], -q[2], -q[3]], "C19.quat_algebra|conjugate", str(c))
    e = maxabs(tf.quaternion_matrix(c)[:3, :3] - Rq.T)
    check(e <= T14, "C19.quat_algebra|conjugate|matrix_transpose", lambda: f"{e:.3g}")
    inv = guard("C19.quat_algebra|inverse", tf.quaternion_inverse, s * q, _alias_ok=False)
    e = maxabs(tf.quaternion_multiply(s * q, inv) - [1.0, 0.0, 0.0, 0.0])
    check(e <= T14, "C19.quat_algebra|inverse|product_is_one", lambda: f"q={(s * q).tolist()} inv={inv.tolist()}: {e:.3g}")
    e = maxabs(inv * s - A([q[0], -q[1], -q[2], -q[3]]))
    check(e <= T14, "C19.quat_algebra|inverse|vs_conjugate", lambda: f"{e:.3g}")
    check(tf.quaternion_real(q) == q[0] and tf.quaternion_imag(q).tolist() == q[1:].tolist(), "C19.quat_algebra|real_imag", "")
    both = guard("C19.quat_algebra|quaternion_matrix|batch", tf.quaternion_matrix, np.array([q, p]), _alias_ok=False)
    check(both.shape == (2, 4, 4), "C19.quat_algebra|quaternion_matrix|batch_shape", str(both.shape))
    e = max(maxabs(both[0][:3, :3] - Rq), maxabs(both[1][:3, :3] - Rp))
    check(e <= T14, "C19.quat_algebra|quaternion_matrix|batch", lambda: f"{e:.3g}")


@body("C19.slerp")
def b_slerp(case, ctx):
    q0 = ref.unit(case["q"])
    q1 = ref.unit(case["p"])
    t = float(case["t"])
    shortest = bool(case["shortest"])
    d = float(np.dot(q0, q1))
    if not shortest and d < -0.99:
        return  # interpolation through (almost) antipodal quaternions is singular: outside the domain
    want, om = ref.slerp_ref(q0, q1, t, shortest)
    flip = shortest and d < 0
    kind = "identical" if om < 5e-8 else "tiny" if om < 1e-3 else "generic"
    ctx.note(nontrivial=om > 1e-13, cls=[f"slerp:{kind}", "slerp:" + ("flip" if flip else "long" if d < 0 else "direct"), "slerp:t=" + ("0" if t == 0 else "1" if t == 1 else "mid")])
    got = guard("C19.slerp", tf.quaternion_slerp, q0, q1, t, 0, shortest, _alias_ok=False)
    sig = f"C19.slerp|shortestpath={shortest}|{kind}"
    check(got.shape == (4,) and np.isfinite(got).all(), sig + "|not_finite", str(got))
    # acos(d) loses up to sqrt(2 eps) when d ~ 1 and the library returns q0 outright below that: CAP
    tol = CAP if om < 1e-6 else T12
    check(abs(float(np.dot(got, got)) - 1.0) <= 2 * tol, sig + "|norm", lambda: f"|q(t)|^2 = {float(np.dot(got, got))!r}")
    if t == 0.0:
        check(maxabs(got - q0) <= T14, sig + "|endpoint0", lambda: f"{got.tolist()} vs {q0.tolist()}")
    elif t == 1.0:
        e = min(maxabs(got - q1), maxabs(got + q1)) if shortest else maxabs(got - q1)
        check(e <= T14, sig + "|endpoint1", lambda: f"{got.tolist()} vs {q1.tolist()}")
    else:
        e = maxabs(got - want)
        check(e <= tol, sig + "|vs_definition", lambda: f"q0={q0.tolist()} q1={q1.tolist()} t={t}: {got.tolist()} vs {want.tolist()}: {e:.3g}")
        e = abs(ref.vec_angle(q0, got) - t * om)
        check(e <= tol, sig + "|angular_rate", lambda: f"angle(q0,q(t))={ref.vec_angle(q0, got)!r} vs t*omega={t * om!r}")


# ------------------------------------------------------------------------------------------ compose / decompose


@body("C19.trs")
def b_trs(case, ctx):
    scale, shear, angles, translate = A(case["scale"]), A(case["shear"]), [float(x) for x in case["angles"]], A(case["translate"])
    want = ref.trs_ref(scale, shear, angles, translate)
    L = want[:3, :3]
    cond = float(np.linalg.cond(L))
    cj = abs(math.cos(angles[1]))
    signs = set(np.sign(scale).tolist())
    one_sign = len(signs) == 1
    gim = "gimbal" if cj <= 1e-15 else "near_gimbal" if cj < 1e-3 else "regular"
    canonical = one_sign and gim == "regular" and abs(angles[1]) < PI / 2 and all(-PI < a <= PI for a in (angles[0], angles[2]))
    has_shear = bool(np.any(shear != 0))
    ctx.note(nontrivial=maxabs(L - np.eye(3)) > 1e-13, cls=[f"trs:{gim}", "trs:scale" + mag_class(maxabs(scale)), "trs:translate" + mag_class(maxabs(translate)), "trs:" + ("canonical" if canonical else "noncanonical"), "trs:" + ("one_sign" if one_sign else "mixed_sign"), "trs:" + ("shear" if has_shear else "noshear")])
    # everything is measured RELATIVE to the size of the block it lives in: the linear block scales with the scale
    # factors (1e-9 .. 1e9, per-axis ratio bounded, which cond(L) accounts for), the translation with |translate|
    Ls, ts = maxabs(L), maxabs(translate)

    def rel(X, Y):
        return maxabs(X[:3, :3] - Y[:3, :3]) / Ls, maxabs(X[:3, 3] - Y[:3, 3]) / (ts if ts else 1.0)

    M = guard("C19.trs|compose_matrix", tf.compose_matrix, scale=scale, shear=shear, angles=A(angles), translate=translate)
    check_hom(M, "C19.trs|compose_matrix")
    el, et = rel(M, want)
    check(el <= T14 and et <= 4 * EPS, "C19.trs|compose_matrix|vs_definition", lambda: f"case={case}: relative error linear {el:.3g} translation {et:.3g}")
    # partial argument lists
    el, et = rel(tf.compose_matrix(angles=angles, translate=translate), ref.trs_ref([1, 1, 1], [0, 0, 0], angles, translate))
    check(el * Ls <= T14 and et <= 4 * EPS, "C19.trs|compose_matrix|angles_translate_only", lambda: f"{el * Ls:.3g} {et:.3g}")
    try:
        sc2, sh2, an2, tr2, pe2 = guard("C19.trs|decompose_matrix", tf.decompose_matrix, M)
    except ValueError as exc:
        raise Violation("C19.trs|decompose_matrix|raises_on_invertible", f"cond(L)={cond:.3g}, scale magnitude {maxabs(scale):.3g}; case={case}: {exc}")
    check(all(np.isfinite(A(x)).all() for x in (sc2, sh2, an2, tr2, pe2)), f"C19.trs|decompose_matrix|not_finite|{gim}", lambda: f"case={case} -> {sc2} {sh2} {an2}")
    check(A(pe2).tolist() == [0.0, 0.0, 0.0, 1.0], "C19.trs|decompose_matrix|perspective", str(pe2))
    check(maxabs(A(tr2) - translate) <= 4 * EPS * ts, "C19.trs|decompose_matrix|translate", lambda: f"{A(tr2).tolist()} vs {translate.tolist()}")
    # Gram-Schmidt on the columns: noise eps*cond; angles: noise / cos(aj); asin at +-1 loses sqrt(2 eps cond) <= 1e-6 for cond <= 2e3
    noise = 64 * EPS * cond
    tol = noise / cj if gim == "regular" else 1e-6
    M2 = guard("C19.trs|compose_matrix", tf.compose_matrix, A(sc2), A(sh2), A(an2), A(tr2), A(pe2))
    el, et = rel(M2, M)
    check(el <= tol and et <= 4 * EPS, f"C19.trs|recompose|{gim}|" + ("shear_or_scale" if has_shear or maxabs(np.abs(scale) - 1) > 0 else "pure_rotation"), lambda: f"scale={scale.tolist()} shear={shear.tolist()} angles={angles} translate={translate.tolist()} -> scale={A(sc2).tolist()} shear={A(sh2).tolist()} angles={A(an2).tolist()}: compose(decompose(M)) differs from M by {el:.3g} (linear, relative) / {et:.3g} (translation, relative) > {tol:.3g}")
    check_rotation(tf.euler_matrix(*an2)[:3, :3], "C19.trs|decompose_matrix|angles", T14)
    if canonical:
        e = maxabs(A(sc2) - scale) / maxabs(scale)
        check(e <= tol, "C19.trs|factors|scale", lambda: f"{A(sc2).tolist()} vs {scale.tolist()} ({e:.3g} > {tol:.3g})")
        e = maxabs(A(sh2) - shear)
        check(e <= tol * (1 + maxabs(shear)) * 4, "C19.trs|factors|shear", lambda: f"{A(sh2).tolist()} vs {shear.tolist()} ({e:.3g})")
        e = max(ref.circ_diff(float(a), b) for a, b in zip(an2, angles))
        check(e <= tol * 4, "C19.trs|factors|angles", lambda: f"{A(an2).tolist()} vs {angles} ({e:.3g} > {4 * tol:.3g})")


# ------------------------------------------------------------------------------------------ points


@body("C19.points")
def b_points(case, ctx):
    dim = case["dim"]
    M = A(case["M"], (dim + 1, dim + 1))
    P = A(case["P"], (-1, dim))
    translate = bool(case["translate"])
    delta = maxabs(M - np.eye(dim + 1))
    short = delta < 1e-8
    ctx.note(nontrivial=len(P) > 0 and delta > 0, cls=[f"points:{dim}d:" + ("shortcut" if short else "near_shortcut" if delta < 1e-6 else "regular"), f"points:{dim}d:{case.get('cls', '?')}", f"points:translate={translate}", "points:empty" if len(P) == 0 else "points:nonempty"])
    got = guard("C19.points|transform_points", tf.transform_points, P, M, translate=translate, _alias_ok=False)
    sig = f"C19.points|{dim}d|translate={translate}"
    check(isinstance(got, np.ndarray) and got.shape == P.shape, sig + "|shape", lambda: f"{getattr(got, 'shape', None)} vs {P.shape}")
    if len(P) == 0:
        return
    L, t = M[:dim, :dim], M[:dim, dim]
    want = np.array([[sum(L[r, c] * p[c] for c in range(dim)) + (t[r] if translate else 0.0) for r in range(dim)] for p in P])
    mag = np.abs(P) @ np.abs(L).T + (np.abs(t) if translate else 0.0)
    err = np.abs(got - want)
    ok = bool((err <= 8 * EPS * mag + 1e-300).all())
    if short and not ok:
        # documented shortcut: a matrix within 1e-8 of the identity leaves the points unchanged
        ok = np.array_equal(got, P)
    check(ok, sig + f"|{case.get('cls', '?')}" + ("|shortcut" if short else ""), lambda: f"M={M.tolist()} P={P.tolist()}: got {got.tolist()} want {want.tolist()} (max|M-I|={delta:.3g})")
    if not translate and not short:
        # translate=False is the action on directions: differences of transformed points
        full = tf.transform_points(P, M, translate=True)
        if delta >= 1e-8 and len(P) > 1:
            dd = (full[1:] - full[:1]) - (got[1:] - got[:1])
            check((np.abs(dd) <= 32 * EPS * (mag[1:] + mag[:1] + np.abs(t))).all(), sig + "|direction_consistency", lambda: str(dd.tolist()))


# ------------------------------------------------------------------------------------------ planar, around, scale_and_translate


def planar_ref(offset, theta, point, scale):
    c, s = math.cos(theta), math.sin(theta)
    T = np.array([[c, s, offset[0]], [-s, c, offset[1]], [0.0, 0.0, 1.0]])
    if point is not None:
        T = ref.hom(np.eye(2), point) @ T @ ref.hom(np.eye(2), -A(point))
    if scale is not None:
        sc = A(scale) if np.ndim(scale) else A([scale, scale])
        T = np.diag([sc[0], sc[1], 1.0]) @ T
    return T


@body("C19.planar")
def b_planar(case, ctx):
    offset, theta, point, scale = case["offset"], case["theta"], case["point"], case["scale"]
    off = [0.0, 0.0] if offset is None else offset
    th = 0.0 if theta is None else theta
    want = planar_ref(off, th, point, scale)
    ctx.note(nontrivial=maxabs(want - np.eye(3)) > 1e-13, cls=["planar:" + ("point" if point is not None else "nopoint"), "planar:" + ("scale" if scale is not None else "noscale"), "planar:theta=" + angle_class(th)])
    kw = {"offset": None if offset is None else A(offset), "theta": theta, "point": None if point is None else A(point), "scale": A(scale) if scale is not None and np.ndim(scale) else scale}
    T = guard("C19.planar|planar_matrix", tf.planar_matrix, **kw)
    check_hom(T, "C19.planar|planar_matrix", dim=2)
    # relative per row: row r of the result is scale[r] times (rotation | p - R p + offset)
    rs = np.ones(2) if scale is None else np.abs(A(scale) if np.ndim(scale) else A([scale, scale]))
    tm = maxabs(off) + (2 * maxabs(point) if point is not None else 0.0)
    el = maxabs((T[:2, :2] - want[:2, :2]) / rs[:, None])
    et = maxabs((T[:2, 2] - want[:2, 2]) / rs) / (tm if tm else 1.0)
    check(el <= T14 and et <= T14, "C19.planar|planar_matrix|vs_definition|" + ("point" if point is not None else "nopoint") + ("|scale" if scale is not None else ""), lambda: f"case={case}: got {T.tolist()} want {want.tolist()} (relative error linear {el:.3g}, translation {et:.3g})")
    if scale is None:
        check_rotation(T[:2, :2], "C19.planar|planar_matrix", T14)
        if point is not None:
            e = maxabs(T[:2, :2] @ A(point) + T[:2, 2] - A(point) - A(off))
            check(e <= 16 * EPS * tm, "C19.planar|planar_matrix|point_not_fixed", lambda: f"case={case}: {e:.3g}")
    # planar_matrix_to_3D: acts on (x, y) like the 2D matrix and leaves z alone
    M3 = guard("C19.planar|planar_matrix_to_3D", tf.planar_matrix_to_3D, T, _alias_ok=False)
    w3 = np.eye(4)
    w3[:2, :2] = T[:2, :2]
    w3[:2, 3] = T[:2, 2]
    check(np.array_equal(M3, w3), "C19.planar|planar_matrix_to_3D", lambda: f"{M3.tolist()} vs {w3.tolist()}")
    pts2 = A([[0.0, 0.0], [1.0, 0.0], [-2.0, 3.5]])
    a2 = tf.transform_points(pts2, T)
    a3 = tf.transform_points(np.column_stack((pts2, [0.0, 1.0, -7.0])), M3)
    magp = np.abs(pts2) @ np.abs(T[:2, :2]).T + np.abs(T[:2, 2])
    check(bool((np.abs(a3[:, :2] - a2) <= 32 * EPS * magp).all()) and a3[:, 2].tolist() == [0.0, 1.0, -7.0], "C19.planar|planar_matrix_to_3D|action", lambda: f"{a3.tolist()} vs {a2.tolist()}")


@body("C19.around")
def b_around(case, ctx):
    dim = case["dim"]
    M = A(case["M"], (dim + 1, dim + 1))
    p = A(case["p"])
    ctx.note(nontrivial=maxabs(M - np.eye(dim + 1)) > 1e-13, cls=[f"around:{dim}d", f"around:{case.get('cls', '?')}", "around:linear" + mag_class(maxabs(M[:dim, :dim])), "around:point" + mag_class(maxabs(p))])
    got = guard("C19.around|transform_around", tf.transform_around, M, p, _alias_ok=False)
    L, t = M[:dim, :dim], M[:dim, dim]
    want = ref.hom(L, p - L @ p + t)
    check(got.shape == want.shape, "C19.around|shape", str(got.shape))
    # the linear block is untouched by conjugation with translations; the translation is p - L p + t
    magt = maxabs(p) * (1.0 + float(np.abs(L).sum(axis=1).max())) + maxabs(t)
    el = maxabs(got[:dim, :dim] - L)
    check(el <= 4 * EPS * maxabs(L) and got[dim].tolist() == [0.0] * dim + [1.0], f"C19.around|vs_definition|linear|{dim}d", lambda: f"M={M.tolist()} p={p.tolist()}: {got.tolist()}")
    e = maxabs(got[:dim, dim] - want[:dim, dim])
    check(e <= 16 * EPS * magt, f"C19.around|vs_definition|{dim}d", lambda: f"M={M.tolist()} p={p.tolist()}: {got.tolist()} vs {want.tolist()}")
    e = maxabs(got[:dim, :dim] @ p + got[:dim, dim] - (p + t))
    check(e <= 32 * EPS * magt, f"C19.around|point_not_fixed|{dim}d", lambda: f"M={M.tolist()} p={p.tolist()}: moves by {e:.3g}")
    # wrong-size input is documented to raise ValueError
    try:
        tf.transform_around(M, np.append(p, 1.0))
        raise Violation("C19.around|no_error_on_dimension_mismatch", "")
    except ValueError:
        pass


@body("C19.scale_translate")
def b_scale_translate(case, ctx):
    scale, translate = case["scale"], case["translate"]
    want = np.eye(4)
    if scale is not None:
        want[:3, :3] = np.diag(A(scale) if np.ndim(scale) else A([scale] * 3))
    if translate is not None:
        want[:3, 3] = translate
    ctx.note(nontrivial=maxabs(want - np.eye(4)) > 0, cls=["scale_translate:scale=" + ("none" if scale is None else "vector" if np.ndim(scale) else "scalar"), "scale_translate:translate=" + ("none" if translate is None else "vector" if np.ndim(translate) else "scalar")] + ([] if scale is None else ["scale_translate:scale" + mag_class(maxabs(scale))]))
    kw = {}
    if scale is not None:
        kw["scale"] = np.asarray(scale, dtype=np.float64) if np.ndim(scale) else scale
    if translate is not None:
        kw["translate"] = np.asarray(translate, dtype=np.float64) if np.ndim(translate) else translate
    try:
        got = guard("C19.scale_translate|scale_and_translate", tf.scale_and_translate, _alias_ok=False, **kw)
    except Violation:
        raise
    except Exception as exc:  # noqa
        raise Violation("C19.scale_translate|raises|scale=" + ("default_None" if scale is None else "given"), f"scale_and_translate({kw}) raised {type(exc).__name__}: {exc}")
    check(np.array_equal(got, want), "C19.scale_translate|vs_definition", lambda: f"{kw}: {np.asarray(got).tolist()} vs {want.tolist()}")
    # "optimized version of compose_matrix for just scaling then translating"
    if scale is not None and translate is not None and np.ndim(scale) and np.ndim(translate):
        check(maxabs(tf.compose_matrix(scale=scale, translate=translate) - got) == 0.0, "C19.scale_translate|vs_compose_matrix", "")


def scale_ref(factor, origin, direction):
    """x -> o + f (x - o)   resp.   x -> x + (f - 1) ((x - o) . d) d   for the unit vector d"""
    o = np.zeros(3) if origin is None else A(origin)
    if direction is None:
        return ref.hom(factor * np.eye(3), (1.0 - factor) * o)
    d = ref.unit(direction)
    return ref.hom(np.eye(3) + (factor - 1.0) * np.outer(d, d), (1.0 - factor) * float(np.dot(o, d)) * d)


@body("C19.scale_matrix")
def b_scale_matrix(case, ctx):
    """scale_matrix against the definition and scale_from_matrix round trip, as matrices, over factor magnitudes
    1e-9 .. 1e9. Tolerances are relative to the block: the linear block of a uniform scaling is f*I (relative eps),
    of a directional scaling I + (f-1) d d^T (absolute eps * max(1,|f|)); the translation is (1-f) times the origin."""
    f = float(case["factor"])
    origin = None if case["origin"] is None else A(case["origin"])
    direction = None if case["direction"] is None else A(case["direction"])
    kind = "uniform" if direction is None else "directional"
    want = scale_ref(f, origin, direction)
    fm = "factor" + ("<0" if f < 0 else "") + mag_class(f)
    ctx.note(nontrivial=f != 1.0, cls=[f"scale_matrix:{kind}", f"scale_matrix:{kind}:{fm}", "scale_matrix:" + ("origin" + mag_class(maxabs(origin)) if origin is not None else "noorigin")])
    S = guard("C19.scale_matrix|scale_matrix", tf.scale_matrix, f, origin, direction, _alias_ok=False)
    check_hom(S, "C19.scale_matrix|scale_matrix")
    lin = abs(f) if kind == "uniform" else max(1.0, abs(f))
    om = 0.0 if origin is None else maxabs(origin)
    tmag = (1.0 + abs(f)) * om
    el = maxabs(S[:3, :3] - want[:3, :3]) / lin
    et = maxabs(S[:3, 3] - want[:3, 3]) / (tmag if tmag else 1.0)
    check(el <= T14 and et <= T14, f"C19.scale_matrix|scale_matrix|vs_definition|{kind}", lambda: f"case={case}: relative error linear {el:.3g} translation {et:.3g}")
    if origin is not None:
        e = maxabs(S[:3, :3] @ origin + S[:3, 3] - origin)
        check(e <= 16 * EPS * tmag + 1e-300, f"C19.scale_matrix|scale_matrix|origin_not_fixed|{kind}", lambda: f"case={case}: origin moves by {e:.3g}")
    try:
        f2, o2, d2 = guard("C19.scale_matrix|scale_from_matrix", tf.scale_from_matrix, S)
    except (ValueError, IndexError) as exc:
        raise Violation(f"C19.scale_matrix|scale_from_matrix|raises|{kind}|{fm}", f"case={case}: {type(exc).__name__}: {exc}")
    ok = math.isfinite(float(f2)) and np.isfinite(A(o2)).all() and (d2 is None or np.isfinite(A(d2)).all())
    check(ok, f"C19.scale_matrix|scale_from_matrix|not_finite|{kind}|{fm}", lambda: f"case={case} -> {f2} {o2} {d2}")
    if f != 1.0:
        check((d2 is None) == (direction is None), f"C19.scale_matrix|scale_from_matrix|kind_confused|{kind}|{fm}", lambda: f"case={case}: a {kind} scaling by {f!r} was read back as factor={float(f2)!r} direction={None if d2 is None else A(d2).tolist()}")
    # the factor: a uniform scaling stores f itself three times (relative eps); a directional one stores 1 + (f-1) d_i d_j
    ef = abs(float(f2) - f) / lin
    check(ef <= T13, f"C19.scale_matrix|scale_from_matrix|factor|{kind}|{fm}", lambda: f"case={case}: factor {f!r} read back as {float(f2)!r} (relative error {ef:.3g})")
    S2 = tf.scale_matrix(float(f2), A(o2)[:3], None if d2 is None else A(d2))
    el = maxabs(S2[:3, :3] - S[:3, :3]) / lin
    check(el <= T13, f"C19.scale_matrix|round_trip|linear|{kind}|{fm}", lambda: f"case={case} -> factor={float(f2)!r} direction={None if d2 is None else A(d2).tolist()}: relative error {el:.3g}")
    # the origin is any point of the fixed set, picked by the eigen-solver: cancellation scales with the point it picked
    tm2 = (1.0 + abs(f)) * max(om, maxabs(A(o2)[:3]))
    et = maxabs(S2[:3, 3] - S[:3, 3])
    check(et <= T13 * tm2 + 1e-300, f"C19.scale_matrix|round_trip|translation|{kind}|{fm}", lambda: f"case={case} -> origin={A(o2).tolist()}: translation differs by {et:.3g} > {T13 * tm2:.3g}")


# ------------------------------------------------------------------------------------------ is_rigid / fix_rigid


@body("C19.rigid")
def b_rigid(case, ctx):
    M = A(case["M"], (4, 4))
    kind = case["kind"]
    L = M[:3, :3]
    dev = maxabs(L @ L.T - np.eye(3))
    ctx.note(nontrivial=maxabs(M - np.eye(4)) > 1e-13, cls=[f"rigid:{kind}"] + ([f"rigid:dir={case['dir']}"] if "dir" in case else []))
    got = guard("C19.rigid|is_rigid", tf.is_rigid, M)
    check(isinstance(got, (bool, np.bool_)), "C19.rigid|is_rigid|type", str(type(got)))
    if kind == "rigid":
        harness(dev <= 1e-12, f"rigid generator produced dev={dev}")
        check(bool(got), "C19.rigid|is_rigid|rejects_rigid", lambda: f"M={M.tolist()}")
        check(not tf.is_rigid(M[:3, :3]), "C19.rigid|is_rigid|accepts_3x3", "documented: (4,4) only")
    elif kind in ("stretch", "nonrigid"):
        # deviation of L L^T from I is at least 1e-6, two orders beyond the default epsilon=1e-8
        harness(dev >= 1e-6, f"non-rigid generator produced dev={dev}")
        D = L @ L.T - np.eye(3)
        shape = "uniform_deviation" if float(D.max() - D.min()) < 1e-8 else "other"  # all nine entries of L L^T - I (almost) equal
        check(not bool(got), f"C19.rigid|is_rigid|accepts_nonrigid|{shape}", lambda: f"max|L L^T - I| = {dev:.3g} but is_rigid -> True; M={M.tolist()}")
    elif kind == "lastrow":
        off = M[3] - [0.0, 0.0, 0.0, 1.0]
        shape = "uniform_offset" if float(off.max() - off.min()) < 1e-8 else "other"
        check(not bool(got), f"C19.rigid|is_rigid|accepts_bad_last_row|{shape}", lambda: f"last row {M[3].tolist()} but is_rigid -> True")


@body("C19.fix_rigid")
def b_fix_rigid(case, ctx):
    dim = case["dim"]
    M = A(case["M"], (dim + 1, dim + 1))
    L = M[:dim, :dim]
    dev = maxabs(L @ L.T - np.eye(dim))
    md = 1e-5
    region = "exact" if dev <= 1e-14 else "repair" if 1e-12 < dev < 0.5 * md else "beyond" if dev > 2 * md else "edge"
    ctx.note(nontrivial=dev > 1e-14, cls=[f"fix_rigid:{dim}d:{region}"])
    before = M.copy()
    got = tf.fix_rigid(M)
    check(np.array_equal(M, before), "C19.fix_rigid|mutates_input", "")
    check(got.shape == M.shape, "C19.fix_rigid|shape", str(got.shape))
    if region in ("exact", "beyond"):
        check(np.array_equal(got, M), f"C19.fix_rigid|altered|{region}", lambda: f"dev={dev:.3g}: matrix changed by {maxabs(got - M):.3g}")
    if region == "repair":
        o = maxabs(got[:dim, :dim] @ got[:dim, :dim].T - np.eye(dim))
        check(o <= T13, "C19.fix_rigid|not_orthonormal", lambda: f"dev {dev:.3g} -> {o:.3g}")
        check(np.array_equal(got[:dim, dim], M[:dim, dim]) and got[dim].tolist() == [0.0] * dim + [1.0], "C19.fix_rigid|translation", lambda: f"{got.tolist()}")
        e = maxabs(got - M)
        check(e <= 3 * dev + 4 * EPS, "C19.fix_rigid|too_far", lambda: f"moved {e:.3g} for deviance {dev:.3g}")
        check(np.sign(np.linalg.det(got[:dim, :dim])) == np.sign(np.linalg.det(L)), "C19.fix_rigid|orientation", "")
        again = tf.fix_rigid(got)
        check(maxabs(again - got) <= T13, "C19.fix_rigid|not_idempotent", lambda: f"{maxabs(again - got):.3g}")
        if dim == 3:
            check(bool(tf.is_rigid(got)), "C19.fix_rigid|result_not_rigid", "")


# ------------------------------------------------------------------------------------------ align_vectors / plane_transform


@body("C19.align")
def b_align(case, ctx):
    a, b = A(case["a"]), A(case["b"])
    au, bu = ref.unit(a), ref.unit(b)
    th = ref.vec_angle(au, bu)
    kind = case["kind"]
    ctx.note(nontrivial=th > 1e-13, cls=[f"align:{kind}", "align:" + ("acute" if th < PI / 2 else "obtuse")])
    M = guard("C19.align|align_vectors", geometry.align_vectors, a, b, _alias_ok=False)
    check_hom(M, "C19.align|align_vectors")
    check(maxabs(M[:3, 3]) == 0.0, "C19.align|align_vectors|translation", "")
    check_rotation(M[:3, :3], f"C19.align|align_vectors|{kind}", T12)
    e = maxabs(M[:3, :3] @ au - bu)
    check(e <= T12, f"C19.align|align_vectors|maps_a_to_b|{kind}", lambda: f"a={a.tolist()} b={b.tolist()}: R a = {(M[:3, :3] @ au).tolist()} ({e:.3g})")
    M2, ang = geometry.align_vectors(a, b, return_angle=True)
    check(np.array_equal(M2, M), "C19.align|return_angle|matrix_differs", "")
    # acos at +-1 loses sqrt(2 eps) ~ 2.1e-8 (the in-tree test allows 1e-6 for tiny angles)
    tol = T12 + min(8 * EPS / max(math.sin(th), 1e-300), 1e-6)
    e = abs(float(ang) - th)
    which = ("obtuse" if th > PI / 2 else "acute") + ("" if kind in ("generic", "axis") else "|" + kind)
    check(e <= tol, f"C19.align|return_angle|{which}", lambda: f"a={a.tolist()} b={b.tolist()}: returned angle {float(ang)!r}, angle between a and b is {th!r}")


@body("C19.plane")
def b_plane(case, ctx):
    origin, normal = A(case["origin"]), A(case["normal"])
    n = ref.unit(normal)
    ctx.note(nontrivial=ref.vec_angle(n, [0, 0, 1]) > 1e-13 or maxabs(origin) > 0, cls=[f"plane:{case['kind']}"])
    T = guard("C19.plane|plane_transform", geometry.plane_transform, origin, normal, _alias_ok=False)
    check_hom(T, "C19.plane|plane_transform")
    check_rotation(T[:3, :3], f"C19.plane|plane_transform|{case['kind']}", T12)
    mag = 1.0 + maxabs(origin)
    e = maxabs(T[:3, :3] @ origin + T[:3, 3])
    check(e <= 16 * EPS * mag, "C19.plane|plane_transform|origin_not_mapped_to_zero", lambda: f"origin={origin.tolist()} normal={normal.tolist()}: {e:.3g}")
    e = maxabs(T[:3, :3] @ n - [0.0, 0.0, 1.0])
    check(e <= T12, f"C19.plane|plane_transform|normal_not_plus_z|{case['kind']}", lambda: f"normal={normal.tolist()} -> {(T[:3, :3] @ n).tolist()}")
    # points of the plane land on z = 0
    u = np.cross(n, [1.0, 0.0, 0.0] if abs(n[0]) < 0.9 else [0.0, 1.0, 0.0])
    u = ref.unit(u)
    v = np.cross(n, u)
    pts = origin + A([[1.0, 0.0], [0.0, 1.0], [-3.0, 2.0]]) @ np.vstack((u, v))
    z = (pts @ T[:3, :3].T + T[:3, 3])[:, 2]  # not transform_points: its 1e-8 identity shortcut would leave |origin| < 1e-8 in place
    check(maxabs(z) <= 64 * EPS * (mag + 4), "C19.plane|plane_transform|plane_not_on_xy", lambda: f"z={z.tolist()}")
    T0 = geometry.plane_transform(None, normal)
    check(maxabs(T0[:3, 3]) == 0.0 and np.array_equal(T0[:3, :3], T[:3, :3]), "C19.plane|plane_transform|origin_none", "")


# ------------------------------------------------------------------------------------------ kwargs_to_matrix


@body("C19.kwargs")
def b_kwargs(case, ctx):
    M = None if case["M"] is None else A(case["M"], (4, 4))
    q, tr, axis, angle = case["q"], case["translation"], case["axis"], case["angle"]
    if M is not None:
        want, route = M, "matrix"
    else:
        if q is not None:
            want, route = ref.hom(ref.quat_to_mat(q)), "quaternion"
        elif axis is not None and angle is not None:
            want, route = ref.hom(ref.rodrigues(axis, angle)), "axis_angle"
        else:
            want, route = np.eye(4), "identity"
        if tr is not None:
            want = want.copy()
            want[:3, 3] += tr
    ctx.note(nontrivial=maxabs(want - np.eye(4)) > 1e-13, cls=[f"kwargs:{route}", "kwargs:" + ("translation" if tr is not None else "notranslation")])
    kw = {k: v for k, v in (("matrix", M), ("quaternion", q), ("translation", tr), ("axis", axis), ("angle", angle)) if v is not None}
    got = kwargs_to_matrix(**kw)
    check(got.shape == (4, 4), "C19.kwargs|shape", str(got.shape))
    e = maxabs(got - want)
    check(e <= T14 * (1 + (maxabs(tr) if tr is not None else 0)), f"C19.kwargs|{route}", lambda: f"{kw}: {got.tolist()} vs {want.tolist()}")
    if M is not None:
        check(got is not M and not np.shares_memory(got, M), "C19.kwargs|matrix_not_copied", "")


# ------------------------------------------------------------------------------------------ strategies

_f = lambda lo, hi: st.floats(lo, hi, allow_nan=False, allow_infinity=False)  # noqa

TINY = [s * 10.0**-k for k in (3, 4, 6, 8, 10, 12) for s in (1.0, -1.0)]
BASE_ANGLES = [0.0, PI / 2, -PI / 2, PI, -PI, PI / 4, -PI / 4, 2 * PI, -2 * PI, 3 * PI / 4]


@st.composite
def angle(draw, lo=-2 * PI, hi=2 * PI):
    k = draw(st.integers(0, 5))
    if k == 0:
        return draw(st.sampled_from(BASE_ANGLES))
    if k == 1:
        return draw(st.sampled_from(TINY))
    if k == 2:
        return draw(st.sampled_from(BASE_ANGLES)) + draw(st.sampled_from(TINY))
    if k == 3:
        return draw(st.sampled_from(BASE_ANGLES)) + draw(st.sampled_from(BASE_ANGLES))
    return draw(_f(lo, hi))


@st.composite
def axis_vec(draw):
    k = draw(st.integers(0, 5))
    if k == 0:
        v = [0.0, 0.0, 0.0]
        v[draw(st.integers(0, 2))] = draw(st.sampled_from([1.0, -1.0, 2.5]))
        return v
    if k == 1:
        return [draw(st.sampled_from([1.0, -1.0])) for _ in range(3)]
    if k == 2:
        # in (or within 1e-k of) a coordinate plane: drives the divisor branches of rotation_from_matrix
        v = [draw(_f(-1, 1)), draw(_f(-1, 1)), draw(st.sampled_from([0.0, 1e-9, -3e-8, 1e-6, 1e-4]))]
        if abs(v[0]) + abs(v[1]) < 1e-2:
            v[0] = 1.0
        if draw(st.booleans()):
            v[1] = draw(st.sampled_from([0.0, 2e-9, -1e-7]))
            v[0] = 1.0
        perm = draw(st.permutations([0, 1, 2]))
        return [v[i] for i in perm]
    v = [draw(_f(-1, 1)) for _ in range(3)]
    if math.sqrt(sum(x * x for x in v)) < 1e-2:
        v[draw(st.integers(0, 2))] = 1.0
    s = draw(st.sampled_from([1.0, 1.0, 1e-3, 50.0]))
    return [x * s for x in v]


@st.composite
def point3(draw):
    k = draw(st.integers(0, 2))
    if k == 0:
        return [draw(st.sampled_from([0.0, 1.0, -1.0])) for _ in range(3)]
    s = draw(st.sampled_from([1.0, 100.0, 1e-6, 1e-3, 1e4, 1e6]))
    return [draw(_f(-1, 1)) * s for _ in range(3)]


# decades for scale factors (micrometres <-> metres <-> astronomical) and for lengths; exact powers of ten and
# anything in between. Scale factors 1e-9 .. 1e9, translations / points 1e-6 .. 1e6.
SCALE_DECADES = [-9, -7, -6, -5, -4, -3, -2, -1, 0, 0, 0, 1, 2, 3, 4, 5, 6, 7, 9]
LENGTH_DECADES = [-6, -4, -3, -1, 0, 0, 1, 2, 3, 4, 6]


@st.composite
def scale_magnitude(draw):
    return 10.0 ** draw(st.sampled_from(SCALE_DECADES)) * draw(st.sampled_from([1.0, 1.0, 0.5, 2.0, 3.3]))


@st.composite
def length(draw, n):
    m = 10.0 ** draw(st.sampled_from(LENGTH_DECADES))
    # a component is exactly zero or within three decades of the chosen length: no subnormal dust
    return [draw(st.one_of(st.just(0.0), st.just(m), _f(1e-3, 1).map(lambda x: x * m), _f(1e-3, 1).map(lambda x: -x * m))) for _ in range(n)]


@st.composite
def axis_angle_case(draw):
    return {"angle": draw(angle()), "axis": draw(axis_vec()), "point": draw(st.one_of(st.none(), point3()))}


QGRID = [list(q) for q in itertools.product([0.0, 1.0, -1.0, 1.001, -1.001], repeat=4) if any(q)]


@st.composite
def unit_quat(draw):
    k = draw(st.integers(0, 4))
    if k == 0:
        q = draw(st.sampled_from(QGRID))
    elif k == 1:
        q = ref.axis_angle_quat(draw(axis_vec()), draw(angle())).tolist()
    elif k == 2:
        # w on either side of 1/2 (trace = 1: switch between the trace branch and the diagonal branches)
        w = 0.5 + draw(st.sampled_from([0.0, 1e-12, -1e-12, 1e-6, -1e-6, 1e-3, -1e-3]))
        v = ref.unit(draw(axis_vec())) * math.sqrt(1 - w * w)
        q = [w * draw(st.sampled_from([1.0, -1.0]))] + v.tolist()
    else:
        q = [draw(_f(-1, 1)) for _ in range(4)]
        if math.sqrt(sum(x * x for x in q)) < 1e-2:
            q[draw(st.integers(0, 3))] = 1.0
    return ref.unit(q).tolist()


@st.composite
def quat_pair_case(draw):
    q = draw(unit_quat())
    k = draw(st.integers(0, 4))
    if k == 0:
        p = ref.hamilton(ref.axis_angle_quat(draw(axis_vec()), draw(st.sampled_from(TINY + [3e-8, 1e-7, 2e-6]))), q).tolist()
    elif k == 1:
        p = q
    else:
        p = draw(unit_quat())
    if draw(st.booleans()):
        p = [-x for x in p]
    t = draw(st.one_of(st.sampled_from([0.0, 1.0, 0.5, 0.25, 1e-6]), _f(0.0, 1.0)))
    return {"q": q, "p": ref.unit(p).tolist(), "t": t, "shortest": draw(st.booleans()), "s": draw(st.sampled_from([1.0, 0.5, 3.0, 1e-3, 40.0]))}


@st.composite
def trs_case(draw):
    mag = st.one_of(st.sampled_from([1.0, 0.1, 10.0, 2.0]), _f(-1, 1).map(lambda e: 10.0**e))
    sc = [draw(mag) for _ in range(3)]
    pat = draw(st.sampled_from(["+++", "+++", "---", "+-+", "--+", "-++"]))
    g = draw(scale_magnitude())  # overall size; the per-axis ratio stays within [0.1, 10] so cond(L) stays bounded
    sc = [g * (m if ch == "+" else -m) for m, ch in zip(sc, pat)]
    sh = [draw(st.one_of(st.just(0.0), _f(-2, 2))) for _ in range(3)] if draw(st.integers(0, 3)) else [0.0, 0.0, 0.0]
    if draw(st.integers(0, 2)):
        # canonical ranges
        wrap = lambda a: a if -PI < a <= PI else a - 2 * PI * math.ceil((a - PI) / (2 * PI))  # noqa
        ai, ak = wrap(draw(angle())), wrap(draw(angle()))
        aj = draw(st.one_of(_f(-PI / 2, PI / 2), st.sampled_from([0.0, PI / 4, -PI / 4, PI / 2, -PI / 2, PI / 2 - 1e-6, -PI / 2 + 1e-10, PI / 2 - 1e-12, 1e-8, 1.5])))
    else:
        ai, aj, ak = draw(angle()), draw(angle()), draw(angle())
    tr = draw(length(3))
    return {"scale": sc, "shear": sh, "angles": [ai, aj, ak], "translate": tr}


@st.composite
def near_identity2d(draw):
    e = draw(_f(-10.0, -4.0))
    P = np.array([[draw(_f(-1, 1)) for _ in range(3)] for _ in range(2)])
    P = P / max(np.abs(P).max(), 1e-3)
    M = np.eye(3)
    M[:2, :] += 10.0**e * P
    return {"cls": "near_identity", "M": M.tolist()}


@st.composite
def points_case(draw):
    dim = draw(st.sampled_from([2, 3]))
    if dim == 3:
        m = draw(gm.matrix())
    else:
        m = draw(st.one_of(gm.matrix2d(), near_identity2d()))
    n = draw(st.integers(0, 6))
    s = draw(st.sampled_from([1.0, 1.0, 1000.0, 1e6]))
    coord = st.one_of(st.sampled_from([0.0, 1.0, -1.0]), _f(-1, 1).map(lambda x: x * s))
    P = [[draw(coord) for _ in range(dim)] for _ in range(n)]
    M, cls = np.array(m["M"]), m["cls"]
    if draw(st.integers(0, 3)) == 0:
        # the same transform in other units: linear block and translation rescaled independently
        M[:dim, :dim] *= draw(scale_magnitude())
        M[:dim, dim] *= 10.0 ** draw(st.sampled_from(LENGTH_DECADES))
        cls += "_rescaled"
    return {"dim": dim, "cls": cls, "M": M.tolist(), "P": P, "translate": draw(st.booleans())}


@st.composite
def planar_case(draw):
    off = draw(st.one_of(st.none(), length(2)))
    th = draw(st.one_of(st.none(), angle()))
    pt = draw(st.one_of(st.none(), length(2)))
    g = draw(scale_magnitude())
    sc = draw(st.one_of(st.none(), st.none(), _f(0.1, 10).map(lambda x: x * g), st.lists(_f(0.1, 10).map(lambda x: x * g), min_size=2, max_size=2)))
    return {"offset": off, "theta": th, "point": pt, "scale": sc}


@st.composite
def around_case(draw):
    dim = draw(st.sampled_from([2, 3]))
    m = draw(gm.matrix(classes=["rotation", "rigid", "similarity", "general_affine", "identity"])) if dim == 3 else draw(gm.matrix2d())
    p = draw(length(dim))
    M, cls = np.array(m["M"]), m["cls"]
    if draw(st.integers(0, 2)) == 0:
        M[:dim, :dim] *= draw(scale_magnitude())
        M[:dim, dim] *= 10.0 ** draw(st.sampled_from(LENGTH_DECADES))
        cls += "_rescaled"
    return {"dim": dim, "cls": cls, "M": M.tolist(), "p": p}


@st.composite
def scale_matrix_case(draw):
    f = draw(st.one_of(st.sampled_from([-1.0, 1.0, 2.0, 0.5, -3.0]), scale_magnitude(), scale_magnitude().map(lambda x: -x)))
    origin = draw(st.one_of(st.none(), length(3)))
    direction = draw(st.one_of(st.none(), axis_vec()))
    return {"factor": f, "origin": origin, "direction": direction}


@st.composite
def scale_translate_case(draw):
    g = draw(scale_magnitude())
    sc = draw(st.one_of(st.none(), st.just(g), st.lists(_f(0.1, 10).map(lambda x: x * g), min_size=3, max_size=3), st.lists(st.sampled_from([g, -g, 1.0]), min_size=3, max_size=3)))
    tr = draw(st.one_of(st.none(), length(3), _f(-1, 1).map(lambda x: x * 1e6)))
    return {"scale": sc, "translate": tr}


DIRS = {
    "axis": [[1, 0, 0], [0, 1, 0], [0, 0, 1], [0, 0, -1]],
    "face_diagonal": [[1, 1, 0], [1, 0, -1], [0, 1, 1], [-1, 1, 0]],
    "body_diagonal": [[1, 1, 1], [-1, -1, -1], [1, -1, 1], [1, 1, -1]],
}


@st.composite
def rigid_case(draw):
    k = draw(st.integers(0, 4))
    if k == 0:
        m = draw(gm.matrix(classes=gm.RIGID_CLASSES))
        return {"kind": "rigid", "M": m["M"]}
    if k == 1:
        m = draw(gm.matrix(classes=["similarity", "anisotropic", "shear", "general_affine", "neg_uniform"]))
        L = np.array(m["M"])[:3, :3]
        if np.abs(L @ L.T - np.eye(3)).max() < 1e-6:
            return {"kind": "rigid", "M": np.eye(4).tolist()}
        return {"kind": "nonrigid", "cls": m["cls"], "M": m["M"]}
    if k == 2:
        M = np.array(draw(gm.matrix(classes=gm.RIGID_CLASSES))["M"])
        row = draw(st.sampled_from([[0, 0, 1e-3, 1], [0.5, 0, 0, 1], [0, 0, 0, 2.0], [1, 1, 1, 2.0], [0.1, 0.1, 0.1, 1.1], [0, 0, 0, 0.5]]))
        M[3] = row
        return {"kind": "lastrow", "M": M.tolist()}
    # stretch by s along d, before or after a rotation
    dk = draw(st.sampled_from(["axis", "face_diagonal", "body_diagonal", "random"]))
    d = ref.unit(draw(st.sampled_from(DIRS[dk])) if dk != "random" else draw(gm.unit_vec()))
    s = draw(st.one_of(st.sampled_from([2.0, 0.5, 1.01, 0.99, 1.0001, -1.5]), _f(0.2, 0.95), _f(1.05, 5.0)))
    S = np.eye(3) + (s - 1.0) * np.outer(d, d)
    R = np.array(draw(gm.matrix(classes=["identity", "rotation"]))["M"])[:3, :3]
    L = S @ R if draw(st.booleans()) else R @ S
    return {"kind": "stretch", "dir": dk, "M": ref.hom(L, [draw(_f(-10, 10)) for _ in range(3)]).tolist()}


@st.composite
def fix_rigid_case(draw):
    dim = draw(st.sampled_from([3, 3, 2]))
    if dim == 3:
        M = np.array(draw(gm.matrix(classes=gm.RIGID_CLASSES))["M"])
    else:
        M = np.array(draw(gm.matrix2d(classes=("rigid", "translation", "identity")))["M"])
    e = draw(st.one_of(st.just(None), _f(-12.0, -3.0)))
    if e is not None:
        P = np.array([[draw(_f(-1, 1)) for _ in range(dim)] for _ in range(dim)])
        P = P / max(np.abs(P).max(), 1e-3)
        M[:dim, :dim] += 10.0**e * P
    return {"dim": dim, "M": M.tolist()}


@st.composite
def align_case(draw):
    k = draw(st.sampled_from(["generic", "axis", "parallel", "antiparallel", "tiny", "pi_minus_tiny", "scaled"]))
    a = ref.unit(draw(axis_vec()))
    if k in ("generic", "scaled"):
        b = ref.unit(draw(axis_vec()))
    elif k == "axis":
        a = A(draw(st.sampled_from(DIRS["axis"] + [[0, -1, 0], [-1, 0, 0]])))
        b = A(draw(st.sampled_from(DIRS["axis"] + [[0, -1, 0], [-1, 0, 0]])))
    elif k == "parallel":
        b = a.copy()
    elif k == "antiparallel":
        b = -a
    else:
        # rotate a by a tiny angle (or pi - tiny) about a perpendicular axis
        perp = ref.unit(np.cross(a, [1.0, 0.0, 0.0] if abs(a[0]) < 0.9 else [0.0, 1.0, 0.0]))
        t = abs(draw(st.sampled_from(TINY + [1e-5, 1e-7, 1e-14, 1e-16])))
        b = ref.rodrigues(perp, t if k == "tiny" else PI - t) @ a
    if k == "scaled":
        a = a * draw(st.sampled_from([1e-3, 2.0, 1e3]))
        b = b * draw(st.sampled_from([1e-3, 0.5, 1e3]))
    return {"kind": k, "a": a.tolist(), "b": b.tolist()}


@st.composite
def plane_case(draw):
    k = draw(st.sampled_from(["generic", "plus_z", "minus_z", "near_minus_z", "axis", "scaled"]))
    if k == "plus_z":
        n = [0.0, 0.0, 1.0]
    elif k == "minus_z":
        n = [0.0, 0.0, -1.0]
    elif k == "near_minus_z":
        n = [draw(st.sampled_from([1e-4, -1e-8, 1e-12, 1e-17])), draw(st.sampled_from([0.0, 1e-4, -1e-17])), -1.0]
    elif k == "axis":
        n = draw(st.sampled_from([[1, 0, 0], [0, 1, 0], [-1, 0, 0], [0, -1, 0]]))
    else:
        n = ref.unit(draw(axis_vec())).tolist()
        if k == "scaled":
            n = [x * draw(st.sampled_from([1e-3, 7.0, 1e3])) for x in n]
    return {"kind": k, "origin": draw(point3()), "normal": [float(x) for x in n]}


@st.composite
def kwargs_case(draw):
    k = draw(st.integers(0, 3))
    out = {"M": None, "q": None, "translation": None, "axis": None, "angle": None}
    if k == 0:
        out["M"] = draw(gm.matrix())["M"]
        if draw(st.booleans()):
            out["q"] = draw(unit_quat())
    elif k == 1:
        out["q"] = draw(unit_quat())
        if draw(st.booleans()):
            out["axis"], out["angle"] = [0.0, 0.0, 1.0], 1.0  # quaternion takes precedence
    elif k == 2:
        out["axis"], out["angle"] = draw(axis_vec()), draw(angle())
    if draw(st.booleans()):
        out["translation"] = draw(point3())
    return out


# ------------------------------------------------------------------------------------------ argument forms
#
# The same VALUES handed over in another form - integer dtypes, nested python lists / tuples, float32, read-only,
# Fortran-ordered or strided arrays, integer scalars - must give the float64 answer. Only exactly representable values
# take the narrowing forms (signed permutation matrices, integer translations / points / scales / quaternions).


def _is_int(v):
    a = np.asarray(v, dtype=np.float64)
    return bool(np.all(a == np.round(a)) and np.all(np.abs(a) < 2**31))


def _is_f32(v):
    a = np.asarray(v, dtype=np.float64)
    return bool(np.all(a.astype(np.float32).astype(np.float64) == a))


ARRAY_FORMS = ["float64", "list", "tuple", "readonly", "fortran", "strided", "float32", "int64", "int32", "list_int"]
SCALAR_FORMS = ["float", "pyint", "npint64", "npfloat32", "npfloat64"]


def admissible(value, form):
    if value is None:
        return form in ("float64", "float")
    if np.ndim(value) == 0:
        if form not in SCALAR_FORMS:
            return False
        return _is_int(value) if form in ("pyint", "npint64") else _is_f32(value) if form == "npfloat32" else True
    if form not in ARRAY_FORMS:
        return False
    return _is_int(value) if form in ("int64", "int32", "list_int") else _is_f32(value) if form == "float32" else True


def _nest(a, conv):
    return [_nest(x, conv) for x in a] if isinstance(a, list) else conv(a)


def as_form(value, form, ndarray_only=False):
    if value is None:
        return None
    if np.ndim(value) == 0:
        v = float(value)
        return {"float": v, "pyint": int(v) if form == "pyint" else v, "npint64": np.int64(v) if form == "npint64" else v, "npfloat32": np.float32(v), "npfloat64": np.float64(v)}[form]
    a = np.array(value, dtype=np.float64)
    if form == "float64":
        return a
    if form == "list":
        return a.tolist()
    if form == "tuple":
        return _nest(a.tolist(), float) if a.ndim != 1 else tuple(a.tolist())
    if form == "list_int":
        return _nest(a.tolist(), int)
    if form == "readonly":
        a.flags.writeable = False
        return a
    if form == "fortran":
        return np.asfortranarray(a)
    if form == "strided":
        big = np.full(tuple(2 * n for n in a.shape), 7.5)
        big[tuple(slice(None, None, 2) for _ in a.shape)] = a
        return big[tuple(slice(None, None, 2) for _ in a.shape)]
    if form == "float32":
        return a.astype(np.float32)
    return a.astype(form)


def _rt_rot(out):
    ang, d, pt = out
    return [tf.rotation_matrix(float(ang), A(d), A(pt)[:3])]


def _rt_scale(out):
    f, o, d = out
    return [tf.scale_matrix(float(f), A(o)[:3], None if d is None else A(d))]


def _rt_trs(out):
    return [tf.compose_matrix(*[A(x) for x in out])]


# name -> (argument names, call(args dict), canonical form of the result: list of float arrays, list-like forms allowed)
FORM_FUNCS = {
    "transform_around": (["matrix", "point"], lambda a: tf.transform_around(a["matrix"], a["point"]), None, True),
    "transform_points": (["points", "matrix"], lambda a: tf.transform_points(a["points"], a["matrix"]), None, True),
    "transform_points_notranslate": (["points", "matrix"], lambda a: tf.transform_points(a["points"], a["matrix"], translate=False), None, True),
    "rotation_matrix": (["angle", "direction", "point"], lambda a: tf.rotation_matrix(a["angle"], a["direction"], a["point"]), None, True),
    "rotation_from_matrix": (["matrix"], lambda a: tf.rotation_from_matrix(a["matrix"]), _rt_rot, True),
    "quaternion_matrix": (["q"], lambda a: tf.quaternion_matrix(a["q"]), None, True),
    "quaternion_from_matrix": (["matrix"], lambda a: tf.quaternion_from_matrix(a["matrix"], isprecise=False), lambda q: [ref.quat_to_mat(q)], True),
    "quaternion_from_matrix_precise": (["matrix"], lambda a: tf.quaternion_from_matrix(a["matrix"], isprecise=True), lambda q: [ref.quat_to_mat(q)], True),
    "quaternion_multiply": (["q", "p"], lambda a: tf.quaternion_multiply(a["q"], a["p"]), None, True),
    "quaternion_conjugate": (["q"], lambda a: tf.quaternion_conjugate(a["q"]), None, True),
    "quaternion_inverse": (["q"], lambda a: tf.quaternion_inverse(a["q"]), None, True),
    "quaternion_slerp": (["q", "p"], lambda a: tf.quaternion_slerp(a["q"], a["p"], 0.25), None, True),
    "quaternion_about_axis": (["angle", "direction"], lambda a: tf.quaternion_about_axis(a["angle"], a["direction"]), None, True),
    "euler_matrix": (["ai", "aj", "ak"], lambda a: tf.euler_matrix(a["ai"], a["aj"], a["ak"], "rzxy"), None, True),
    "quaternion_from_euler": (["ai", "aj", "ak"], lambda a: tf.quaternion_from_euler(a["ai"], a["aj"], a["ak"], "syxz"), None, True),
    "euler_from_matrix": (["matrix"], lambda a: tf.euler_from_matrix(a["matrix"], "sxyz"), lambda e: [ref.euler_ref(float(e[0]), float(e[1]), float(e[2]), "sxyz")], True),
    "euler_from_quaternion": (["q"], lambda a: tf.euler_from_quaternion(a["q"], "rzyz"), lambda e: [ref.euler_ref(float(e[0]), float(e[1]), float(e[2]), "rzyz")], True),
    "compose_matrix": (["scale", "shear", "angles", "translate"], lambda a: tf.compose_matrix(a["scale"], a["shear"], a["angles"], a["translate"]), None, True),
    "decompose_matrix": (["matrix"], lambda a: tf.decompose_matrix(a["matrix"]), _rt_trs, True),
    "scale_matrix": (["factor", "origin", "direction"], lambda a: tf.scale_matrix(a["factor"], a["origin"], a["direction"]), None, True),
    "scale_from_matrix": (["matrix"], lambda a: tf.scale_from_matrix(a["matrix"]), _rt_scale, True),
    "planar_matrix": (["offset", "theta", "point2", "scale2"], lambda a: tf.planar_matrix(a["offset"], a["theta"], a["point2"], a["scale2"]), None, True),
    "planar_matrix_to_3D": (["matrix2"], lambda a: tf.planar_matrix_to_3D(a["matrix2"]), None, True),
    "scale_and_translate": (["scale", "translate"], lambda a: tf.scale_and_translate(a["scale"], a["translate"]), None, True),
    "is_rigid": (["matrix"], lambda a: np.array([float(bool(tf.is_rigid(a["matrix"])))]), None, True),
    "fix_rigid": (["matrix"], lambda a: tf.fix_rigid(a["matrix"]), None, False),
    "align_vectors": (["direction", "normal"], lambda a: geometry.align_vectors(a["direction"], a["normal"]), None, True),
    "plane_transform": (["point", "normal"], lambda a: geometry.plane_transform(a["point"], a["normal"]), None, True),
    "kwargs_matrix": (["matrix"], lambda a: kwargs_to_matrix(matrix=a["matrix"]), None, True),
    "kwargs_quaternion": (["q", "translate"], lambda a: kwargs_to_matrix(quaternion=a["q"], translation=a["translate"]), None, True),
    "kwargs_axis_angle": (["direction", "angle", "translate"], lambda a: kwargs_to_matrix(axis=a["direction"], angle=a["angle"], translation=a["translate"]), None, True),
}


ANGLE_ARGS = ("angle", "ai", "aj", "ak", "theta", "angles")


def _flat(out, canon):
    if canon is not None:
        out = canon(out)
    if isinstance(out, np.ndarray) or not isinstance(out, (list, tuple)):
        out = [out]
    return [np.asarray(o, dtype=np.float64) for o in out if o is not None]


@body("C19.forms")
def b_forms(case, ctx):
    name = case["fn"]
    names, call, canon, lists_ok = FORM_FUNCS[name]
    vals, forms = case["args"], case["forms"]
    for k in names:
        harness(admissible(vals[k], forms[k]) and (lists_ok or forms[k] not in ("list", "tuple", "list_int")), f"form {forms[k]} not admissible for {name}.{k}={vals[k]}")
    base = {k: as_form(vals[k], "float64" if np.ndim(vals[k]) else "float") for k in names}
    want = _flat(call(base), canon)
    args = {k: as_form(vals[k], forms[k]) for k in names}
    changed = sorted({forms[k] for k in names if vals[k] is not None and forms[k] not in ("float64", "float")})
    ctx.note(nontrivial=bool(changed), cls=[f"forms:{name}"] + [f"forms:{f}" for f in changed])
    sig = f"C19.forms|{name}|" + "+".join(changed or ["float64"])
    watched = [(k, a, a.copy()) for k, a in args.items() if isinstance(a, np.ndarray)]
    raw = call(args)
    for k, a, c in watched:
        check(np.array_equal(a, c), sig + "|mutates_input", lambda: f"argument {k} changed from {c.tolist()} to {a.tolist()}")
    # a conversion returns floating point whatever came in (fix_rigid documents returning its argument untouched)
    if name != "fix_rigid":
        for o in raw if isinstance(raw, tuple) else (raw,):
            if isinstance(o, np.ndarray):
                check(o.dtype == np.float64, sig + "|result_dtype", lambda: f"{name}({ {k: forms[k] for k in names} }) returned dtype {o.dtype}")
    got = _flat(raw, canon)
    check(len(got) == len(want) and all(g.shape == w.shape for g, w in zip(got, want)), sig + "|shape", lambda: f"{[g.shape for g in got]} vs {[w.shape for w in want]}")
    tol = T14 if canon is None else T13
    if any(forms[k] in ("float32", "npfloat32") for k in names if k in ANGLE_ARGS and vals[k] is not None):
        # sin / cos of a float32 angle are evaluated in float32 (numpy semantics): float32 accuracy is all there is
        tol = 16 * float(np.finfo(np.float32).eps)
    for g, w in zip(got, want):
        e = maxabs(g - w)
        check(e <= tol * max(1.0, maxabs(w)), sig, lambda: f"{name} with {({k: forms[k] for k in names})} of {vals}: {g.tolist()} differs from the float64 answer {w.tolist()} by {e:.3g}")


def _signed_perms():
    out = []
    for perm in itertools.permutations(range(3)):
        for sg in itertools.product([1.0, -1.0], repeat=3):
            R = np.zeros((3, 3))
            for r, c in enumerate(perm):
                R[r, c] = sg[r]
            if np.linalg.det(R) > 0:
                out.append(R)
    return out


ROT24 = _signed_perms()
QUARTER2 = [np.array(m, dtype=np.float64) for m in ([[1, 0], [0, 1]], [[0, -1], [1, 0]], [[-1, 0], [0, -1]], [[0, 1], [-1, 0]])]
AXIS_TURNS = [(ax, k) for ax in range(3) for k in (1, 2, 3)]


def _form_values(rs):
    """one consistent set of exactly representable values (rs: RandomState), as plain lists"""
    R = ROT24[rs.randint(len(ROT24))]
    t = rs.randint(-4, 5, 3).astype(float) * (1000.0 if rs.randint(4) == 0 else 1.0)
    ax, k = AXIS_TURNS[rs.randint(len(AXIS_TURNS))]
    d = np.zeros(3)
    d[ax] = 1.0
    Rax = np.round(ref.rodrigues(d, k * PI / 2))
    c = rs.randint(-3, 4, 3).astype(float)
    f = float(rs.choice([2, 3, -1, -2, 5]))
    o = rs.randint(-3, 4, 3).astype(float)
    frac = rs.randint(0, 2)
    pt = rs.randint(-8, 9, 3) / (4.0 if frac else 1.0) + (0.3 if frac and rs.randint(2) else 0.0)
    q = rs.randint(-2, 3, 4).astype(float)
    if not q.any():
        q[0] = 1.0
    p = rs.randint(-2, 3, 4).astype(float)
    if not p.any() or abs(float(np.dot(ref.unit(q), ref.unit(p)))) > 0.999:
        p = np.array([q[1], -q[0], q[3], -q[2]]) + np.array([0.0, 0.0, 0.0, 1.0])
    n = rs.randint(-3, 4, 3).astype(float)
    if not n.any():
        n[2] = -1.0
    dr = rs.randint(-3, 4, 3).astype(float)
    if not dr.any():
        dr[0] = 1.0
    sc = rs.choice([1, 2, 3, -2], 3).astype(float)
    R2 = QUARTER2[rs.randint(4)]
    kind = rs.randint(3)
    mats = {
        "transform_around": ref.hom(R, t), "transform_points": ref.hom(R * float(rs.choice([1, 2])), t), "transform_points_notranslate": ref.hom(R, t),
        "rotation_from_matrix": ref.hom(Rax, c - Rax @ c), "quaternion_from_matrix": ref.hom(R), "quaternion_from_matrix_precise": ref.hom(R),
        "euler_from_matrix": ref.hom(R), "decompose_matrix": ref.hom(R @ np.diag(np.abs(sc)), t),
        "scale_from_matrix": ref.hom(f * np.eye(3), (1 - f) * o) if kind else ref.hom(np.eye(3) + (f - 1) * np.outer(d, d), (1 - f) * float(o @ d) * d),
        "is_rigid": ref.hom(R if kind else R * 2.0, t), "fix_rigid": ref.hom(R, t), "kwargs_matrix": ref.hom(R * (1.0 if kind else 3.0), t),
    }
    return {
        "matrices": {k: v.tolist() for k, v in mats.items()},
        "matrix2": ref.hom(R2 * float(rs.choice([1, 2])), rs.randint(-4, 5, 2).astype(float)).tolist(),
        "point": pt.tolist(), "points": (rs.randint(-6, 7, (rs.randint(1, 4), 3)) / (2.0 if frac else 1.0)).tolist(),
        "angle": float(rs.choice([1, 2, -3, 0])), "direction": dr.tolist(), "normal": n.tolist(), "q": q.tolist(), "p": p.tolist(),
        "ai": float(rs.randint(-3, 4)), "aj": float(rs.randint(-1, 2)), "ak": float(rs.randint(-3, 4)),
        "scale": sc.tolist(), "shear": rs.randint(-1, 2, 3).astype(float).tolist(), "angles": rs.randint(-3, 4, 3).astype(float).tolist(), "translate": t.tolist(),
        "factor": f, "origin": None if rs.randint(3) == 0 else o.tolist(), "offset": rs.randint(-5, 6, 2).astype(float).tolist(), "theta": float(rs.randint(-3, 4)),
        "point2": None if rs.randint(3) == 0 else (rs.randint(-8, 9, 2) / (4.0 if frac else 1.0)).tolist(), "scale2": None if rs.randint(2) else rs.choice([1, 2, 3], 2).astype(float).tolist(),
    }


def form_case(name, seed, mode):
    """mode: a form name (every admissible argument takes it) or 'arg<i>:<form>' (only that argument does)"""
    rs = np.random.RandomState(seed)
    V = _form_values(rs)
    names, _call, _canon, lists_ok = FORM_FUNCS[name]
    if name in ("transform_around", "planar_matrix_to_3D") and seed % 2:
        # the 2-D flavour
        V["matrices"]["transform_around"] = V["matrix2"]
        V["point"] = V["point"][:2]
    vals = {}
    for k in names:
        if k == "matrix":
            vals[k] = V["matrices"][name]
        elif k == "direction" and name == "scale_matrix":
            vals[k] = None if seed % 3 == 0 else V["direction"]
        else:
            vals[k] = V[k]
    forms = {}
    for i, k in enumerate(names):
        v = vals[k]
        dflt = "float64" if (v is None or np.ndim(v)) else "float"
        if ":" in mode:
            which, f = mode.split(":")
            f = f if which == f"arg{i}" else dflt
        else:
            f = mode
        if np.ndim(v) == 0 and v is not None and f in ARRAY_FORMS:
            f = {"int64": "npint64", "int32": "npint64", "list_int": "pyint", "float32": "npfloat32"}.get(f, "float")
        if v is not None and np.ndim(v) and f in SCALAR_FORMS:
            f = "float64"
        if not admissible(v, f) or (not lists_ok and f in ("list", "tuple", "list_int")):
            f = dflt
        forms[k] = f
    return {"fn": name, "args": vals, "forms": forms}


def _forms_enum(seeds):
    for name in FORM_FUNCS:
        nargs = len(FORM_FUNCS[name][0])
        for seed in seeds:
            for f in ARRAY_FORMS[1:]:
                yield form_case(name, seed, f)
                if nargs > 1:
                    for i in range(nargs):
                        yield form_case(name, seed, f"arg{i}:{f}")


# ------------------------------------------------------------------------------------------ sub-checks


@subcheck("C19", "euler_grid", shards={"quick": 8, "thorough": 16})
def s_euler_grid(ctx):
    if ctx.tier == "quick":
        ctx.enumerate("C19.euler", euler_grid(SPECIAL_QUICK), label="24_conventions_x_17_special_angles^3")
    else:
        ctx.enumerate("C19.euler", euler_grid(SPECIAL_FULL), label="24_conventions_x_31_special_angles^3")


@subcheck("C19", "euler_quat_grid", shards={"quick": 8, "thorough": 16})
def s_euler_quat_grid(ctx):
    if ctx.tier == "quick":
        ctx.enumerate("C19.euler_quat", euler_grid(SPECIAL_QUICK), label="quat_24_conventions_x_17_special_angles^3")
    else:
        ctx.enumerate("C19.euler_quat", euler_grid(SPECIAL_FULL), label="quat_24_conventions_x_31_special_angles^3")


@st.composite
def euler_case(draw):
    return {"axes": draw(st.sampled_from(ref.AXES24)), "a": [draw(angle(-4 * PI, 4 * PI)) for _ in range(3)]}


@subcheck("C19", "euler_hyp", shards={"quick": 3, "thorough": 8})
def s_euler_hyp(ctx):
    ctx.given("C19.euler", euler_case(), n={"quick": 2400, "thorough": 100000})


@subcheck("C19", "euler_quat_hyp", shards={"quick": 3, "thorough": 8})
def s_euler_quat_hyp(ctx):
    ctx.given("C19.euler_quat", euler_case(), n={"quick": 2400, "thorough": 100000})


def _axis_angle_edge():
    axes = [[1, 0, 0], [0, 1, 0], [0, 0, 1], [0, 0, -1], [1, 1, 0], [0, 1, 1], [1, 0, 1], [1, 1, 1], [1, 2, 3], [1, 2, 1e-7], [1, 3e-8, 0], [1, 1e-9, 1e-9], [2e-8, 1, 0]]
    for ax in axes:
        for t in SPECIAL_FULL:
            for pt in (None, [1.0, -2.0, 0.5]):
                yield {"angle": t, "axis": [float(x) for x in ax], "point": pt}


@subcheck("C19", "axis_angle", shards={"quick": 3, "thorough": 8})
def s_axis_angle(ctx):
    ctx.enumerate("C19.axis_angle", _axis_angle_edge(), label="13_axes_x_31_special_angles_x_point")
    ctx.given("C19.axis_angle", axis_angle_case(), n={"quick": 3000, "thorough": 80000})


@subcheck("C19", "quat_matrix", shards={"quick": 3, "thorough": 8})
def s_quat_matrix(ctx):
    ctx.enumerate("C19.quat_matrix", ({"q": ref.unit(q).tolist()} for q in QGRID), label="quaternion_grid_{0,+-1,+-1.001}^4")
    ctx.given("C19.quat_matrix", unit_quat().map(lambda q: {"q": q}), n={"quick": 2100, "thorough": 80000})


@subcheck("C19", "quat_algebra", shards={"quick": 3, "thorough": 8})
def s_quat_algebra(ctx):
    ctx.given("C19.quat_algebra", quat_pair_case(), n={"quick": 2100, "thorough": 60000})


def _slerp_edge():
    base = [[1, 0, 0, 0], [0, 1, 0, 0], [0.5, 0.5, 0.5, 0.5], [0.6, 0, 0.8, 0], [-0.5, 0.5, -0.5, 0.5], [0, 0, 0.6, -0.8]]
    for q in base:
        for p in base:
            for sg in (1.0, -1.0):
                for t in (0.0, 0.25, 0.5, 1.0):
                    for sh in (True, False):
                        yield {"q": [float(x) for x in q], "p": [sg * float(x) for x in p], "t": t, "shortest": sh, "s": 1.0}


@subcheck("C19", "slerp", shards={"quick": 3, "thorough": 8})
def s_slerp(ctx):
    ctx.enumerate("C19.slerp", _slerp_edge(), label="slerp_6x6_quaternions_x_sign_x_4_fractions_x_shortestpath")
    ctx.given("C19.slerp", quat_pair_case(), n={"quick": 3000, "thorough": 80000})


def _trs_edge():
    for aj in (PI / 2, -PI / 2, PI / 2 - 1e-6, 0.0, 1.0):
        for sc in ([1.0, 1.0, 1.0], [0.7, 1.3, 2.1], [-0.7, -1.3, -2.1], [2.0, 2.0, 2.0]):
            for sh in ([0.0, 0.0, 0.0], [0.3, -0.4, 0.5]):
                for ai, ak in ((0.0, 0.0), (0.3, 0.5), (-2.0, 3.0), (PI, -PI / 2)):
                    yield {"scale": sc, "shear": sh, "angles": [ai, aj, ak], "translate": [1.0, 2.0, 3.0]}
    # every decade of overall size, uniform and per-axis, both signs, with the translation in other units
    for k in range(-9, 10):
        g = 10.0**k
        for sc in ([g, g, g], [0.5 * g, g, 2.0 * g], [-g, -g, -g], [g, -2.0 * g, 0.7 * g]):
            for sh in ([0.0, 0.0, 0.0], [0.3, -0.4, 0.5]):
                for tr in ([0.0, 0.0, 0.0], [1e-6, -2e-6, 3e-6], [1e6, 2.0, -3e-3]):
                    yield {"scale": sc, "shear": sh, "angles": [0.3, -0.7, 2.5], "translate": tr}


@subcheck("C19", "trs", shards={"quick": 3, "thorough": 8})
def s_trs(ctx):
    ctx.enumerate("C19.trs", _trs_edge(), label="trs_gimbal_x_scale_x_shear_edge_grid_and_19_decades_of_scale")
    ctx.given("C19.trs", trs_case(), n={"quick": 3000, "thorough": 80000})


def _points_edge():
    for dim in (2, 3):
        I = np.eye(dim + 1)
        for delta in (0.0, 5e-9, 2e-8, 1e-6):
            for where in ("rot", "trans"):
                M = I.copy()
                if where == "rot":
                    M[0, 1] += delta
                else:
                    M[0, dim] += delta
                for tr in (True, False):
                    for P in ([], [[1e6] * dim], [[0.0] * dim, [1.0] * dim, [-3.0, 2.5, 7.0][:dim]]):
                        yield {"dim": dim, "cls": "edge_identity", "M": M.tolist(), "P": P, "translate": tr}


@subcheck("C19", "points", shards={"quick": 3, "thorough": 8})
def s_points(ctx):
    ctx.enumerate("C19.points", _points_edge(), label="identity_shortcut_edge_grid")
    ctx.given("C19.points", points_case(), n={"quick": 3600, "thorough": 100000})


def _scale_translate_cases():
    scales = [2.0, 1.0, 0.5, [1.0, 1.0, 1.0], [2.0, 3.0, 4.0], [1.0, 1.0, -1.0], None]
    trans = [None, [1.0, -2.0, 3.0], [0.0, 0.0, 0.0], 5.0]
    for s in scales:
        for t in trans:
            yield {"scale": s, "translate": t}
    for k in (-9, -6, -3, 3, 6, 9):
        g = 10.0**k
        for s in (g, [g, g, g], [g, 2 * g, -g]):
            for t in (None, [1e-6, 0.0, 1e6]):
                yield {"scale": s, "translate": t}


def _scale_matrix_edge():
    for k in range(-9, 10):
        for sg in (1.0, -1.0):
            f = sg * 10.0**k
            for o in (None, [1.0, -2.0, 0.5], [1e6, 2e-6, -3.0]):
                for d in (None, [0.0, 0.0, 1.0], [1.0, 2.0, 3.0], [1.0, 1.0, 0.0]):
                    yield {"factor": f, "origin": o, "direction": d}


@subcheck("C19", "planar", shards={"quick": 2, "thorough": 4})
def s_planar(ctx):
    ctx.given("C19.planar", planar_case(), n={"quick": 2000, "thorough": 50000})
    ctx.given("C19.around", around_case(), n={"quick": 1500, "thorough": 40000})
    ctx.given("C19.kwargs", kwargs_case(), n={"quick": 1000, "thorough": 30000})


@subcheck("C19", "scale_translate", shards={"quick": 1, "thorough": 1})
def s_scale_translate(ctx):
    ctx.enumerate("C19.scale_translate", _scale_translate_cases(), label="scale_and_translate_argument_forms")
    ctx.given("C19.scale_translate", scale_translate_case(), n={"quick": 600, "thorough": 20000})


@subcheck("C19", "scale_matrix", shards={"quick": 2, "thorough": 4})
def s_scale_matrix(ctx):
    ctx.enumerate("C19.scale_matrix", _scale_matrix_edge(), label="scale_matrix_19_decades_x_sign_x_origin_x_direction")
    ctx.given("C19.scale_matrix", scale_matrix_case(), n={"quick": 2000, "thorough": 60000})


@subcheck("C19", "rigid", shards={"quick": 2, "thorough": 4})
def s_rigid(ctx):
    ctx.given("C19.rigid", rigid_case(), n={"quick": 2500, "thorough": 60000})


@subcheck("C19", "fix_rigid", shards={"quick": 2, "thorough": 4})
def s_fix_rigid(ctx):
    ctx.given("C19.fix_rigid", fix_rigid_case(), n={"quick": 2000, "thorough": 50000})


def _align_edge():
    ax = [[1, 0, 0], [0, 1, 0], [0, 0, 1], [-1, 0, 0], [0, -1, 0], [0, 0, -1], [1, 1, 1], [-1, -1, -1], [0.6, 0.8, 0], [-0.6, 0, 0.8]]
    for a in ax:
        for b in ax:
            ua, ub = ref.unit(a), ref.unit(b)
            d = float(np.dot(ua, ub))
            kind = "parallel" if d > 1 - 1e-12 else "antiparallel" if d < -1 + 1e-12 else "generic"
            yield {"kind": kind, "a": ua.tolist(), "b": ub.tolist()}
    for t in (1e-3, 1e-6, 1e-9, 1e-12, 1e-16):
        yield {"kind": "tiny", "a": [1.0, 0.0, 0.0], "b": [math.cos(t), math.sin(t), 0.0]}
        yield {"kind": "pi_minus_tiny", "a": [0.0, 0.0, 1.0], "b": [math.sin(t), 0.0, -math.cos(t)]}


@subcheck("C19", "align", shards={"quick": 2, "thorough": 4})
def s_align(ctx):
    ctx.enumerate("C19.align", _align_edge(), label="align_vectors_10x10_directions_and_tiny_angles")
    ctx.given("C19.align", align_case(), n={"quick": 2500, "thorough": 60000})


@subcheck("C19", "plane", shards={"quick": 2, "thorough": 4})
def s_plane(ctx):
    ctx.given("C19.plane", plane_case(), n={"quick": 2000, "thorough": 50000})



@subcheck("C19", "forms", shards={"quick": 3, "thorough": 8})
def s_forms(ctx):
    seeds = range(1, 7) if ctx.tier == "quick" else range(1, 61)
    ctx.enumerate("C19.forms", _forms_enum(seeds), label="31_functions_x_argument_forms_x_value_sets")
    ctx.given("C19.forms", st.builds(form_case, st.sampled_from(sorted(FORM_FUNCS)), st.integers(100, 10**6), st.one_of(st.sampled_from(ARRAY_FORMS[1:]), st.builds(lambda i, f: f"arg{i}:{f}", st.integers(0, 3), st.sampled_from(ARRAY_FORMS[1:])))), n={"quick": 1500, "thorough": 60000})


REQUIRED_CLASSES["C19"] = [
    "euler:static:norep:gimbal", "euler:static:rep:gimbal", "euler:rotating:norep:gimbal", "euler:rotating:rep:gimbal",
    "euler:static:norep:near_gimbal", "euler:rotating:rep:near_gimbal", "euler:static:norep:regular", "euler:rotating:norep:regular",
    "euler_quat:static:norep:near_gimbal", "euler_quat:rotating:rep:near_gimbal",
    "quat:branch=w", "quat:branch=x", "quat:branch=y", "quat:branch=z", "quat:tie", "quat:w<0", "quat:w=0",
    "axis_angle:zero", "axis_angle:tiny", "axis_angle:pi", "axis_angle:axis_in_plane", "axis_angle:point",
    "slerp:flip", "slerp:long", "slerp:direct", "slerp:t=mid", "slerp:identical", "slerp:tiny",
    "trs:gimbal", "trs:near_gimbal", "trs:canonical", "trs:mixed_sign", "trs:shear",
    "trs:scale<=1e-6", "trs:scale<=1e-3", "trs:scale>=1e6", "trs:translate<=1e-6", "trs:translate>=1e6",
    "scale_matrix:uniform:factor<=1e-6", "scale_matrix:directional:factor<=1e-6", "scale_matrix:uniform:factor>=1e6",
    "scale_matrix:directional:factor>=1e6", "scale_matrix:directional:factor<0>=1e6", "scale_matrix:origin>=1e6",
    "scale_translate:scale<=1e-6", "scale_translate:scale>=1e6", "around:linear<=1e-6", "around:point>=1e6",
    "points:2d:shortcut", "points:3d:shortcut", "points:2d:near_shortcut", "points:3d:near_shortcut", "points:empty",
    "points:translate=False", "points:translate=True",
    "rigid:rigid", "rigid:stretch", "rigid:dir=body_diagonal", "rigid:dir=axis", "rigid:lastrow",
    "fix_rigid:3d:repair", "fix_rigid:2d:repair", "fix_rigid:3d:beyond", "fix_rigid:3d:exact",
    "align:antiparallel", "align:parallel", "align:tiny", "align:pi_minus_tiny", "align:obtuse", "align:acute",
    "plane:minus_z", "plane:near_minus_z", "plane:generic",
    "kwargs:matrix", "kwargs:quaternion", "kwargs:axis_angle",
    "scale_translate:scale=none",
    "forms:int64", "forms:int32", "forms:list_int", "forms:float32", "forms:readonly", "forms:fortran", "forms:strided", "forms:tuple", "forms:npint64", "forms:pyint",
    "forms:transform_around", "forms:transform_points", "forms:rotation_matrix", "forms:planar_matrix", "forms:decompose_matrix", "forms:fix_rigid",
]  # fmt: skip
