"""C16 — convex hulls and bounding volumes contain what they bound
(trimesh/convex.py, bounds.py, nsphere.py, parent.py, points.py)."""

import itertools
import math

import numpy as np
from hypothesis import strategies as st

import trimesh
from trimesh import bounds as tb
from trimesh import convex as tc
from trimesh import nsphere as tn
from trimesh import primitives as tp

from ..core import ASSUMPTIONS, REQUIRED_CLASSES, RULES, Violation, body, subcheck
from ..gen import c16_points as G
from ..gen import matrices as GMx
from ..gen import meshes as GM
from ..oracle.c16_welzl import miniball

EPS = float(np.finfo(np.float64).eps)

RULES["C16"] = (
    "Point sets of 4..300 points (3..9 in the enumerations) in 2-D and 3-D built as base shape x flattening x rotation x "
    "scale x offset: gaussian, uniform, integer-lattice subsets and lattice cube shells (coplanar/collinear/cocircular ties, "
    "duplicates), tight clusters with outliers, cospherical points and spherical caps, small explicit sets drawn coordinate "
    "by coordinate; one axis scaled by 1e-3..1e-6 (still spanning the full dimension), random rotation, scale 1e-3..1e6, "
    "offset 0/1/1e3/1e6; the same sets wrapped in PointCloud; closed template meshes (vf/gen/meshes.py) under the same "
    "placements; 2-D sets embedded exactly in an axis plane of 3-D (class planar3, boxes only); all subsets of the 2x2x2 cube "
    "corners, of the 3x3 planar grid and of that grid embedded in two axis planes are enumerated; sub-check 'sequence' runs all "
    "twelve hull / bounding queries on ONE PointCloud / Trimesh in a drawn permutation and requires every answer to satisfy the "
    "fresh-object predicates, the input arrays to stay byte-identical and every earlier (cached) answer to stay unchanged; "
    "sub-check 'options' draws every optional argument (oriented_bounds / apply_obb angle_digits, ordered, normal; minimum_cylinder "
    "sample_count, angle_tol; convex_hull / hull_points / oriented_bounds_2D qhull_options as str, QhullOptions, None) and applies "
    "the default-call predicates plus 'one box axis along normal'; sub-check 'dtypes' hands an exactly representable integer point "
    "set (magnitudes small / around sqrt(dtype max) / the whole dtype range) over as int8..int64, uint8..uint64, float32, "
    "read-only / Fortran / strided float64 and nested lists, applies the float64 predicates and requires the argument untouched. Oracles: own face-plane "
    "test of every input point against every hull face plus exact vertex membership, own rigidity / containment / tightness / "
    "centring tests of boxes, spheres and cylinders in float64 with derived tolerances, own Welzl minimal ball with an "
    "optimality certificate, own dict-based adjacent-face projection for is_convex. Non-trivial: at least 5 distinct points "
    "spanning the full dimension with at least one point that is not a vertex of the hull / strictly inside the volume."
)
ASSUMPTIONS["C16"] = [
    "scipy.spatial.ConvexHull / Voronoi (qhull) are trusted to terminate; their output is checked, not assumed",
    "a set 'spans d dimensions' when the smallest singular value of the centred set is >= 1e-9 of the largest and "
    ">= 1e4 ulp of the largest coordinate magnitude; other sets are outside the hull/sphere/cylinder domain and skipped "
    "(they are counted in the class histogram)",
    "trimesh documents the absolute tol.merge=1e-8 below which two vertices are one vertex (convex_hull builds its result "
    "with Trimesh(process=True)): sets with two distinct points closer than 2e-8 are skipped, and flattened sets are not "
    "also scaled down, so that the thickness of a generated set stays above ~1e-7",
    "trimesh documents the absolute tol.zero=1e-13 on cross products below which a face has no normal (face_normals returns a "
    "zero vector): 3-D sets whose hull has a well-shaped face (height/longest edge >= 1e-3) with |cross| <= 4e-13, i.e. sets "
    "below ~1e-6 across or needles with such end faces, and sets most of whose hull faces are below it, are skipped (oriented_bounds raises 'Points must be coplanar' there)",
    "exactly coplanar 3-D input (class planar3, tested in-tree by test_obb_coplanar_points) makes convex_hull fall back to "
    "qhull 'QJ' (joggled input, seeded from the clock inside qhull): boxes of that class get an extra allowance of "
    "1.2e6*eps*M (qh_JOGGLEdefault=30000 x DISTround) and the outcome of such a case may differ between two runs",
    "transformations.transform_points / Trimesh.apply_transform document an identity shortcut (matrix within 1e-8 of I is not "
    "applied): boxes and cylinders whose returned rotation is within 2e-8 of a signed permutation get 3e-8*M+1e-8",
    "distance of a point to the plane of a hull face is judged with a tolerance proportional to diam/h_f (h_f smallest "
    "height of the face): qhull bounds the distance to its merged facets, not to the triangles of their 'Qt' triangulation",
    "minimality of the sphere is only demanded for general-position sets: Welzl certificate found, exactly d+1 or fewer "
    "support points with no further point on the boundary, barycentric weights >= 1e-3, not a cospherical/cap set, and for "
    "lattice / explicit / un-jittered template sets no d+2 cospherical points (exhaustive subset test, <= 12 points)",
    "Trimesh.bounds documents that only referenced vertices count; pool meshes have no unreferenced vertices",
]

def chk(cond, sig, msg=""):
    """like core.check, but the signature may be computed lazily (some classes are only worked out on failure)"""
    if cond:
        return
    raise Violation(sig() if callable(sig) else sig, msg() if callable(msg) else msg)


def guarded(fn, sig_prefix, who):
    """Run a library call; an undocumented QhullError escaping from it is a violation whose signature carries
    qhull's own error code (QH6214 'not enough points', QH6240 'cospherical sites', ...): different codes are
    different root causes. Other exceptions are left to the runner (sig from the innermost trimesh frame)."""
    from scipy.spatial import QhullError

    try:
        return fn()
    except QhullError as e:
        txt = str(e).strip()
        code = txt.split()[0] if txt.startswith("QH") else "QH?"
        raise Violation(f"{sig_prefix}|raises_QhullError|{code}|{who}", txt[:300])


# ------------------------------------------------------------------------------------------------
# geometry of the input set


class PS:
    """An input point set with the quantities every tolerance is derived from."""

    def __init__(self, P):
        P = np.ascontiguousarray(P, dtype=np.float64)
        self.P = P
        self.n, self.d = P.shape
        self.lo = P.min(axis=0)
        self.hi = P.max(axis=0)
        self.diam = float(np.linalg.norm(self.hi - self.lo))
        self.M = float(np.abs(P).max()) + self.diam  # coordinate magnitude (offset + size)
        self.U = np.unique(P, axis=0)
        c = self.U - self.U.mean(axis=0)
        s = np.linalg.svd(c, compute_uv=False) if len(self.U) > 1 else np.zeros(self.d)
        s = np.concatenate((s, np.zeros(max(0, self.d - len(s))))) / math.sqrt(max(1, len(self.U)))
        self.sv = s
        self.thick = float(s[self.d - 1]) if len(s) >= self.d else 0.0
        # spans all d dimensions, robustly with respect to the storage precision of its coordinates
        self.spanning = bool(
            len(self.U) >= self.d + 1 and s[0] > 0 and self.thick >= 1e-9 * s[0] and self.thick >= 1e4 * EPS * self.M
        )
        # closest pair of distinct points, in absolute units: trimesh merges vertices closer than the documented
        # absolute tol.merge = 1e-8 (Trimesh(process=True) in convex_hull); such sets are outside the domain
        if len(self.U) > 1:
            from scipy.spatial import cKDTree

            self.min_gap = float(cKDTree(self.U).query(self.U, k=2)[0][:, 1].min())
        else:
            self.min_gap = 0.0
        self.above_merge_tol = bool(self.min_gap >= 2e-8)
        # trimesh computes normals with the documented absolute tol.zero = 1e-13 on the cross product (units of
        # length^2): Trimesh.face_normals / util.unitize return a zero vector for a triangle whose |cross| is below it,
        # however well shaped (edges below ~3e-7). A 3-D set whose hull has such a well-shaped face (height / longest
        # edge >= 1e-3; slivers are exempt, they are degenerate by shape at any scale) is below that resolution.
        self.above_zero_tol = True
        if self.d == 3 and len(self.U) >= 4:
            try:
                from scipy.spatial import ConvexHull

                q = ConvexHull(self.U, qhull_options="Qt")
                tri = q.points[q.simplices]
                e = np.stack((tri[:, 1] - tri[:, 0], tri[:, 2] - tri[:, 0], tri[:, 2] - tri[:, 1]), axis=1)
                cr = np.linalg.norm(np.cross(e[:, 0], e[:, 1]), axis=1)
                lmax2 = (e**2).sum(axis=2).max(axis=1)
                shaped = cr >= 1e-3 * lmax2
                below = cr <= 4e-13
                # ... and so is a hull most of whose faces are below it, whatever their shape (a needle whose long
                # faces are 3e-5 x 3e-10): there is no normal left to orient a box or a silhouette by
                self.above_zero_tol = bool(not (shaped & below).any() and below.sum() * 2 <= len(cr))
            except Exception:  # noqa  (coplanar etc.: the other rules decide)
                pass

    # tolerance for "point within a bounding volume computed from the hull vertices":
    #   64 ulp of the coordinate magnitude  (a handful of float64 matrix products / un-normalisations of
    #                                         coordinates of size M, each contributing <= ~4 ulp)
    # + 1e-12 * diameter                     (qhull drops points it finds within its round-off distance
    #                                         (~1e-15 in unit-cube coordinates, 'DISTround') of a facet; merged
    #                                         facets may be up to ~100x wider before qhull itself reports them)
    @property
    def tol(self):
        return 64.0 * EPS * self.M + 1e-12 * self.diam


def scale_classes(spec, ps):
    out = []
    s = float(spec.get("scale", 1.0))
    out.append("scale:tiny" if s < 5e-4 else "scale:small" if s < 0.5 else "scale:large" if s > 50 else "scale:unit")
    off = spec.get("offset")
    mag = max(abs(float(v)) for v in off) if off else 0.0
    out.append("offset:1e6" if mag >= 1e5 else "offset:mid" if mag > 0 else "offset:0")
    if spec.get("flat"):
        out.append("flat:rot" if spec.get("rot") is not None else "flat:axis")
        if spec.get("needle"):
            out.append("needle")
    return out


def in_generated_domain(ps):
    return ps.spanning and ps.above_merge_tol and ps.above_zero_tol


def rigid_clause(T, d, sigbase, who):
    """T is a (d+1,d+1) homogeneous matrix: last row exactly (0..0,1), linear part orthonormal with det +1.
    1e-12: the matrices are products of at most ~6 factors each orthonormal to a few ulp."""
    T = np.asarray(T, dtype=np.float64)
    chk(T.shape == (d + 1, d + 1), f"{sigbase}|{who}|rigid|shape", f"{T.shape}")
    last = np.zeros(d + 1)
    last[d] = 1.0
    chk(np.array_equal(T[d], last), f"{sigbase}|{who}|rigid|last_row", lambda: f"{T[d].tolist()}")
    R = T[:d, :d]
    err = float(np.abs(R @ R.T - np.eye(d)).max())
    chk(err <= 1e-12, f"{sigbase}|{who}|rigid|orthonormal", lambda: f"|RR^T-I|={err:.3e} R={R.tolist()}")
    det = float(np.linalg.det(R))
    chk(abs(det - 1.0) <= 1e-9, f"{sigbase}|{who}|rigid|det", lambda: f"det={det}")
    return R, T[:d, d]


def contain_sig(sigbase, who, clause, ps):
    """Signature of a failed containment clause. Volumes that trimesh derives from `convex.convex_hull`
    (oriented_bounds; hull_points(obj) for PointCloud / Trimesh, hence bounding_sphere / bounding_cylinder) inherit
    its defect: when that hull is open (C16.hull|watertight|...), vertices referenced only by the dropped faces vanish
    and the volume misses them. That consequence gets the root cause up front ('C16.<kind>|open_hull|<why>|...'), every
    other failure keeps '<sigbase>|<who>|<clause>'. Evaluated only after a clause has already failed."""
    plain = f"{sigbase}|{who}|{clause}"
    if ps.d != 3:
        return plain
    try:
        if tc.convex_hull(ps.P.copy()).is_watertight:
            return plain
    except Exception:  # noqa
        return plain
    kind, _, rest = sigbase.partition("|")
    return f"{kind}|open_hull|{classify_open_hull(ps)[0]}|{clause}|{rest}|{who}"


def shortcut_allowance(R, ps):
    """transformations.transform_points (used by bounds.oriented_bounds to place the box centre) and
    Trimesh.apply_transform document an identity shortcut: a matrix within 1e-8 (elementwise) of the identity is not
    applied at all. oriented_bounds calls it with the candidate rotation *before* the final axis re-ordering, so the
    shortcut can have been taken exactly when the returned rotation is within 1e-8 of a signed permutation matrix;
    the neglected displacement is at most 3*1e-8*|p| + 1e-8. Only that narrow class gets the allowance."""
    A = np.abs(np.asarray(R, dtype=np.float64))
    if float(np.abs(A - np.round(A)).max()) < 2e-8:
        return 3e-8 * ps.M + 1e-8
    return 0.0


def box_clauses(ps, T, ext, sigbase, who, pts=None, extra_tol=0.0):
    """T maps world -> box frame; points must land in [-ext/2, ext/2], tight and centred."""
    d = ps.d
    ext = np.asarray(ext, dtype=np.float64)
    chk(ext.shape == (d,) and np.isfinite(ext).all() and (ext >= 0).all(), f"{sigbase}|{who}|extents_valid", lambda: f"{ext}")
    R, t = rigid_clause(T, d, sigbase, who)
    P = ps.P if pts is None else pts
    Q = P @ R.T + t
    tol = ps.tol + extra_tol + (shortcut_allowance(R, ps) if d == 3 else 0.0)
    over = float((np.abs(Q) - ext / 2.0).max())
    chk(over <= tol, lambda: contain_sig(sigbase, who, "contains", ps), lambda: f"point sticks out of the box by {over:.3e} (tol {tol:.3e}, diam {ps.diam:.3e}, extents {ext.tolist()})")
    span = Q.max(axis=0) - Q.min(axis=0)
    slack = float(np.abs(span - ext).max())
    chk(slack <= 2 * tol, f"{sigbase}|{who}|tight", lambda: f"extents {ext.tolist()} vs span of transformed points {span.tolist()} (diff {slack:.3e}, tol {2*tol:.3e})")
    cen = (Q.max(axis=0) + Q.min(axis=0)) / 2.0
    offc = float(np.abs(cen).max())
    chk(offc <= tol, f"{sigbase}|{who}|centred", lambda: f"centre of transformed points {cen.tolist()} (tol {tol:.3e})")


def inv_rigid(T, d):
    """inverse of a rigid homogeneous matrix, written out (no call into trimesh)"""
    T = np.asarray(T, dtype=np.float64)
    R = T[:d, :d]
    out = np.eye(d + 1)
    out[:d, :d] = R.T
    out[:d, d] = -R.T @ T[:d, d]
    return out


# ------------------------------------------------------------------------------------------------
# builders


def build_mesh(case):
    V, F = GM.build(case["mesh"])
    pl = case.get("place", {})
    # the same placement pipeline as for point sets, applied to the template vertices (bounding radius < 4)
    spec = dict(pl)
    spec.update({"d": 3, "kind": "explicit", "pts": (V / 4.0).tolist()})
    V2 = G.points(spec)
    return V2, F


def get_points(case):
    if case.get("src") == "mesh":
        V, F = build_mesh(case)
        return V, F
    if case.get("planar3"):
        # a 2-D set embedded in the plane x_axis = level: exactly coplanar 3-D points
        P2 = G.points(case["spec"])
        ax = int(case["axis"])
        P = np.full((len(P2), 3), float(case["level"]))
        P[:, [i for i in range(3) if i != ax]] = P2
        return P, None
    return G.points(case["spec"]), None


def spec_of(case):
    return case.get("place", {}) if case.get("src") == "mesh" else case["spec"]


def label_of(case):
    if case.get("planar3"):
        return "planar3:" + case["spec"]["kind"]
    if case.get("src") == "mesh":
        return "mesh:" + "+".join(p["kind"] for p in case["mesh"]["parts"])
    return G.kind_label(case["spec"])


def make_geom(case, P, F):
    src = case.get("src", "points")
    if src == "mesh":
        return trimesh.Trimesh(vertices=P.copy(), faces=F.copy(), process=False)
    if src == "cloud":
        return trimesh.PointCloud(P.copy())
    return None


# ------------------------------------------------------------------------------------------------
# convex hull


def classify_open_hull(ps):
    """Label (for the signature only, not part of the oracle) why a hull may have come back open: trimesh drops
    faces whose cross product is at most the absolute tol.zero=1e-13 (also faces with three distinct, exactly or
    nearly collinear vertices, which qhull's 'Qt' triangulation of merged facets does produce) and merges vertices
    closer than the absolute tol.merge=1e-8. The raw qhull triangulation is inspected for such faces / vertex pairs."""
    try:
        from scipy.spatial import ConvexHull, cKDTree

        q = ConvexHull(ps.P, qhull_options="QbB Pp Qt")
        tri = q.points[q.simplices]
        nn = np.linalg.norm(np.cross(tri[:, 1] - tri[:, 0], tri[:, 2] - tri[:, 0]), axis=1)
        small = int((nn <= 1e-13).sum())
        hv = q.points[q.vertices]
        dd = cKDTree(hv).query(hv, k=2)[0][:, 1]
        if len(np.unique(hv, axis=0)) < len(hv):
            return "coincident_hull_vertices", f"qhull returned {len(hv) - len(np.unique(hv, axis=0))} input point(s) twice as hull vertices ({small} zero-area faces between them)"
        if small:
            return "faces_below_tol_zero", f"{small} of {len(nn)} qhull faces have |cross| <= 1e-13 (smallest {nn.min():.3e}, {int((nn == 0).sum())} exactly zero)"
        if (dd <= 1e-8 * 1.5).any():
            return "vertices_within_tol_merge", f"closest pair of hull vertices {dd.min():.3e} apart"
        return "other", f"smallest qhull face |cross| {nn.min():.3e}, closest hull vertices {dd.min():.3e}"
    except Exception as e:  # noqa
        return "other", f"(classification failed: {type(e).__name__})"


def overlapping_qhull_triangulation(ps):
    """Label for the signature of a containment failure (not part of the oracle): does qhull's own triangulated
    output, with the options trimesh passes by default ('QbB Pp Qt'), cover more area than the hull has? 'QbB' rescales
    the input to the unit box; for facets with many coplanar / collinear points (lattice shells) that are only
    approximately coplanar after the rescaling, the 'Qt' fan triangulation of the merged facet can contain an inverted
    triangle lying on top of its neighbours. The reference area is qhull's area of the same hull without 'QbB'."""
    try:
        from scipy.spatial import ConvexHull

        q = ConvexHull(ps.P, qhull_options="QbB Pp Qt")
        tri = q.points[q.simplices]
        total = 0.5 * float(np.linalg.norm(np.cross(tri[:, 1] - tri[:, 0], tri[:, 2] - tri[:, 0]), axis=1).sum())
        ref = float(ConvexHull(ps.P, qhull_options="Qt").area)
        return total > ref * (1 + 1e-9), f"qhull 'QbB Pp Qt' triangles cover {total:.6f}, the hull surface is {ref:.6f}"
    except Exception as e:  # noqa
        return False, f"(classification failed: {type(e).__name__})"


def hull_clauses(ps, hull, src, sigbase="C16.hull"):
    P = ps.P
    chk(isinstance(hull, trimesh.Trimesh) and len(hull.faces) >= 4, f"{sigbase}|is_mesh|{src}", lambda: f"{hull}")
    if not hull.is_watertight:
        why, txt = classify_open_hull(ps)
        chk(False, f"{sigbase}|watertight|{why}|{src}", f"{len(hull.vertices)} vertices {len(hull.faces)} faces; {txt}")
    chk(bool(hull.is_winding_consistent), f"{sigbase}|winding_consistent|{src}", "")
    V = np.asarray(hull.vertices, dtype=np.float64)
    F = np.asarray(hull.faces, dtype=np.int64)
    # own signed volume (divergence theorem about the bbox centre), no trimesh code
    c0 = (ps.lo + ps.hi) / 2.0
    W = V - c0
    vol = float(np.einsum("ij,ij->i", W[F[:, 0]], np.cross(W[F[:, 1]], W[F[:, 2]])).sum() / 6.0)
    chk(vol > 0, f"{sigbase}|volume_positive|own|{src}", f"own signed volume {vol:.6e}")
    # Trimesh.volume is integrated about the origin (the accuracy of that integral is C03's subject): products of three
    # coordinates of size M, one factor of which is a difference of size diam, round to <= 64*eps*M^2*diam. Its sign is
    # only demanded when the hull's volume (measured above about the bbox centre) exceeds that.
    if vol > 64 * EPS * ps.M**2 * ps.diam:
        chk(float(hull.volume) > 0, f"{sigbase}|volume_positive|reported|{src}", lambda: f"hull.volume {hull.volume}")
    # vertices are input points, exactly (qhull returns indices; nothing moves a coordinate)
    inp = {r.tobytes() for r in (P + 0.0)}  # +0.0: -0.0 and 0.0 have different bytes
    missing = [i for i, r in enumerate(V + 0.0) if r.tobytes() not in inp]
    chk(not missing, f"{sigbase}|vertex_is_input_point|{src}", lambda: f"hull vertex {V[missing[0]].tolist()} is not an input point")
    # containment: every input point on the inner side of every face plane
    tri = V[F]
    e1 = tri[:, 1] - tri[:, 0]
    e2 = tri[:, 2] - tri[:, 0]
    e3 = tri[:, 2] - tri[:, 1]
    cr = np.cross(e1, e2)
    nn = np.linalg.norm(cr, axis=1)
    lmax = np.sqrt(np.maximum(np.maximum((e1**2).sum(1), (e2**2).sum(1)), (e3**2).sum(1)))
    ok = nn > 0
    h = np.where(ok, nn / np.where(lmax > 0, lmax, 1.0), 0.0)
    amp = np.where(h > 0, np.maximum(1.0, ps.diam / np.where(h > 0, h, 1.0)), np.inf)
    tol_f = ps.tol * amp
    nrm = cr[ok] / nn[ok][:, None]
    D = np.einsum("fnk,fk->fn", P[None, :, :] - tri[ok][:, 0][:, None, :], nrm)
    excess = D - tol_f[ok][:, None]
    worst = np.unravel_index(int(np.argmax(excess)), excess.shape)
    if not excess[worst] <= 0:
        over, txt = overlapping_qhull_triangulation(ps)
        # one root cause, one prefix, whichever sub-check met it
        sig = f"C16.hull|overlapping_qhull_triangulation|{sigbase}|contains_input|{src}" if over else f"{sigbase}|contains_input|{src}"
        chk(False, sig, f"input point {P[worst[1]].tolist()} is {D[worst]:.3e} outside face {F[ok][worst[0]].tolist()} (tol {tol_f[ok][worst[0]]:.3e}, diam {ps.diam:.3e}); {txt}")
    well = int((amp <= 1e3).sum())
    # the library's own predicate must agree. Class for the signature: does the hull carry sliver faces
    # (smallest height below 1e-6 of the diameter) whose normals are decided by round-off?
    sliver = bool((amp > 1e6).any())
    chk(
        bool(hull.is_convex),
        f"{sigbase}|is_convex_false|{'hull_has_sliver_faces' if sliver else 'no_sliver_faces'}|{src}",
        lambda: f"hull is watertight, consistently wound, contains every input point, but hull.is_convex is False (smallest face height/diam {float((h[ok] / ps.diam).min()):.3e})",
    )
    return {"faces": len(F), "well_conditioned_faces": well, "interior": len(ps.U) > len(V)}


@body("C16.hull")
def b_hull(case, ctx):
    P, F = get_points(case)
    ps = PS(P)
    src = case.get("src", "points")
    lab = label_of(case)
    if not in_generated_domain(ps):
        ctx.note(cls="hull:skipped_not_spanning")
        return
    if src == "points":
        hull = tc.convex_hull(P.copy())
    else:
        hull = make_geom(case, P, F).convex_hull
    info = hull_clauses(ps, hull, src)
    # hull_points: a convex subset of the input
    if src == "points":
        hp = np.asarray(tc.hull_points(P.copy()))
        inp = {r.tobytes() for r in (P + 0.0)}
        chk(all(r.tobytes() in inp for r in (hp + 0.0)), "C16.hull|hull_points|subset", "hull_points returned a point that is not an input point")
        # (a point that ties for an extreme coordinate within qhull's round-off may be dropped as coplanar: ps.tol)
        chk(float(np.abs(hp.min(axis=0) - ps.lo).max()) <= ps.tol and float(np.abs(hp.max(axis=0) - ps.hi).max()) <= ps.tol, "C16.hull|hull_points|bounds", "hull_points does not reach the extreme coordinates of the input")
    ctx.note(
        nontrivial=len(ps.U) >= 5 and info["interior"],
        cls=["hull:" + lab, "hull:src=" + src] + ["hull:" + c for c in scale_classes(spec_of(case), ps)] + (["hull:all_faces_illconditioned"] if info["well_conditioned_faces"] == 0 else []),
    )


# ------------------------------------------------------------------------------------------------
# is_convex as an observer (mechanism: convexity test by adjacent-face projections)


def own_adjacent_projection(V, F):
    """max over adjacent face pairs (both directions) of the signed height of the opposite vertex above
    the neighbour's plane, via a dict of undirected edges; > 0 means a reflex edge."""
    edges = {}
    for fi, (a, b, c) in enumerate(F.tolist()):
        for u, v, w in ((a, b, c), (b, c, a), (c, a, b)):
            edges.setdefault((min(u, v), max(u, v)), []).append((fi, w))
    cr = np.cross(V[F[:, 1]] - V[F[:, 0]], V[F[:, 2]] - V[F[:, 0]])
    nn = np.linalg.norm(cr, axis=1)
    N = cr / nn[:, None]
    worst = -np.inf
    for (u, v), lst in edges.items():
        if len(lst) != 2:
            return None
        (f0, w0), (f1, w1) = lst
        worst = max(worst, float(N[f0] @ (V[w1] - V[u])), float(N[f1] @ (V[w0] - V[u])))
    return worst


@body("C16.is_convex")
def b_is_convex(case, ctx):
    V, F = build_mesh(case)
    nparts = len(case["mesh"]["parts"])
    m = trimesh.Trimesh(vertices=V.copy(), faces=F.copy(), process=False)
    scale = float(np.linalg.norm(V.max(axis=0) - V.min(axis=0)))
    p = own_adjacent_projection(V, F)
    if p is None:
        return
    rel = p / scale
    got = bool(m.is_convex)
    # documented threshold: tol.planar (1e-5) * mesh.scale on the adjacent projections; decide only a
    # decade away from it on either side
    if nparts > 1:
        ctx.note(nontrivial=True, cls="is_convex:multibody")
        chk(got is False, "C16.is_convex|multibody_reported_convex", "two disjoint bodies reported convex")
    elif rel >= 1e-4:
        ctx.note(nontrivial=True, cls="is_convex:reflex")
        chk(got is False, "C16.is_convex|reflex_reported_convex", f"adjacent projection {rel:.3e}*scale but is_convex True")
    elif rel <= 1e-6:
        ctx.note(nontrivial=True, cls="is_convex:convex")
        chk(got is True, "C16.is_convex|convex_reported_nonconvex", f"largest adjacent projection {rel:.3e}*scale but is_convex False")
    else:
        ctx.note(cls="is_convex:undecided_band")


# ------------------------------------------------------------------------------------------------
# boxes


def obb_guarded(fn, ps, who):
    """oriented_bounds is built on convex.convex_hull: when that hull comes back open (see C16.hull|watertight|...)
    the silhouette search finds no edges and numpy raises ValueError('zero-size array ...'). Give that consequence
    its own signature instead of the generic exception bucket; anything else goes to the runner unchanged."""
    coplanar = bool(ps.d == 3 and ps.thick <= 1e-9 * max(ps.sv[0], 1e-300))

    def out(sig, msg):
        raise Violation(sig, msg)

    try:
        return fn()
    except TypeError as e:
        # `min_2D` stays None when every candidate normal is skipped by `if not side.any(): continue`
        # ("for coplanar points this could be empty" in the source)
        if "NoneType" not in str(e):
            raise
        out(f"C16.box|raises_TypeError|{'coplanar_input' if coplanar else 'spanning_input'}|{who}", f"TypeError: {e} (oriented_bounds found no usable candidate direction)")
    except ValueError as e:
        if "zero-size array" not in str(e) or ps.d != 3:
            raise
        if coplanar:
            out(f"C16.box|raises_ValueError|coplanar_input|{who}", f"ValueError: {e} (no silhouette edges on the flat 'QJ' hull of coplanar points)")
        try:
            open_hull = not tc.convex_hull(ps.P.copy()).is_watertight
        except Exception:  # noqa
            open_hull = False
        if not open_hull:
            raise
        why, txt = classify_open_hull(ps)
        out(f"C16.box|open_hull|{why}|raises_ValueError|{who}", f"ValueError: {e}; convex_hull of the same points is not watertight: {txt}")


@body("C16.box")
def b_box(case, ctx):
    P, F = get_points(case)
    ps = PS(P)
    src = case.get("src", "points")
    d = ps.d
    lab = label_of(case)
    planar3 = bool(case.get("planar3"))
    if planar3:
        if not (d == 3 and len(ps.U) >= 3 and ps.sv[1] >= 1e-3 * ps.sv[0] and ps.sv[1] >= 1e-6):
            ctx.note(cls="box:skipped_degenerate")
            return
    elif not in_generated_domain(ps):
        ctx.note(cls="box:skipped_not_spanning")
        return
    # fewer than 4 distinct points: ConvexHull raises even with 'QJ', the only inputs that reach
    # bounds.oriented_bounds_coplanar (its own code path, hence its own signature class)
    sigbase = f"C16.box|{src}" + ("|planar3" if planar3 else "") + ("|n<4" if len(ps.U) < 4 else "")
    # exactly coplanar input: ConvexHull('QbB Pp Qt') raises and convex.convex_hull documents its retry with 'QJ'
    # (joggled input). qhull's default joggle is qh_JOGGLEdefault = 30000 * DISTround with
    # DISTround <= eps*(3*1.01*maxsumabs + maxabs) <= 10*eps*M per coordinate, so the choice of extreme points can be
    # off by 2*sqrt(3) joggles: 1.2e6*eps*M. Only this class gets the allowance.
    xt = 1.2e6 * EPS * ps.M if planar3 else 0.0
    kw = {}
    if case.get("unordered"):
        kw["ordered"] = False
    if src == "points":
        if d == 2:
            T, ext = tb.oriented_bounds_2D(P.copy())
            box_clauses(ps, T, ext, sigbase, "oriented_bounds_2D", extra_tol=xt)
            T2, ext2 = tb.oriented_bounds(P.copy())
            box_clauses(ps, T2, ext2, sigbase, "oriented_bounds(n,2)", extra_tol=xt)
        else:
            T, ext = obb_guarded(lambda: tb.oriented_bounds(P.copy(), **kw), ps, "points|oriented_bounds")
            box_clauses(ps, T, ext, sigbase, "oriented_bounds", extra_tol=xt)
    else:
        g = make_geom(case, P, F)
        # AABB: exact
        b = np.asarray(g.bounds)
        chk(np.array_equal(b[0], ps.lo) and np.array_equal(b[1], ps.hi), f"{sigbase}|bounds|exact", lambda: f"{b.tolist()} vs {[ps.lo.tolist(), ps.hi.tolist()]}")
        bb = g.bounding_box
        chk(isinstance(bb, tp.Box), f"{sigbase}|bounding_box|type", str(type(bb)))
        Tb = np.asarray(bb.primitive.transform)
        chk(np.array_equal(Tb[:3, :3], np.eye(3)), f"{sigbase}|bounding_box|axis_aligned", lambda: f"{Tb.tolist()}")
        # centre and half extents are each rounded once: 4 ulp of the coordinate magnitude
        half = np.asarray(bb.primitive.extents) / 2.0
        t4 = 4 * EPS * ps.M
        chk(((Tb[:3, 3] - half) <= ps.lo + t4).all() and ((Tb[:3, 3] + half) >= ps.hi - t4).all(), f"{sigbase}|bounding_box|contains", lambda: f"centre {Tb[:3,3].tolist()} half {half.tolist()}")
        chk((np.abs(2 * half - (ps.hi - ps.lo)) <= t4).all(), f"{sigbase}|bounding_box|tight", lambda: f"{(2*half).tolist()} vs {(ps.hi-ps.lo).tolist()}")
        # OBB via the function, the primitive, and apply_obb
        T, ext = obb_guarded(lambda: tb.oriented_bounds(g, **kw), ps, f"{src}|oriented_bounds")
        box_clauses(ps, T, ext, sigbase, "oriented_bounds", extra_tol=xt)
        obb = obb_guarded(lambda: g.bounding_box_oriented, ps, f"{src}|bounding_box_oriented")
        chk(isinstance(obb, tp.Box), f"{sigbase}|bounding_box_oriented|type", str(type(obb)))
        To = np.asarray(obb.primitive.transform)  # box frame -> world
        rigid_clause(To, 3, sigbase, "bounding_box_oriented.transform")
        box_clauses(ps, inv_rigid(To, 3), np.asarray(obb.primitive.extents), sigbase, "bounding_box_oriented", extra_tol=xt)
        g2 = make_geom(case, P, F)
        Ta = obb_guarded(lambda: g2.apply_obb(**kw), ps, f"{src}|apply_obb")
        R, t = rigid_clause(Ta, 3, sigbase, "apply_obb")
        want = P @ R.T + t
        moved = np.asarray(g2.vertices)
        dev = float(np.abs(moved - want).max())
        sa = shortcut_allowance(R, ps)
        chk(moved.shape == want.shape and dev <= ps.tol + sa, f"{sigbase}|apply_obb|applied", lambda: f"vertices after apply_obb differ from matrix*vertices by {dev:.3e}")
        psm = PS(moved)
        cen = float(np.abs(psm.lo + psm.hi).max()) / 2.0
        chk(cen <= ps.tol + xt + 2 * sa, f"{sigbase}|apply_obb|centred", lambda: f"bounds after apply_obb {[psm.lo.tolist(), psm.hi.tolist()]}")
        dif = float(np.abs((psm.hi - psm.lo) - np.asarray(ext)).max())
        chk(dif <= 2 * (ps.tol + xt + 2 * sa), f"{sigbase}|apply_obb|extents", lambda: f"extents after apply_obb {(psm.hi-psm.lo).tolist()} vs obb extents {np.asarray(ext).tolist()}")
    ctx.note(
        nontrivial=len(ps.U) >= 5,
        cls=["box:" + lab, "box:src=" + src] + ["box:" + c for c in scale_classes(spec_of(case), ps)] + (["box:planar3"] if planar3 else []),
    )


# ------------------------------------------------------------------------------------------------
# spheres


def has_cospherical_subset(ps):
    """d+2 points on a common sphere (or hyperplane): determinant of the lifted rows (p, |p|^2, 1) in unit-box
    coordinates. Only called for sets with at most 12 distinct points (<= 792 subsets)."""
    d = ps.d
    U = (ps.U - (ps.lo + ps.hi) / 2.0) / ps.diam
    L = np.column_stack((U, (U**2).sum(axis=1), np.ones(len(U))))
    idx = np.array(list(itertools.combinations(range(len(U)), d + 2)), dtype=np.int64).reshape((-1, d + 2))
    if len(idx) == 0:
        return False
    return bool((np.abs(np.linalg.det(L[idx])) <= 1e-10).any())


def general_position_candidate(case, ps):
    """Sets whose coordinates come from a continuous distribution are in general position with probability one.
    Integer-lattice, explicit (small integers / dyadic fractions) and un-jittered template meshes routinely have
    d+2 cospherical points (an isosceles trapezoid is enough): those only count as general position when an
    exhaustive subset test says so, which is affordable up to 12 distinct points."""
    if case.get("src") == "mesh":
        discrete = not case["mesh"].get("jamp")
    else:
        kind = case["spec"].get("kind")
        if kind in ("sphere", "cap"):
            return False
        discrete = kind in ("lattice", "lattice_shell", "explicit")
    if not discrete:
        return True
    return len(ps.U) <= 12 and not has_cospherical_subset(ps)


def sphere_clauses(ps, center, radius, sigbase, who, general_ok, ctx=None):
    c = np.asarray(center, dtype=np.float64).reshape(-1)
    r = float(radius)
    chk(c.shape == (ps.d,) and np.isfinite(c).all() and np.isfinite(r) and r >= 0, f"{sigbase}|{who}|finite", lambda: f"center {c} radius {r}")
    dist = np.linalg.norm(ps.P - c, axis=1)
    over = float(dist.max() - r)
    # the radius is the largest distance from the chosen centre, computed in coordinates normalised by the
    # smallest extent and mapped back: round-off only
    chk(over <= ps.tol + 1e-12 * r, lambda: contain_sig(sigbase, who, "contains", ps), lambda: f"farthest point {over:.3e} outside radius {r:.6e} (tol {ps.tol:.3e})")
    mb = miniball(ps.P, seed=len(ps.P))
    k = mb["nsupport"]
    general = bool(general_ok and mb["certified"] and mb["n_on_boundary"] == k and mb["min_lambda"] >= 1e-3)
    rw = mb["radius"]
    if mb["certified"]:
        # no enclosing ball is smaller than the certified minimum (also a test of the oracle itself)
        chk(r >= rw * (1 - 1e-9) - ps.tol, f"{sigbase}|{who}|smaller_than_minimum", lambda: f"radius {r:.9e} < certified minimal radius {rw:.9e}")
    if general:
        # root cause first so that one ledger prefix covers one root cause: the library only looks at centres
        # equidistant from d+1 points (furthest-site Voronoi vertices)
        chk(
            r <= rw * (1 + 1e-6) + ps.tol,
            f"C16.sphere|not_minimal|{'support<d+1' if k <= ps.d else 'support=d+1'}|d={ps.d}|support={k}|{sigbase.split('|')[1]}|{who}",
            lambda: f"radius {r:.9e} but the minimal enclosing ball has radius {rw:.9e} (support of {k} points, ratio {r/rw:.6f})",
        )
    return general, k, int((dist < r - 1e-6 * max(r, 1e-300)).sum())


@body("C16.sphere")
def b_sphere(case, ctx):
    P, F = get_points(case)
    ps = PS(P)
    src = case.get("src", "points")
    lab = label_of(case)
    if not in_generated_domain(ps):
        ctx.note(cls="sphere:skipped_not_spanning")
        return
    general_ok = general_position_candidate(case, ps)
    sigbase = f"C16.sphere|{src}"
    if src == "points":
        c, r = guarded(lambda: tn.minimum_nsphere(P.copy()), "C16.sphere", "points|minimum_nsphere")
        general, k, inner = sphere_clauses(ps, c, r, sigbase, "minimum_nsphere", general_ok)
    else:
        g = make_geom(case, P, F)
        s = guarded(lambda: g.bounding_sphere, "C16.sphere", f"{src}|bounding_sphere")
        chk(isinstance(s, tp.Sphere), f"{sigbase}|bounding_sphere|type", str(type(s)))
        general, k, inner = sphere_clauses(ps, s.primitive.center, s.primitive.radius, sigbase, "bounding_sphere", general_ok)
    ctx.note(
        nontrivial=len(ps.U) >= 5 and inner >= 1,
        cls=["sphere:" + lab, "sphere:src=" + src, f"sphere:d{ps.d}:" + (f"general:support={k}" if general else "not_general")] + ["sphere:" + c for c in scale_classes(spec_of(case), ps)],
    )


# ------------------------------------------------------------------------------------------------
# cylinders and bounding_primitive


def cylinder_clauses(ps, T, radius, height, sigbase, who):
    r = float(radius)
    hgt = float(height)
    chk(np.isfinite(r) and np.isfinite(hgt) and r >= 0 and hgt >= 0, f"{sigbase}|{who}|finite", f"radius {r} height {hgt}")
    R, t = rigid_clause(T, 3, sigbase, who)  # cylinder frame -> world
    L = (ps.P - t) @ R  # = R^T (p - t)
    rad = np.hypot(L[:, 0], L[:, 1])
    over_r = float(rad.max() - r)
    over_z = float(np.abs(L[:, 2]).max() - hgt / 2.0)
    # volume_from_angles rotates the hull points with transformations.transform_points, whose documented identity
    # shortcut (matrix within 1e-8 of I is not applied) is reachable when the optimiser ends within 1e-8 rad of the
    # z axis: same narrow allowance as for the boxes
    sa = shortcut_allowance(R, ps)
    chk(over_r <= ps.tol + sa + 1e-12 * r, lambda: contain_sig(sigbase, who, "radial", ps), lambda: f"point {over_r:.3e} outside radius {r:.6e} (tol {ps.tol + sa:.3e})")
    chk(over_z <= ps.tol + sa, lambda: contain_sig(sigbase, who, "axial", ps), lambda: f"point {over_z:.3e} beyond half height {hgt/2:.6e} (tol {ps.tol + sa:.3e})")
    return int((rad < r * (1 - 1e-6)).sum())


@body("C16.cylinder")
def b_cylinder(case, ctx):
    P, F = get_points(case)
    ps = PS(P)
    src = case.get("src", "points")
    lab = label_of(case)
    if not in_generated_domain(ps):
        ctx.note(cls="cyl:skipped_not_spanning")
        return
    sigbase = f"C16.cylinder|{src}"
    extra = []
    if src == "points":
        res = guarded(lambda: tb.minimum_cylinder(P.copy()), "C16.cylinder", "points|minimum_cylinder")
        inner = cylinder_clauses(ps, res["transform"], res["radius"], res["height"], sigbase, "minimum_cylinder")
    else:
        g = make_geom(case, P, F)
        if src == "mesh" and getattr(g, "symmetry", None) == "radial":
            extra.append("cyl:radial_symmetry_path")
        cy = guarded(lambda: g.bounding_cylinder, "C16.cylinder", f"{src}|bounding_cylinder")
        chk(isinstance(cy, tp.Cylinder), f"{sigbase}|bounding_cylinder|type", str(type(cy)))
        inner = cylinder_clauses(ps, cy.primitive.transform, cy.primitive.radius, cy.primitive.height, sigbase, "bounding_cylinder")
        # bounding_primitive: the smallest of the three, and it contains
        bp = guarded(lambda: obb_guarded(lambda: g.bounding_primitive, ps, f"{src}|bounding_primitive"), "C16.cylinder", f"{src}|bounding_primitive")
        opts = [g.bounding_box_oriented, g.bounding_sphere, g.bounding_cylinder]
        which = [i for i, o in enumerate(opts) if o is bp]
        chk(len(which) >= 1, f"{sigbase}|bounding_primitive|is_one_of_three", str(type(bp)))
        vols = [float(np.prod(opts[0].primitive.extents)), 4.0 / 3.0 * math.pi * float(opts[1].primitive.radius) ** 3, math.pi * float(cy.primitive.radius) ** 2 * float(cy.primitive.height)]
        i = which[0] if which else 0
        chk(vols[i] <= min(vols) * (1 + 1e-9), f"{sigbase}|bounding_primitive|smallest", lambda: f"chose option {i} with own volumes {vols}")
        extra.append("cyl:primitive=" + ["box", "sphere", "cylinder"][i])
        if isinstance(bp, tp.Box):
            box_clauses(ps, inv_rigid(np.asarray(bp.primitive.transform), 3), np.asarray(bp.primitive.extents), sigbase, "bounding_primitive(box)")
        elif isinstance(bp, tp.Sphere):
            sphere_clauses(ps, bp.primitive.center, bp.primitive.radius, sigbase, "bounding_primitive(sphere)", False)
        elif isinstance(bp, tp.Cylinder):
            cylinder_clauses(ps, bp.primitive.transform, bp.primitive.radius, bp.primitive.height, sigbase, "bounding_primitive(cylinder)")
    ctx.note(
        nontrivial=len(ps.U) >= 5 and inner >= 1,
        cls=["cyl:" + lab, "cyl:src=" + src] + extra + ["cyl:" + c for c in scale_classes(spec_of(case), ps)],
    )


# ------------------------------------------------------------------------------------------------
# several queries on ONE object, in a drawn order: a query must not corrupt what another one returns


SEQ_QUERIES = [
    "convex_hull",
    "bounds",
    "bounding_box",
    "bounding_box_oriented",
    "bounding_sphere",
    "bounding_cylinder",
    "bounding_primitive",
    "apply_obb(copy)",
    "convex.convex_hull(obj)",
    "bounds.oriented_bounds(obj)",
    "nsphere.minimum_nsphere(obj)",
    "bounds.minimum_cylinder(obj)",
]
SEQ_CACHED = {"convex_hull", "bounds", "bounding_box", "bounding_box_oriented", "bounding_sphere", "bounding_cylinder", "bounding_primitive"}


def _snapshot(q, g):
    """bytes that define the answer of the (cached) property query q as currently returned by the object"""
    a = getattr(g, q)
    if q == "convex_hull":
        return np.asarray(a.vertices).tobytes() + np.asarray(a.faces).tobytes()
    if q == "bounds":
        return np.asarray(a).tobytes()
    pr = a.primitive
    parts = [np.asarray(pr.transform, dtype=np.float64).tobytes(), type(a).__name__.encode()]
    for name in ("extents", "radius", "height"):
        if hasattr(pr, name):
            parts.append(np.asarray(getattr(pr, name), dtype=np.float64).tobytes())
    return b"".join(parts)


def _primitive_clauses(ps, a, sb, who, general_ok=False):
    if isinstance(a, tp.Sphere):
        sphere_clauses(ps, a.primitive.center, a.primitive.radius, sb, who, general_ok)
    elif isinstance(a, tp.Cylinder):
        cylinder_clauses(ps, a.primitive.transform, a.primitive.radius, a.primitive.height, sb, who)
    elif isinstance(a, tp.Box):
        To = np.asarray(a.primitive.transform)
        rigid_clause(To, 3, sb, who + ".transform")
        box_clauses(ps, inv_rigid(To, 3), np.asarray(a.primitive.extents), sb, who)
    else:
        chk(False, f"{sb}|{who}|type", str(type(a)))


def seq_query(q, g, ps, case, P, F, src, general_ok, tag=""):
    """run one query on the shared object and apply exactly the predicates of the fresh-object bodies"""
    sb = f"C16.sequence{tag}|{src}"
    if q == "convex_hull":
        hull_clauses(ps, g.convex_hull, src, sigbase=f"C16.sequence{tag}|convex_hull")
    elif q == "convex.convex_hull(obj)":
        hull_clauses(ps, tc.convex_hull(g), src, sigbase=f"C16.sequence{tag}|convex.convex_hull(obj)")
    elif q == "bounds":
        b = np.asarray(g.bounds)
        chk(np.array_equal(b[0], ps.lo) and np.array_equal(b[1], ps.hi), f"{sb}|bounds|exact", lambda: f"{b.tolist()}")
    elif q == "bounding_box":
        bb = g.bounding_box
        Tb = np.asarray(bb.primitive.transform)
        half = np.asarray(bb.primitive.extents) / 2.0
        t4 = 4 * EPS * ps.M
        chk(np.array_equal(Tb[:3, :3], np.eye(3)) and ((Tb[:3, 3] - half) <= ps.lo + t4).all() and ((Tb[:3, 3] + half) >= ps.hi - t4).all(), f"{sb}|bounding_box|contains", lambda: f"centre {Tb[:3,3].tolist()} half {half.tolist()}")
        chk((np.abs(2 * half - (ps.hi - ps.lo)) <= t4).all(), f"{sb}|bounding_box|tight", lambda: f"{(2*half).tolist()} vs {(ps.hi-ps.lo).tolist()}")
    elif q == "bounding_box_oriented":
        _primitive_clauses(ps, obb_guarded(lambda: g.bounding_box_oriented, ps, f"{src}|bounding_box_oriented"), sb, q)
    elif q == "bounding_sphere":
        _primitive_clauses(ps, guarded(lambda: g.bounding_sphere, "C16.sequence", f"{src}|bounding_sphere"), sb, q, general_ok)
    elif q == "bounding_cylinder":
        _primitive_clauses(ps, guarded(lambda: g.bounding_cylinder, "C16.sequence", f"{src}|bounding_cylinder"), sb, q)
    elif q == "bounding_primitive":
        bp = guarded(lambda: obb_guarded(lambda: g.bounding_primitive, ps, f"{src}|bounding_primitive"), "C16.sequence", f"{src}|bounding_primitive")
        chk(any(bp is o for o in (g.bounding_box_oriented, g.bounding_sphere, g.bounding_cylinder)), f"{sb}|bounding_primitive|is_one_of_three", str(type(bp)))
        _primitive_clauses(ps, bp, sb, q)
    elif q == "apply_obb(copy)":
        g2 = g.copy()
        Ta = obb_guarded(lambda: g2.apply_obb(), ps, f"{src}|apply_obb")
        R, t = rigid_clause(Ta, 3, sb, q)
        sa = shortcut_allowance(R, ps)
        moved = np.asarray(g2.vertices)
        dev = float(np.abs(moved - (P @ R.T + t)).max())
        chk(dev <= ps.tol + sa, f"{sb}|{q}|applied", lambda: f"vertices after apply_obb differ from matrix*vertices by {dev:.3e}")
        cen = float(np.abs(moved.min(axis=0) + moved.max(axis=0)).max()) / 2.0
        chk(cen <= ps.tol + 2 * sa, f"{sb}|{q}|centred", lambda: f"centre after apply_obb off by {cen:.3e}")
    elif q == "bounds.oriented_bounds(obj)":
        T, ext = obb_guarded(lambda: tb.oriented_bounds(g), ps, f"{src}|oriented_bounds")
        box_clauses(ps, T, ext, sb, q)
    elif q == "nsphere.minimum_nsphere(obj)":
        c, r = guarded(lambda: tn.minimum_nsphere(g), "C16.sequence", f"{src}|minimum_nsphere")
        sphere_clauses(ps, c, r, sb, q, general_ok)
    elif q == "bounds.minimum_cylinder(obj)":
        res = guarded(lambda: tb.minimum_cylinder(g), "C16.sequence", f"{src}|minimum_cylinder")
        cylinder_clauses(ps, res["transform"], res["radius"], res["height"], sb, q)
    else:
        raise ValueError(q)


@body("C16.sequence")
def b_sequence(case, ctx):
    P, F = get_points(case)
    ps = PS(P)
    src = case["src"]
    if not in_generated_domain(ps):
        ctx.note(cls="seq:skipped_not_spanning")
        return
    g = make_geom(case, P, F)
    # phases: the drawn order on the object as built, then (optionally) transform the SAME object in place and query it
    # again: everything it returns now has to be right for the transformed input, whatever it had cached before
    phases = [(None, case["order"])] + [(ph["T"], ph["order"]) for ph in case.get("then", [])]
    classes = ["seq:src=" + src, "seq:first=" + SEQ_QUERIES[case["order"][0]], "seq:" + label_of(case)]
    for T, order in phases:
        tag = ""
        if T is not None:
            M = np.asarray(T["M"], dtype=np.float64)
            tag = "|after_" + T["cls"]
            g.apply_transform(M.copy())
            L, t = M[:3, :3], M[:3, 3]
            want = P @ L.T + t
            P2 = np.ascontiguousarray(np.asarray(g.vertices, dtype=np.float64)).copy()
            # float64 product of coordinates of size M with the rows of L, plus the documented identity shortcut
            # (a matrix within 1e-8 of I is not applied)
            tolv = 64 * EPS * (float(np.abs(L).sum(axis=1).max()) * ps.M + float(np.abs(t).max()))
            if float(np.abs(M - np.eye(4)).max()) < 2e-8:
                tolv += 3e-8 * ps.M + 1e-8
            dev = float(np.abs(P2 - want).max()) if P2.shape == want.shape else float("inf")
            chk(dev <= tolv, f"C16.sequence|apply_transform|vertices|{T['cls']}|{src}", lambda: f"vertices after apply_transform differ from matrix*vertices by {dev:.3e} (tol {tolv:.3e})")
            P = P2
            ps = PS(P)
            if not in_generated_domain(ps):
                classes.append("seq:transformed_out_of_domain")
                break
            classes.append("seq:transform=" + T["cls"])
        general_ok = general_position_candidate(case, ps)
        vbytes = P.tobytes()
        fbytes = None if F is None else np.asarray(g.faces).tobytes()
        snaps = {}
        for qi in order:
            q = SEQ_QUERIES[qi]
            seq_query(q, g, ps, case, P, F, src, general_ok, tag)
            # the input is untouched ...
            same = np.asarray(g.vertices).tobytes() == vbytes and (fbytes is None or np.asarray(g.faces).tobytes() == fbytes)
            chk(same, f"C16.sequence|input_changed|by={q}|{src}", "vertices / faces of the object differ bytewise from what they were before the query")
            # ... and so is every answer handed out earlier (the object returns its cached answers again)
            for e, snap in snaps.items():
                chk(_snapshot(e, g) == snap, f"C16.sequence|answer_changed|{e}|by={q}|{src}", lambda: f"{e} of the same object returns different data after {q}")
            if q in SEQ_CACHED and q not in snaps:
                snaps[q] = _snapshot(q, g)
    ctx.note(nontrivial=len(ps.U) >= 5, cls=classes)


# ------------------------------------------------------------------------------------------------
# every optional argument of the functions under test, drawn per case; the predicates are those of the default call


QH_HULL_OPTIONS = ["default", "QbB Pp Qt", "Qt", "QbB Qt", "Pp Qt", "none", "obj:QbB,Pp,Qt", "obj:Qt", "obj:QbB,Pp,Qt,Qs"]


def _hull_option(name):
    if name == "default":
        return {}
    if name == "none":
        return {"qhull_options": None}
    if name.startswith("obj:"):
        return {"qhull_options": tc.QhullOptions(**{k: True for k in name[4:].split(",")})}
    return {"qhull_options": name}


@body("C16.options")
def b_options(case, ctx):
    P, F = get_points(case)
    ps = PS(P)
    src = case.get("src", "points")
    opt = case["opt"]
    if not in_generated_domain(ps):
        ctx.note(cls="opt:skipped_not_spanning")
        return
    sb = f"C16.options|{src}"
    cls = ["opt:src=" + src, "opt:" + label_of(case)]
    if ps.d == 2:
        qo = opt.get("qhull2d")
        T, ext = tb.oriented_bounds_2D(P.copy()) if qo is None else tb.oriented_bounds_2D(P.copy(), qhull_options=qo)
        box_clauses(ps, T, ext, sb, f"oriented_bounds_2D(qhull_options={qo!r})")
        hp = np.asarray(tc.hull_points(P.copy()) if qo is None else tc.hull_points(P.copy(), qhull_options=qo))
        inp = {r.tobytes() for r in (P + 0.0)}
        chk(all(r.tobytes() in inp for r in (hp + 0.0)), f"{sb}|hull_points(qhull_options={qo!r})|subset", "hull_points returned a point that is not an input point")
        chk(float(np.abs(hp.min(axis=0) - ps.lo).max()) <= ps.tol and float(np.abs(hp.max(axis=0) - ps.hi).max()) <= ps.tol, f"{sb}|hull_points(qhull_options={qo!r})|bounds", "")
        ctx.note(nontrivial=len(ps.U) >= 5, cls=cls + [f"opt:qhull2d={qo!r}"])
        return
    obj = (lambda: P.copy()) if src == "points" else (lambda: make_geom(case, P, F))
    # ---- oriented_bounds(obj, angle_digits, ordered, normal) and apply_obb(**same)
    kw = {}
    tags = []
    if opt.get("angle_digits") is not None:
        kw["angle_digits"] = int(opt["angle_digits"])
        tags.append("angle_digits")
    if opt.get("ordered") is not None:
        kw["ordered"] = bool(opt["ordered"])
        tags.append("ordered")
    nrm = None
    if opt.get("normal") is not None:
        nrm = np.asarray(opt["normal"], dtype=np.float64)
        nrm = nrm / np.linalg.norm(nrm)
        kw["normal"] = nrm.copy()
        tags.append("normal")
    who = "oriented_bounds(" + ",".join(tags) + ")"
    T, ext = obb_guarded(lambda: tb.oriented_bounds(obj(), **kw), ps, f"{src}|{who}")
    box_clauses(ps, T, ext, sb, who)
    if nrm is not None:
        # documented: "Override search for normal": the box is the 2-D box of the projection along `normal` times the
        # height along it, so one axis of the box frame is +-normal (rows of the rotation are the box axes)
        R = np.asarray(T)[:3, :3]
        al = float(np.abs(R @ nrm).max())
        chk(al >= 1 - 1e-9, f"{sb}|{who}|axis_along_normal", lambda: f"largest |row . normal| = {al}")
    if src != "points":
        g2 = make_geom(case, P, F)
        Ta = obb_guarded(lambda: g2.apply_obb(**kw), ps, f"{src}|apply_obb({','.join(tags)})")
        R, t = rigid_clause(Ta, 3, sb, "apply_obb(" + ",".join(tags) + ")")
        sa = shortcut_allowance(R, ps)
        moved = np.asarray(g2.vertices)
        dev = float(np.abs(moved - (P @ R.T + t)).max())
        chk(dev <= ps.tol + sa, f"{sb}|apply_obb({','.join(tags)})|applied", lambda: f"vertices after apply_obb differ from matrix*vertices by {dev:.3e}")
        cen = float(np.abs(moved.min(axis=0) + moved.max(axis=0)).max()) / 2.0
        chk(cen <= ps.tol + 2 * sa, f"{sb}|apply_obb({','.join(tags)})|centred", lambda: f"centre after apply_obb off by {cen:.3e}")
        dif = float(np.abs(np.sort(moved.max(axis=0) - moved.min(axis=0)) - np.sort(np.asarray(ext))).max())
        chk(dif <= 2 * (ps.tol + 2 * sa), f"{sb}|apply_obb({','.join(tags)})|extents", lambda: f"extents after apply_obb differ from oriented_bounds extents by {dif:.3e}")
    # ---- minimum_cylinder(obj, sample_count, angle_tol)
    ckw = {}
    if opt.get("sample_count") is not None:
        ckw["sample_count"] = int(opt["sample_count"])
    if opt.get("angle_tol") is not None:
        ckw["angle_tol"] = float(opt["angle_tol"])
    if ckw:
        cwho = "minimum_cylinder(" + ",".join(sorted(ckw)) + ")"
        res = guarded(lambda: tb.minimum_cylinder(obj(), **ckw), "C16.options", f"{src}|{cwho}")
        cylinder_clauses(ps, res["transform"], res["radius"], res["height"], sb, cwho)
        tags += sorted(ckw)
    # ---- convex_hull(obj, qhull_options, repair=True), hull_points(obj, qhull_options)
    ho = opt.get("hull", "default")
    if ho != "default":
        hull = tc.convex_hull(obj(), **_hull_option(ho))
        hull_clauses(ps, hull, src, sigbase=f"C16.options|convex_hull({ho})")
        tags.append("hull_options")
    hpo = opt.get("hull_points")
    if hpo is not None:
        hp = np.asarray(tc.hull_points(obj(), qhull_options=hpo))
        inp = {r.tobytes() for r in (P + 0.0)}
        chk(all(r.tobytes() in inp for r in (hp + 0.0)), f"{sb}|hull_points(qhull_options={hpo!r})|subset", "hull_points returned a point that is not an input point")
        chk(float(np.abs(hp.min(axis=0) - ps.lo).max()) <= ps.tol and float(np.abs(hp.max(axis=0) - ps.hi).max()) <= ps.tol, f"{sb}|hull_points(qhull_options={hpo!r})|bounds", "")
        tags.append("hull_points_options")
    ctx.note(nontrivial=len(ps.U) >= 5 and bool(tags), cls=cls + ["opt:" + t for t in tags] + (["opt:normal:offset"] if nrm is not None and float(np.abs((ps.lo + ps.hi) / 2).max()) > 0.1 * ps.diam else []))


# ------------------------------------------------------------------------------------------------
# the same exactly representable point set handed over in another dtype / layout / container


DT_REPRS = ["int64", "int32", "int16", "int8", "uint8", "uint16", "uint32", "uint64", "float32", "float64_readonly", "float64_fortran", "float64_strided", "list"]
_DT_MAX = {"int64": 2**53, "int32": 2**31 - 1, "int16": 2**15 - 1, "int8": 127, "uint8": 255, "uint16": 2**16 - 1, "uint32": 2**32 - 1, "uint64": 2**53, "float32": 2**24, "float64_readonly": 2**53, "float64_fortran": 2**53, "float64_strided": 2**53, "list": 2**53}


def dt_values(case):
    """integer coordinates base*step + offset as int64 (|v| <= 2**53, exact in float64)"""
    return np.asarray(case["base"], dtype=np.int64) * int(case["step"]) + np.asarray(case["offset"], dtype=np.int64)


def dt_present(V, rep):
    if rep == "list":
        return [[int(v) for v in row] for row in V.tolist()]
    if rep == "float64_readonly":
        A = V.astype(np.float64)
        A.flags.writeable = False
        return A
    if rep == "float64_fortran":
        return np.asfortranarray(V.astype(np.float64))
    if rep == "float64_strided":
        big = np.zeros((len(V) * 2, V.shape[1] * 2), dtype=np.float64)
        big[::2, ::2] = V
        return big[::2, ::2]
    return V.astype(rep)


@body("C16.dtypes")
def b_dtypes(case, ctx):
    rep = case["rep"]
    V = dt_values(case)
    P = V.astype(np.float64)
    ps = PS(P)
    d = ps.d
    A0 = dt_present(V, rep)
    back = np.asarray(A0, dtype=np.float64)
    if not (np.array_equal(back, P) and in_generated_domain(ps)):
        ctx.note(cls="dt:skipped")
        return
    sb = f"C16.dtypes|{rep}|d={d}"
    snap = None if rep == "list" else np.asarray(A0).copy()

    def arg():
        return dt_present(V, rep)

    def untouched(A, who):
        if isinstance(A, np.ndarray):
            chk(np.array_equal(A, snap) and A.dtype == snap.dtype, f"{sb}|{who}|input_modified", "the caller's array was changed")

    inp = {r.tobytes() for r in (P + 0.0)}
    # hull_points
    A = arg()
    hp = np.asarray(tc.hull_points(A), dtype=np.float64)
    untouched(A, "hull_points")
    chk(all(r.tobytes() in inp for r in (hp + 0.0)), f"{sb}|hull_points|subset", "hull_points returned a point that is not an input point")
    chk(float(np.abs(hp.min(axis=0) - ps.lo).max()) <= ps.tol and float(np.abs(hp.max(axis=0) - ps.hi).max()) <= ps.tol, f"{sb}|hull_points|bounds", "")
    # oriented boxes
    A = arg()
    T, ext = obb_guarded(lambda: tb.oriented_bounds(A), ps, f"{rep}|oriented_bounds")
    untouched(A, "oriented_bounds")
    box_clauses(ps, T, ext, sb, "oriented_bounds")
    if d == 2:
        A = arg()
        T, ext = tb.oriented_bounds_2D(A)
        untouched(A, "oriented_bounds_2D")
        box_clauses(ps, T, ext, sb, "oriented_bounds_2D")
    # sphere: same predicates, and the same radius as for the float64 array
    A = arg()
    c, r = guarded(lambda: tn.minimum_nsphere(A), "C16.dtypes", f"{rep}|minimum_nsphere")
    untouched(A, "minimum_nsphere")
    sphere_clauses(ps, c, r, sb, "minimum_nsphere", False)
    c64, r64 = guarded(lambda: tn.minimum_nsphere(P.copy()), "C16.dtypes", "float64|minimum_nsphere")
    chk(abs(float(r) - float(r64)) <= 1e-9 * float(r64) + ps.tol, f"{sb}|minimum_nsphere|same_as_float64", lambda: f"radius {float(r)} vs {float(r64)} for the float64 array")
    if d == 3:
        A = arg()
        hull = tc.convex_hull(A)
        untouched(A, "convex_hull")
        hull_clauses(ps, hull, rep, sigbase="C16.dtypes|convex_hull")
        A = arg()
        res = guarded(lambda: tb.minimum_cylinder(A), "C16.dtypes", f"{rep}|minimum_cylinder")
        untouched(A, "minimum_cylinder")
        cylinder_clauses(ps, res["transform"], res["radius"], res["height"], sb, "minimum_cylinder")
        A = arg()
        pc = trimesh.PointCloud(A)
        b = np.asarray(pc.bounds)
        chk(np.array_equal(b[0], ps.lo) and np.array_equal(b[1], ps.hi), f"{sb}|PointCloud.bounds|exact", lambda: f"{b.tolist()}")
        _primitive_clauses(ps, obb_guarded(lambda: pc.bounding_box_oriented, ps, f"{rep}|bounding_box_oriented"), sb, "PointCloud.bounding_box_oriented")
        _primitive_clauses(ps, guarded(lambda: pc.bounding_sphere, "C16.dtypes", f"{rep}|bounding_sphere"), sb, "PointCloud.bounding_sphere")
        hull_clauses(ps, pc.convex_hull, rep, sigbase="C16.dtypes|PointCloud.convex_hull")
        untouched(A, "PointCloud")
    mag = float(np.abs(V).max()) / _DT_MAX[rep]
    ctx.note(nontrivial=len(ps.U) >= 5, cls=[f"dt:{rep}", f"dt:d={d}", "dt:mag=" + ("full" if mag > 0.4 else "sqrt" if mag > 1e-6 and float(np.abs(V).max()) ** 2 > _DT_MAX[rep] else "small")])


# ------------------------------------------------------------------------------------------------
# strategies


@st.composite
def pts_case(draw, d=3, srcs=("points", "cloud"), nmax=300):
    spec = draw(G.point_spec(d=d, nmax=nmax))
    # flat sets are not also shrunk: a set 1e-6 thin at scale 1e-3 has distinct vertices closer than the documented
    # absolute tol.merge=1e-8, which trimesh treats as one vertex (ASSUMPTIONS)
    if spec.get("flat") and spec.get("scale", 1.0) < 1.0:
        spec["scale"] = 1.0
    return {"src": draw(st.sampled_from(list(srcs))) if d == 3 else "points", "spec": spec}


@st.composite
def mesh_case(draw, max_parts=1, kinds=None, flat=True):
    ms = draw(GM.mesh_spec(kinds=kinds, max_parts=max_parts, lattice=False))
    pl = draw(G.placement(3, allow_flat=flat))
    if pl.get("flat") and pl.get("scale", 1.0) < 1.0:
        pl["scale"] = 1.0
    return {"src": "mesh", "mesh": ms, "place": pl}


@st.composite
def any3(draw, mesh_weight=1):
    if draw(st.integers(0, 3)) < mesh_weight:
        return draw(mesh_case())
    return draw(pts_case(3))


@st.composite
def seq_case(draw):
    c = draw(any3(mesh_weight=2))
    if c["src"] == "points":
        c["src"] = "cloud"
    # a permutation of all queries: every ordered pair (earlier, later) of queries is reached
    c["order"] = list(draw(st.permutations(list(range(len(SEQ_QUERIES))))))
    # then transform the same object in place (rigid, similarity, mirror, negative uniform, anisotropic, signed
    # per-axis scale, translation) and ask again: a drawn subset of the queries, the cached ones first in line
    then = []
    for _ in range(draw(st.integers(0, 2))):
        if draw(st.integers(0, 4)) == 0:
            d = [draw(st.sampled_from([1.0, -1.0])) * draw(st.sampled_from([1.0, 0.5, 2.0, 0.1, 7.0])) for _ in range(3)]
            M = np.diag(d + [1.0])
            M[:3, 3] = [draw(st.sampled_from([0.0, 1.0, -3.5])) for _ in range(3)]
            T = {"cls": "axis_scale_neg" if d[0] * d[1] * d[2] < 0 else "axis_scale", "M": M.tolist()}
        else:
            T = draw(GMx.matrix(classes=["translation", "rigid", "similarity", "mirror", "neg_uniform", "anisotropic"]))
            T = {"cls": T["cls"], "M": T["M"]}
        k = draw(st.integers(3, 7))
        then.append({"T": T, "order": list(draw(st.permutations(list(range(len(SEQ_QUERIES))))))[:k]})
    if then:
        c["then"] = then
    return c


@st.composite
def options_case(draw):
    if draw(st.integers(0, 5)) == 0:
        c = draw(pts_case(2))
        c["opt"] = {"qhull2d": draw(st.sampled_from([None, "QbB", "", "Pp", "QbB Pp"]))}
        return c
    c = draw(any3(mesh_weight=1))
    opt = {}
    if draw(st.booleans()):
        opt["angle_digits"] = draw(st.sampled_from([0, 1, 2, 3]))
    if draw(st.booleans()):
        opt["ordered"] = draw(st.booleans())
    if draw(st.integers(0, 2)) > 0:
        # axis directions, face diagonals and arbitrary directions (normalised in the body)
        opt["normal"] = draw(
            st.one_of(
                st.sampled_from([[0.0, 0.0, 1.0], [1.0, 0.0, 0.0], [0.0, -1.0, 0.0], [1.0, 1.0, 0.0], [1.0, -2.0, 2.0]]),
                st.lists(st.floats(-1, 1, allow_nan=False), min_size=3, max_size=3).filter(lambda v: sum(x * x for x in v) > 1e-2),
            )
        )
    if draw(st.integers(0, 2)) == 0:
        opt["sample_count"] = draw(st.sampled_from([2, 3, 4, 5, 6, 8]))
        if draw(st.booleans()):
            opt["angle_tol"] = draw(st.sampled_from([1e-1, 1e-2, 1e-3, 1e-4]))
    if draw(st.integers(0, 2)) == 0:
        opt["hull"] = draw(st.sampled_from(QH_HULL_OPTIONS))
    if draw(st.integers(0, 3)) == 0:
        opt["hull_points"] = draw(st.sampled_from(["QbB Pp", "Pp", "QbB", ""]))
    c["opt"] = opt
    return c


@st.composite
def dtypes_case(draw):
    d = draw(st.sampled_from([2, 2, 3]))
    rep = draw(st.sampled_from(DT_REPRS))
    k = draw(st.sampled_from([2, 3, 4, 6, 9]))
    n = draw(st.integers(d + 2, 30))
    base = [[draw(st.integers(0, k - 1)) for _ in range(d)] for _ in range(n)]
    T = _DT_MAX[rep]
    signed = not rep.startswith("uint")
    # coordinate magnitudes: small; around sqrt(max) (squares / products leave the dtype); the whole range
    span = draw(st.sampled_from(["small", "sqrt", "sqrt", "half", "full"]))
    if span == "small":
        step = 1
    elif span == "sqrt":
        step = max(1, int(draw(st.sampled_from([0.7, 1.5, 4.0])) * (T**0.5)) // max(1, k - 1))
    elif span == "half":
        step = max(1, (T // 2) // max(1, k - 1))
    else:
        step = max(1, T // max(1, k - 1))
    step = min(step, T // max(1, k - 1))
    hi = step * (k - 1)
    if signed and draw(st.booleans()):
        off = [-(hi // 2)] * d if span == "full" else [draw(st.sampled_from([0, -(hi // 2), -min(hi, T - hi) if hi <= T else 0])) for _ in range(d)]
    else:
        off = [0] * d if span == "full" else [draw(st.sampled_from([0, (T - hi)])) for _ in range(d)]
    return {"rep": rep, "base": base, "step": int(step), "offset": [int(o) for o in off]}


@st.composite
def box_case(draw):
    k = draw(st.integers(0, 9))
    if k <= 1:
        c = draw(pts_case(2))
    elif k == 2:
        # exactly coplanar 3-D points: a 2-D set embedded in an axis plane (or rotated about z)
        spec = draw(G.point_spec(d=2, nmax=60))
        spec.pop("flat", None)
        spec.pop("flat_axis", None)
        spec["scale"] = min(max(spec.get("scale", 1.0), 1e-2), 1e3)
        return {"src": draw(st.sampled_from(["points", "cloud"])), "planar3": True, "spec": spec, "axis": draw(st.integers(0, 2)), "level": draw(st.sampled_from([0.0, 1.0, -2.5]))}
    else:
        c = draw(any3())
    if c["src"] != "points" or c["spec"]["d"] == 3:
        c["unordered"] = draw(st.integers(0, 4)) == 0
    return c


# ------------------------------------------------------------------------------------------------
# sub-checks


@subcheck("C16", "hull", shards={"quick": 4, "thorough": 16})
def s_hull(ctx):
    ctx.given("C16.hull", any3(), n={"quick": 2400, "thorough": 60000})


@subcheck("C16", "is_convex", shards={"quick": 1, "thorough": 4})
def s_is_convex(ctx):
    ctx.given("C16.is_convex", mesh_case(max_parts=2, flat=False), n={"quick": 500, "thorough": 10000})


@subcheck("C16", "box", shards={"quick": 4, "thorough": 16})
def s_box(ctx):
    ctx.given("C16.box", box_case(), n={"quick": 2400, "thorough": 60000})


@subcheck("C16", "sphere", shards={"quick": 3, "thorough": 16})
def s_sphere(ctx):
    ctx.given("C16.sphere", st.one_of(any3(), pts_case(2)), n={"quick": 1800, "thorough": 50000})


@subcheck("C16", "cylinder", shards={"quick": 4, "thorough": 16})
def s_cylinder(ctx):
    ctx.given("C16.cylinder", any3(mesh_weight=2), n={"quick": 500, "thorough": 16000})


@subcheck("C16", "options", shards={"quick": 3, "thorough": 16})
def s_options(ctx):
    ctx.given("C16.options", options_case(), n={"quick": 900, "thorough": 30000})


@subcheck("C16", "dtypes", shards={"quick": 3, "thorough": 16})
def s_dtypes(ctx):
    ctx.given("C16.dtypes", dtypes_case(), n={"quick": 900, "thorough": 30000})


@subcheck("C16", "sequence", shards={"quick": 4, "thorough": 16})
def s_sequence(ctx):
    ctx.given("C16.sequence", seq_case(), n={"quick": 240, "thorough": 8000})


def _cube_subsets():
    corners = list(itertools.product((0.0, 1.0), repeat=3))
    for mask in range(1, 256):
        pts = [list(corners[i]) for i in range(8) if mask >> i & 1]
        if len(pts) >= 4:
            yield pts


def _grid_subsets():
    cells = list(itertools.product((0.0, 1.0, 2.0), repeat=2))
    for mask in range(1, 512):
        pts = [list(cells[i]) for i in range(9) if mask >> i & 1]
        if len(pts) >= 3:
            yield pts


@subcheck("C16", "ties_enum", shards={"quick": 2, "thorough": 2})
def s_ties(ctx):
    def cube(src, extra):
        for pts in _cube_subsets():
            yield {"src": src, "spec": dict({"d": 3, "kind": "explicit", "pts": pts}, **extra)}

    def grid(extra):
        for pts in _grid_subsets():
            yield {"src": "points", "spec": dict({"d": 2, "kind": "explicit", "pts": pts}, **extra)}

    far = {"scale": 1e-2, "offset": [1e6, -1e6, 0.37e6]}
    ctx.enumerate("C16.hull", itertools.chain(cube("points", {}), cube("cloud", far)), label="hull_all_subsets_of_cube_corners")
    ctx.enumerate("C16.box", itertools.chain(cube("cloud", {}), cube("points", far)), label="box_all_subsets_of_cube_corners")
    ctx.enumerate("C16.box", itertools.chain(grid({}), grid({"rot": 7, "scale": 1e3})), label="box2d_all_subsets_of_3x3_grid")
    def grid3(axis):
        for pts in _grid_subsets():
            yield {"src": "points", "planar3": True, "axis": axis, "level": 1.0, "spec": {"d": 2, "kind": "explicit", "pts": pts}}

    ctx.enumerate("C16.box", itertools.chain(grid3(0), grid3(2)), label="box_planar3_all_subsets_of_3x3_grid_in_two_axis_planes")
    ctx.enumerate("C16.sphere", itertools.chain(cube("points", {}), grid({}), grid(far)), label="sphere_all_subsets_of_cube_corners_and_3x3_grid")
    ctx.enumerate("C16.cylinder", cube("cloud", {}), label="cylinder_all_subsets_of_cube_corners")


REQUIRED_CLASSES["C16"] = [
    "hull:d3:gauss",
    "hull:d3:lattice",
    "hull:d3:lattice_shell",
    "hull:d3:cluster",
    "hull:d3:explicit",
    "hull:src=mesh",
    "hull:src=cloud",
    "hull:flat:rot",
    "hull:flat:axis",
    "hull:scale:small",
    "hull:scale:large",
    "hull:offset:1e6",
    "box:d2:lattice",
    "box:d2:gauss",
    "box:src=mesh",
    "box:src=cloud",
    "box:planar3",
    "box:offset:1e6",
    "box:flat:rot",
    "sphere:d3:general:support=4",
    "sphere:d2:general:support=3",
    "sphere:d3:not_general",
    "sphere:src=mesh",
    "cyl:src=mesh",
    "cyl:src=cloud",
    "cyl:src=points",
    "opt:normal:offset",
    "opt:angle_digits",
    "opt:ordered",
    "opt:sample_count",
    "opt:hull_options",
    "dt:int32",
    "dt:int16",
    "dt:uint8",
    "dt:float32",
    "dt:list",
    "dt:float64_readonly",
    "dt:mag=full",
    "hull:scale:tiny",
    "box:scale:tiny",
    "box:needle",
    "seq:transform=mirror",
    "seq:transform=neg_uniform",
    "seq:transform=similarity",
    "seq:src=mesh",
    "seq:src=cloud",
    "seq:first=bounding_sphere",
    "seq:first=convex_hull",
    "is_convex:reflex",
    "is_convex:convex",
    "is_convex:multibody",
]
