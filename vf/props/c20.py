"""C20 — loading arbitrary or corrupted bytes terminates with a clean outcome (level: fault_enumeration).

Every input is loaded in an isolated worker process (vf/c20_worker.py) under an address-space limit and a CPU
timer; the driver only looks at the *outcome*: returned / raised an ordinary exception, CPU time, peak memory,
descriptor table afterwards.  A worker that stops answering is killed and the case is re-run alone twice with a
doubled budget before it counts as a hang."""

import json
import os
import select
import subprocess
import sys
import time

from hypothesis import strategies as st

from .. import c20_common as cc
from ..core import ASSUMPTIONS, HOME, LEVELS, REQUIRED_CLASSES, RULES, HarnessError, Violation, body, check, subcheck

LEVELS["C20"] = "fault_enumeration"
RULES["C20"] = (
    "Seeds: small valid files produced by the exporters of the tree under test (stl, stl_ascii, ply binary/ascii, off, "
    "obj, glb, gltf with embedded buffer, 3mf, dae, xyz, binvox, dxf, svg, zip) plus small bundled models (off, obj, ply, "
    "glb, stl, 3dxml, xaml, xyz, zip). Faults, systematic first: truncation at every offset (stride for larger files), "
    "single-byte faults at every (strided) position x {0x00,0xFF,^0x80,'-',' ',newline,'9','{',+1,-1}, every aligned 4-byte "
    "word set to 0xFFFFFFFF / 0x7FFFFFFF / 0, every ascii integer replaced by 0 / 2^32-1 / 10^12 / a negative number, "
    "chunk delete / duplicate / swap, chunk repetition (input growth), splices of two seeds; then generated: arbitrary "
    "byte strings and random fault combinations (Hypothesis). Each input is offered to load / load_mesh / load_scene / "
    "load_path as a stream and by path in an isolated worker. Oracle: outcome is 'returned' or 'raised an Exception' "
    "(BaseException, MemoryError, RecursionError, worker death are violations); CPU <= 5 s + 2 ms/byte (confirmed alone, "
    "twice, budget doubled); peak memory growth <= 64 MiB + 2000 x len(input); descriptor table unchanged afterwards. "
    "Non-trivial: a mutated input that differs from its seed and reaches a parser (outcome frame inside a format module or "
    "a successful load); distinct by case."
)
ASSUMPTIONS["C20"] = [
    "termination is decided up to the stated CPU budget (5 s + 2 ms/byte; valid seeds load in < 50 ms)",
    "loaders backed by third-party parsers (meshio family, cascadio STEP, openctm) are not fuzzed: a hang inside those libraries is not decidable against this repository",
    "coverage-guided fuzzing (atheris) is not used: it is not importable in /venv and numpy/lxml/json parsers give it no coverage signal; the systematic fault grid carries the weight",
    "descriptor check ignores pipes, sockets and anonymous inodes (the worker's own plumbing)",
]

WALL_SLACK = 20.0


class Worker:
    def __init__(self):
        self.p = None
        self.info = None

    def start(self):
        env = dict(os.environ)
        cwd = os.getcwd()
        self.p = subprocess.Popen([sys.executable, "-m", "vf.c20_worker"], stdin=subprocess.PIPE, stdout=subprocess.PIPE, stderr=subprocess.DEVNULL, env=env, cwd=cwd, text=True, bufsize=1)
        line = self._read(120.0)
        if line is None:
            raise HarnessError("C20 worker did not start")
        self.info = json.loads(line)

    def _read(self, timeout):
        end = time.time() + timeout
        fd = self.p.stdout.fileno()
        while True:
            left = end - time.time()
            if left <= 0:
                return None
            r, _, _ = select.select([fd], [], [], min(left, 1.0))
            if r:
                line = self.p.stdout.readline()
                if line == "":
                    return ""  # EOF: worker died
                return line
            if self.p.poll() is not None:
                return ""

    def run(self, case, wall):
        if self.p is None or self.p.poll() is not None:
            self.start()
        try:
            self.p.stdin.write(json.dumps(case) + "\n")
            self.p.stdin.flush()
        except (BrokenPipeError, OSError):
            rc = self.p.poll()
            self.kill()
            return {"status": "died", "returncode": rc}
        line = self._read(wall)
        if line is None:
            self.kill()
            return {"status": "no_answer"}
        if line == "":
            rc = self.p.poll()
            self.kill()
            return {"status": "died", "returncode": rc}
        return json.loads(line)

    def kill(self):
        if self.p is not None:
            try:
                self.p.kill()
                self.p.wait(timeout=10)
            except BaseException:  # noqa
                pass
        self.p = None


_WORKER = Worker()


def budget(n):
    return 5.0 + 0.002 * n


def classify_fault(case):
    return case["fault"][0]


@body("C20.load")
def b_load(case, ctx):
    fmt = case["fmt"]
    data = cc.build_input(case)
    n = len(data)
    cpu = budget(n)
    res = _WORKER.run(case, wall=4 * cpu + WALL_SLACK)
    fk = classify_fault(case)
    sigp = f"C20|fmt={fmt}"
    ent = f"entry={case['entry']} via_path={case['via_path']}: "
    if res["status"] in ("no_answer", "cpu_timeout"):
        # confirm alone, twice, with the budget doubled; anything else is inconclusive, never a violation
        confirmed = 0
        answered = None
        for _ in range(2):
            w = Worker()
            c2 = dict(case, cpu_budget=2 * cpu)
            r2 = w.run(c2, wall=8 * cpu + WALL_SLACK)
            w.kill()
            if r2["status"] in ("no_answer", "cpu_timeout"):
                confirmed += 1
            elif r2["status"] != "died":
                answered = r2
        if confirmed == 2:
            raise Violation(sigp + f"|hang|fault={fk}", ent + f"no result within 2 x (5 s + 2 ms/byte) CPU for a {n} byte input ({res['status']}); fault {case['fault'][:3]}")
        if answered is None:
            ctx.note(cls="inconclusive:slow_once")
            return
        # the longer run did answer (e.g. a loader that grows until the address-space limit stops it): judge that answer
        # by everything except the time budget, which it was given twice
        res = dict(answered, cpu_s=0.0)
        ctx.note(cls="answered_with_doubled_budget")
    if res["status"] == "died":
        # re-run once in a fresh worker to make sure the death belongs to this input
        w = Worker()
        r2 = w.run(case, wall=4 * cpu + WALL_SLACK)
        w.kill()
        if r2["status"] == "died":
            raise Violation(sigp + f"|interpreter_died|rc={r2.get('returncode')}|fault={fk}", ent + f"the worker process died (return code {r2.get('returncode')}) while loading a {n} byte input")
        res = r2
        if res["status"] in ("no_answer", "cpu_timeout"):
            ctx.note(cls="inconclusive:slow_once")
            return
    seeds = cc.seeds().get(fmt, [b""])
    differs = data not in seeds
    frame = res.get("frame")
    in_parser = res["status"] == "ok" or (frame is not None and ("exchange" in frame[0] or "path/" in frame[0] or "voxel" in frame[0] or "util.py" in frame[0]))
    ctx.note(nontrivial=differs and in_parser, cls=[f"fmt:{fmt}", f"fault:{fk}", f"outcome:{res['status']}:{res.get('exc', res.get('kind', ''))}"[:60]])
    if res["status"] == "exception" and not res.get("base", True):
        raise Violation(sigp + f"|bad_exception|{res['exc']}|{(frame or ['?', '?'])[0]}:{(frame or ['?', '?'])[1]}", ent + f"{res['exc']}: {res.get('msg', '')} for a {n} byte input; fault {case['fault'][:3]}")
    limit_kb = 64 * 1024 + 2000 * n // 1024 + 1
    if res.get("peak_kb", 0) > limit_kb:
        raise Violation(sigp + f"|memory|fault={fk}", ent + f"peak memory grew by {res['peak_kb']} kB for a {n} byte input (limit {limit_kb} kB); fault {case['fault'][:3]}")
    # address space requested for one load (buffers sized by a corrupt length field are requested before they are
    # touched): the process-wide peak of the virtual size may not jump by more than 512 MiB + 2000 x input
    if res.get("vm_peak_growth_kb", 0) > 512 * 1024 + limit_kb:
        raise Violation(sigp + f"|memory|address_space|fault={fk}", ent + f"the peak virtual size grew by {res['vm_peak_growth_kb']} kB for a {n} byte input; fault {case['fault'][:3]}")
    if res.get("fd_leak"):
        raise Violation(
            sigp + f"|descriptor_left_open|outcome={res['status']}|via_path={case['via_path']}|gc_closes={not res.get('fd_leak_after_gc')}",
            ent + f"after the load returned ({res['status']} {res.get('exc', '')}) these descriptors were still open: {res['fd_leak']}",
        )
    if res.get("resource_warnings"):
        raise Violation(
            sigp + f"|file_closed_only_by_gc|outcome={res['status']}|via_path={case['via_path']}",
            ent + f"the loader left a file object to the garbage collector ({res['status']} {res.get('exc', '')}): {res['resource_warnings'][0]}",
        )
    if res.get("cpu_s", 0) > cpu:
        raise Violation(sigp + f"|slow|fault={fk}", ent + f"{res['cpu_s']} s CPU for a {n} byte input (budget {cpu:.2f})")


# ------------------------------------------------------------------------------- fault grids


def entries_for(fmt):
    if fmt in cc.PATH_FORMATS:
        return ["load_path", "load"]
    if fmt == "binvox":
        return ["load"]
    return ["load", "load_scene", "load_mesh"]


def systematic_cases(tier):
    S = cc.seeds()
    quick = tier == "quick"
    for fmt in sorted(S):
        ents = entries_for(fmt)
        for si, data in enumerate(S[fmt]):
            n = len(data)
            if quick and si >= 2 and not (fmt in ("dxf", "glb") and si >= len(S[fmt]) - 3):
                continue
            k = 0

            def mk(fault, heavy=False):
                nonlocal k
                k += 1
                # rotate entry points and transports over the grid; every 7th case goes through a file path
                return {"fmt": fmt, "seed": si, "fault": fault, "entry": ents[k % len(ents)], "via_path": (k % 7 == 0)}

            yield {"fmt": fmt, "seed": si, "fault": ["none"], "entry": ents[0], "via_path": False}
            yield {"fmt": fmt, "seed": si, "fault": ["none"], "entry": ents[-1], "via_path": True}
            # truncations
            step = 1 if (n <= 4096 and not quick) else max(1, n // (60 if quick else 2000))
            for i in list(range(0, n, step)) + [max(n - 1, 0), max(n - 2, 0), max(n - 4, 0)]:
                yield mk(["truncate", i])
            # single byte faults
            step = max(1, n // (30 if quick else 1500)) if (quick or n > 4096) else 1
            vals = [0xFF, "xor80", 0x2D] if quick else cc.BYTE_VALUES + ["xor80", "inc", "dec"]
            for i in range(0, n, step):
                for v in vals:
                    yield mk(["byte", i, v])
            # the first 160 bytes (headers, magic, counts) always completely
            for i in range(0, min(n, 90 if quick else 400)):
                for v in ((0x00, "xor80", 0x39) if quick else (0x00, 0xFF, "xor80", "inc", 0x39, 0x2D)):
                    yield mk(["byte", i, v])
            # aligned words
            step = max(1, (n // 4) // (25 if quick else 1000))
            for i in range(0, n // 4, step):
                for w in (0xFFFFFFFF, 0x7FFFFFFF, 0):
                    yield mk(["word", i, w])
            for i in range(0, min(n // 4, 30 if quick else 60)):
                for w in ((0xFFFFFFFF, 0x7FFFFFFF, 0x80000000) if quick else (0xFFFFFFFF, 0x7FFFFFFF, 0, 0x00FFFFFF, 0x80000000)):
                    yield mk(["word", i, w])
            # directories at the END of a container (zip central directory, trailing tables) hold the size fields that
            # are trusted before a read: the last words completely, through both transports (a real file object
            # allocates what is asked for, a memory stream does not)
            for i in range(max(0, n // 4 - (40 if quick else 120)), n // 4):
                for w in (0x7FFFFFFF, 0xFFFFFFFF):
                    for vp in (False, True):
                        c = mk(["word", i, w])
                        c["via_path"] = vp
                        yield c
            # pairs of aligned words in the first 32 bytes: length fields that bound each other (file length vs chunk
            # length, header size vs count); both transports, since some bounds are taken from the file on disk
            nw = min(n // 4, 8)
            pair_vals = (0xFFFFFFFF, 0x7FFFFFFF) if quick else (0xFFFFFFFF, 0x7FFFFFFF, 0x7FFFF0FF, 0x00FFFFFF)
            for i in range(nw):
                for j in range(i + 1, nw):
                    for wi in pair_vals:
                        for wj in pair_vals:
                            for vp in (False, True):
                                c = mk(["multi", ["word", i, wi], ["word", j, wj]])
                                c["via_path"] = vp
                                yield c
            # small integer tokens (indices into other tables: node children, accessor / buffer view / material
            # references, face indices): +-1 keeps the syntax valid and changes the structure (cycles, dangling refs)
            import re as _re

            ntok = len(_re.findall(rb"(?<![\d.\-+eE])\d(?![\d.eE])", data))
            tstep = max(1, ntok // 150) if quick else 1
            for j in range(0, ntok, tstep):
                for d in ((1, -1) if quick else (1, -1, 2, 5)):
                    yield mk(["small_int", j, d])
            # documents inside zip containers: the archive is rebuilt around the corrupted member
            if data[:2] == b"PK":
                import io as _io
                import zipfile as _zf

                try:
                    members = [(nm, _zf.ZipFile(_io.BytesIO(data)).read(nm)) for nm in _zf.ZipFile(_io.BytesIO(data)).namelist()][:8]
                except Exception:  # noqa
                    members = []
                for j, (nm, payload) in enumerate(members):
                    mtok = len(_re.findall(rb"(?<![\d.\-+eE])\d(?![\d.eE])", payload))
                    for t in range(0, mtok, max(1, mtok // (40 if quick else 400))):
                        for d in (1, -1):
                            yield mk(["zip_member", j, ["small_int", t, d]])
                    ln = len(payload)
                    for i in range(0, ln, max(1, ln // (12 if quick else 200))):
                        yield mk(["zip_member", j, ["truncate", i]])
                        yield mk(["zip_member", j, ["byte", i, "xor80"]])
                        yield mk(["zip_member", j, ["byte", i, 0x39]])
                    for i in range(0, 8 if quick else 60):
                        yield mk(["zip_member", j, ["line_digit", i, 4294967295]])
            # the JSON document inside a GLB container, re-framed after the fault
            if data[:4] == b"glTF" and n >= 20:
                import struct as _struct

                jl = _struct.unpack("<I", data[12:16])[0]
                js = data[20 : 20 + jl]
                jruns = len(_re.findall(rb"\d+", js))
                for i in range(0, jruns, max(1, jruns // (120 if quick else 100000))):
                    for v in ((100000, 4294967295) if quick else (100000, 4294967295, 0, -7, 16200000)):
                        yield mk(["glb_json", ["line_digit", i, v]])
                jtok = len(_re.findall(rb"(?<![\d.\-+eE])\d(?![\d.eE])", js))
                for t in range(0, jtok, max(1, jtok // (60 if quick else 100000))):
                    for d in (1, -1):
                        yield mk(["glb_json", ["small_int", t, d]])
                for i in range(0, len(js), max(1, len(js) // (10 if quick else 200))):
                    yield mk(["glb_json", ["truncate", i]])
                    yield mk(["glb_json", ["delete", i, 8]])
            # ascii integers
            for i in range(0, 16 if quick else 200):
                for v in ((0, 4294967295, -7) if quick else (0, 4294967295, 10**12, -7, 99999999)):
                    yield mk(["line_digit", i, v])
            # ... and numbers anywhere in a text document (radii, angles, counts deep inside the file), spread evenly
            nruns = len(_re.findall(rb"\d+", data)) if data[:2] != b"PK" else 0
            for i in range(16, nruns, max(1, nruns // (80 if quick else 2000))):
                for v in ((100000, 4294967295) if quick else (100000, 4294967295, 0, -7)):
                    yield mk(["line_digit", i, v])
            # chunks
            for i in range(0, n, max(1, n // (8 if quick else 100))):
                for ln in ((4, 64) if quick else (1, 4, 16, 64)):
                    yield mk(["delete", i, ln])
                    yield mk(["duplicate", i, ln])
                yield mk(["swap", i, (i * 7 + 13) % max(n, 1), 8])
                yield mk(["repeat", i, 16, 2000])
            for i in range(0, n, max(1, n // (6 if quick else 40))):
                for j in (0, 3, 17):
                    yield mk(["splice", i, i + j, j])


@st.composite
def random_case(draw):
    S = cc.seeds()
    fmt = draw(st.sampled_from(sorted(S)))
    kind = draw(st.sampled_from(["raw", "raw_prefix", "multi"]))
    ents = entries_for(fmt)
    case = {"fmt": fmt, "seed": draw(st.integers(0, 5)), "entry": draw(st.sampled_from(ents)), "via_path": draw(st.booleans())}
    if kind == "raw":
        case["fault"] = ["raw", draw(st.binary(max_size=200)).hex()]
    elif kind == "raw_prefix":
        data = S[fmt][case["seed"] % len(S[fmt])]
        head = data[: draw(st.integers(0, min(len(data), 120)))]
        case["fault"] = ["raw", (head + draw(st.binary(max_size=120))).hex()]
    else:
        k = draw(st.sampled_from(["truncate", "byte", "word", "delete", "duplicate", "line_digit", "splice"]))
        i = draw(st.integers(0, 10**6))
        if k == "truncate":
            case["fault"] = [k, i]
        elif k == "byte":
            case["fault"] = [k, i, draw(st.integers(0, 255))]
        elif k == "word":
            case["fault"] = [k, i, draw(st.sampled_from([0xFFFFFFFF, 0x7FFFFFFF, 0, 1, 0x10000, 0xFFFF]))]
        elif k == "line_digit":
            case["fault"] = [k, i, draw(st.sampled_from([0, -1, 2**31, 2**32, 10**15, 10**6]))]
        elif k == "splice":
            case["fault"] = [k, i, draw(st.integers(0, 10**6)), draw(st.integers(0, 3))]
        else:
            case["fault"] = [k, i, draw(st.sampled_from([1, 2, 4, 8, 32, 128]))]
    return case


SCALING_FORMATS = ["off", "obj", "ply_ascii", "ply", "stl", "stl_ascii", "glb"]


def scaling_cases(tier):
    for fmt in SCALING_FORMATS:
        text = fmt in ("off", "obj", "ply_ascii", "stl_ascii")
        faults = [["none"]]
        if text:
            for f in (0.55, 0.8, 0.97):
                for tok in (2, 4, "x"):
                    faults.append(["frac_token", f, tok])
        for f in (0.3, 0.6, 0.9):
            faults.append(["frac_byte", f, "xor80"])
            faults.append(["frac_byte", f, 0x39])
        if tier == "quick":
            faults = faults[:1] + faults[1::2]
        for fault in faults:
            yield {"fmt": fmt, "fault": fault}


@body("C20.scaling")
def b_scaling(case, ctx):
    """time and memory stay proportional to the input: the same relative fault in a file of N and of 4 N faces"""
    fmt, fault = case["fmt"], case["fault"]
    res = []
    for level in (5, 6):
        c = {"fmt": fmt, "seed": 0, "fault": fault, "entry": "load", "via_path": False, "big": level, "cpu_budget": 240.0}
        r = _WORKER.run(c, wall=600)
        if r["status"] in ("no_answer", "died"):
            w = Worker()
            r = w.run(c, wall=900)
            w.kill()
        res.append(r)
    small, large = res
    ctx.note(nontrivial=fault[0] != "none", cls=[f"scaling:{fmt}", f"scaling:fault={fault[0]}", f"scaling:outcome={large['status']}"])
    sigp = f"C20.scaling|fmt={fmt}"
    if large["status"] in ("no_answer", "cpu_timeout", "died"):
        raise Violation(sigp + f"|hang|fault={fault[0]}", f"no result for the {large.get('n')} byte input within 240 s CPU ({large['status']}); the {small.get('n')} byte input took {small.get('cpu_s')} s; fault {fault}")
    if large["status"] == "exception" and not large.get("base", True):
        raise Violation(sigp + f"|bad_exception|{large['exc']}", f"{large['exc']}: {large.get('msg', '')}; fault {fault}")
    t1, t4 = float(small.get("cpu_s", 0.0)), float(large.get("cpu_s", 0.0))
    n1, n4 = max(int(small.get("n", 1)), 1), max(int(large.get("n", 1)), 1)
    # four times the input may take four times as long (plus constant costs); 12 x and more than 3 s is superlinear
    if t4 > 3.0 and t4 > 3.0 * (n4 / n1) * max(t1, 0.05):
        raise Violation(sigp + f"|superlinear_time|fault={fault[0]}", f"{n1} bytes: {t1} s CPU, {n4} bytes: {t4} s CPU; fault {fault}")
    m1, m4 = int(small.get("peak_kb", 0)), int(large.get("peak_kb", 0))
    if m4 > 64 * 1024 + 2000 * n4 // 1024:
        raise Violation(sigp + f"|memory|fault={fault[0]}", f"peak memory grew by {m4} kB for a {n4} byte input ({m1} kB for {n1} bytes); fault {fault}")


@subcheck("C20", "scaling", shards={"quick": 7, "thorough": 7})
def s_scaling(ctx):
    try:
        ctx.enumerate("C20.scaling", scaling_cases(ctx.tier), label=f"same_relative_fault_at_N_and_4N_{ctx.tier}")
    finally:
        _WORKER.kill()


@subcheck("C20", "systematic", shards={"quick": 12, "thorough": 16})
def s_systematic(ctx):
    try:
        ctx.enumerate("C20.load", systematic_cases(ctx.tier), label=f"systematic_fault_grid_{ctx.tier}")
    finally:
        _WORKER.kill()


@subcheck("C20", "random", shards={"quick": 4, "thorough": 8})
def s_random(ctx):
    try:
        ctx.given("C20.load", random_case(), n={"quick": 2000, "thorough": 60000}, max_shrink_s=60)
    finally:
        _WORKER.kill()


REQUIRED_CLASSES["C20"] = ["fmt:stl", "fmt:ply", "fmt:glb", "fmt:obj", "fmt:3mf", "fmt:dxf", "fmt:svg", "fault:truncate", "fault:word", "fault:line_digit", "fault:multi", "fault:small_int", "fault:zip_member", "fault:glb_json", "scaling:off", "scaling:glb"]
