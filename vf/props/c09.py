"""C09 — scene-graph transforms are the product of the current edges along the path (trimesh/scene/transforms.py).

Model-based: a history of update / re-parent / remove_node / base-frame change / remove_geometries / copy /
edge-list round trip is applied to a real SceneGraph and to a dictionary reference forest; after every step the
transform between every ordered pair of live frames is compared with the explicit product of the model's edge
matrices along the unique path (inverted where an edge is walked child->parent)."""

import math

import numpy as np
from hypothesis import strategies as st

from trimesh.scene.transforms import SceneGraph

from ..core import ASSUMPTIONS, REQUIRED_CLASSES, RULES, Violation, body, check, subcheck
from ..gen import matrices as gm

RULES["C09"] = (
    "Histories (<=14 steps) over a SceneGraph with frame names from a pool of 7 strings + the base frame: "
    "update(frame_to, frame_from, matrix= | quaternion= | axis=,angle= | translation= | rotation+translation, "
    "geometry=...) creating nodes, changing edge matrices or re-parenting (never creating a cycle), "
    "transforms.remove_node, base_frame change, graph[x]=M, remove_geometries, copy (continuing on the copy while the "
    "original must keep its answers), to_edgelist->from_edgelist. Edge matrices are exactly rigid or similarities "
    "with |s-1|>=0.1, updates differ from the stored matrix by >>1e-8. Oracle: dict-of-parent reference forest, "
    "T(from,to)=product of edge matrices along the path, ValueError iff not connected, checked for every ordered "
    "pair after every step (or a drawn subset, to keep caches partly cold), plus T(a,a)=I, T(a,c)=T(a,b)T(b,c), "
    "T(a,b)T(b,a)=I. Non-trivial: a query, then an edge change / re-parent / removal, then a query of a dependent pair."
)
ASSUMPTIONS["C09"] = [
    "histories never create cycles (the structure is documented as a forest)",
    "queries only name frames that exist (get() on an unknown name re-creates an empty node entry through a defaultdict; not asserted either way)",
    "documented numeric shortcuts honoured: identity filter 1e-8, add_edge ignores updates within 1e-8, fix_rigid repair below 1e-5 -> comparisons at atol 1e-9*scale on generated matrices that stay far from those thresholds",
]

NAMES = ["a", "b", "c", "d", "e", "f", "g"]
BASE = "world"


def quat_to_matrix(q):
    w, x, y, z = q
    n = w * w + x * x + y * y + z * z
    s = 2.0 / n
    M = np.eye(4)
    M[:3, :3] = [
        [1 - s * (y * y + z * z), s * (x * y - z * w), s * (x * z + y * w)],
        [s * (x * y + z * w), 1 - s * (x * x + z * z), s * (y * z - x * w)],
        [s * (x * z - y * w), s * (y * z + x * w), 1 - s * (x * x + y * y)],
    ]
    return M


class Model:
    def __init__(self, base=BASE):
        self.parent = {}  # child -> (parent, 4x4)
        self.nodes = []  # insertion ordered
        self.geom = {}
        self.base = base

    def clone(self):
        m = Model(self.base)
        m.parent = {k: (p, M.copy()) for k, (p, M) in self.parent.items()}
        m.nodes = list(self.nodes)
        m.geom = dict(self.geom)
        return m

    def add_node(self, n):
        if n not in self.nodes:
            self.nodes.append(n)

    def ancestors(self, n):
        out = [n]
        while out[-1] in self.parent:
            out.append(self.parent[out[-1]][0])
            if len(out) > 50:
                raise RuntimeError("cycle in model")
        return out

    def world(self, n):
        """product of edge matrices from the root of n's tree down to n"""
        M = np.eye(4)
        chain = self.ancestors(n)
        for c in chain[:-1]:
            M = self.parent[c][1] @ M
        return chain[-1], M

    def T(self, frm, to):
        """transform from frame `frm` to frame `to` or None if not connected: explicit walk up to the
        common ancestor (inverting) and down (forward)"""
        if frm == to:
            return np.eye(4)
        up = self.ancestors(frm)
        down = self.ancestors(to)
        common = [x for x in up if x in down]
        if not common:
            return None
        link = common[0]
        M = np.eye(4)
        # walk from frm up to link: edges (parent -> child) traversed backwards
        for c in up[: up.index(link)]:
            M = M @ np.linalg.inv(self.parent[c][1])
        # walk down from link to `to`
        for c in reversed(down[: down.index(link)]):
            M = M @ self.parent[c][1]
        return M

    def children(self, n):
        return [c for c, (p, _) in self.parent.items() if p == n]

    def successors(self, n):
        out = {n}
        stack = [n]
        while stack:
            for c in self.children(stack.pop()):
                if c not in out:
                    out.add(c)
                    stack.append(c)
        return out

    def remove(self, n):
        for c in self.children(n):
            del self.parent[c]
        self.parent.pop(n, None)
        self.nodes.remove(n)
        self.geom.pop(n, None)


def op_matrix(t):
    """t = transform spec from the case -> (kwargs for update, 4x4 expected)"""
    kind = t["kind"]
    if kind == "matrix":
        M = np.array(t["M"], dtype=np.float64)
        return {"matrix": M.tolist() if t.get("as_list") else M}, M
    if kind == "quaternion":
        q = np.array(t["q"], dtype=np.float64)
        M = quat_to_matrix(q)
        kw = {"quaternion": q}
        if t.get("t") is not None:
            M[:3, 3] += t["t"]
            kw["translation"] = t["t"]
        return kw, M
    if kind == "axis_angle":
        M = np.eye(4)
        M[:3, :3] = gm.rodrigues(t["axis"], t["angle"])
        kw = {"axis": t["axis"], "angle": t["angle"]}
        if t.get("t") is not None:
            M[:3, 3] += t["t"]
            kw["translation"] = t["t"]
        return kw, M
    if kind == "translation":
        M = np.eye(4)
        M[:3, 3] = t["t"]
        return {"translation": t["t"]}, M
    if kind == "none":
        return {}, np.eye(4)
    raise ValueError(kind)


def compare_all(g, m, pairs, where, hist_kinds):
    scale_cache = {}
    for a, b in pairs:
        want = m.T(a, b)
        try:
            got, geom = g.get(frame_to=b, frame_from=a)
        except ValueError:
            if want is not None:
                raise Violation(f"C09|get|raises_but_connected|after={hist_kinds[-1] if hist_kinds else 'init'}", f"{where}: get({b!r}, {a!r}) raised ValueError but the model has a path")
            continue
        if want is None:
            raise Violation(f"C09|get|answers_but_disconnected|after={hist_kinds[-1] if hist_kinds else 'init'}", f"{where}: get({b!r}, {a!r}) returned a matrix but no path exists in the model (history {hist_kinds})")
        tol = 1e-9 * max(1.0, np.abs(want).max())
        if not np.allclose(got, want, rtol=0, atol=tol):
            raise Violation(
                f"C09|get|wrong_matrix|after={hist_kinds[-1] if hist_kinds else 'init'}",
                f"{where}: get({b!r}, {a!r}) differs from path product by {np.abs(got - want).max():.3g} (history {hist_kinds})",
            )
        if geom != m.geom.get(b):
            raise Violation(f"C09|get|geometry_name|after={hist_kinds[-1] if hist_kinds else 'init'}", f"{where}: get({b!r}) geometry {geom!r} != {m.geom.get(b)!r}")


def check_laws(g, m, where):
    nodes = m.nodes
    for a in nodes:
        Ta, _ = g.get(a, a)
        check(np.array_equal(Ta, np.eye(4)), "C09|law|T(a,a)", f"{where}: T({a},{a}) != I")
    for a in nodes:
        for b in nodes:
            if m.T(a, b) is None:
                continue
            Tab, _ = g.get(frame_to=b, frame_from=a)
            Tba, _ = g.get(frame_to=a, frame_from=b)
            s = max(1.0, np.abs(Tab).max() * np.abs(Tba).max())
            check(np.allclose(Tab @ Tba, np.eye(4), rtol=0, atol=1e-9 * s), "C09|law|inverse", f"{where}: T({a},{b})·T({b},{a}) != I")
            for c in nodes:
                if m.T(b, c) is None:
                    continue
                Tbc, _ = g.get(frame_to=c, frame_from=b)
                Tac, _ = g.get(frame_to=c, frame_from=a)
                s = max(1.0, np.abs(Tab).max() * np.abs(Tbc).max())
                check(np.allclose(Tab @ Tbc, Tac, rtol=0, atol=1e-9 * s), "C09|law|composition", f"{where}: T({a},{c}) != T({a},{b})·T({b},{c})")


def check_structure(g, m, where, after):
    check(set(g.nodes) == set(m.nodes), f"C09|nodes|after={after}", f"{where}: nodes {sorted(g.nodes)} != {sorted(m.nodes)}")
    ng = sorted(g.nodes_geometry)
    check(ng == sorted(m.geom), f"C09|nodes_geometry|after={after}", f"{where}: {ng} != {sorted(m.geom)}")
    gn = {k: sorted(v) for k, v in g.geometry_nodes.items()}
    want = {}
    for n, geo in m.geom.items():
        want.setdefault(geo, []).append(n)
    want = {k: sorted(v) for k, v in want.items()}
    check(gn == want, f"C09|geometry_nodes|after={after}", f"{where}: {gn} != {want}")
    ch = {k: sorted(v) for k, v in g.transforms.children.items() if v}
    wantc = {}
    for c, (p, _) in m.parent.items():
        wantc.setdefault(p, []).append(c)
    wantc = {k: sorted(v) for k, v in wantc.items()}
    check(ch == wantc, f"C09|children|after={after}", f"{where}: {ch} != {wantc}")
    for n in m.nodes:
        su = set(g.transforms.successors(n))
        check(su == m.successors(n), f"C09|successors|after={after}", f"{where}: successors({n}) {sorted(su)} != {sorted(m.successors(n))}")
    # parents mapping
    check({c: p for c, (p, _) in m.parent.items()} == dict(g.transforms.parents), f"C09|parents|after={after}", f"{where}: {dict(g.transforms.parents)}")


def check_edgelist(g, m, where, after):
    el = g.to_edgelist()
    # the export must describe exactly the current edges
    got = sorted((a, b) for a, b, _ in el)
    want = sorted((p, c) for c, (p, _) in m.parent.items())
    check(got == want, f"C09|to_edgelist|edges|after={after}", f"{where}: exported edges {got} != current edges {want}")
    g2 = SceneGraph(base_frame=g.base_frame)
    g2.from_edgelist(el)
    m2 = m.clone()
    # isolated nodes cannot be expressed in an edge list
    m2.nodes = [n for n in m.nodes if n in m.parent or m.children(n)]
    # an edge list carries the geometry of a node on the edge *into* it, so it cannot express geometry of a root
    m2.geom = {k: v for k, v in m.geom.items() if k in m.parent}
    for root_with_geometry in [k for k in m.geom if k in m2.nodes and k not in m.parent]:
        g2.transforms.node_data[root_with_geometry].pop("geometry", None)
    pairs = [(a, b) for a in m2.nodes for b in m2.nodes]
    compare_all(g2, m2, pairs, where + " [rebuilt from edge list]", [after + "+edgelist"])


# frame names are arbitrary hashables: plain strings, strings including the empty one, or integers including 0
NAME_SCHEMES = {
    "str": (BASE, NAMES),
    "empty": (BASE, ["", "b", "c", "d", "e", "f", "g"]),
    "int": (0, [1, 2, 3, 4, 5, 6, 7]),
    "int_child0": (100, [0, 2, 3, 4, 5, 6, 7]),
}
_SCHEME = {"base": BASE, "names": NAMES}


def name_of(i):
    return _SCHEME["base"] if i < 0 else _SCHEME["names"][i % len(_SCHEME["names"])]


@body("C09.history")
def b_history(case, ctx):
    _SCHEME["base"], _SCHEME["names"] = NAME_SCHEMES[case.get("names", "str")]
    g = SceneGraph(base_frame=_SCHEME["base"])
    m = Model(_SCHEME["base"])
    kinds = []
    queried = False
    mutated_after_query = False
    nontrivial = False
    originals = []  # (graph, model snapshot) kept under observation after copy()
    for si, op in enumerate(case["ops"]):
        k = op[0]
        where = f"step {si} {k}"
        if k == "update":
            to = name_of(op[1])
            frm = None if op[2] is None else name_of(op[2])
            frm_eff = m.base if frm is None else frm
            if to == frm_eff:
                continue
            # never create a cycle: `to` must not be an ancestor of `frm`
            if frm_eff in m.nodes and to in m.ancestors(frm_eff):
                continue
            old = m.parent.get(to)
            if op[3]["kind"] == "nudge":
                # a small correction of the stored edge: every entry moves by a tiny fraction of its size, but by far
                # more than the documented absolute 1e-8 "unchanged" window
                if old is None or old[0] != frm_eff:
                    continue
                M = old[1].copy()
                M[:3, 3] = M[:3, 3] * (1.0 + op[3]["rel"]) + op[3]["abs"]
                kw = {"matrix": M.copy()}
            else:
                kw, M = op_matrix(op[3])
            if 0 < np.abs(M - np.eye(4)).max() < 1e-6:
                continue  # keep clear of the documented identity filter (1e-8) of SceneGraph.get
            if old is not None and old[0] == frm_eff and 0 < np.abs(old[1] - M).max() < 1e-6:
                continue  # keep clear of the documented 1e-8 "unchanged" shortcut
            geometry = op[4]
            if geometry is not None:
                kw["geometry"] = geometry
            if isinstance(kw.get("matrix"), np.ndarray):
                kw["matrix"] = kw["matrix"].copy()  # the caller's own buffer, distinct from the model's copy
            buf = kw.get("matrix") if isinstance(kw.get("matrix"), np.ndarray) else None
            g.update(frame_to=to, frame_from=frm, **kw)
            if buf is not None:
                # the caller's array stays the caller's: still writeable, and re-using it changes nothing in the graph
                check(buf.flags.writeable, "C09|update|callers_matrix_made_readonly", where)
                buf[:] = buf * 2.0 + 7.0
                kinds.append("update:callers_buffer_reused")
            sub = "create" if to not in m.nodes else ("reparent" if old is not None and old[0] != frm_eff else "root_gets_parent" if old is None else "edge_change")
            m.add_node(frm_eff)
            m.add_node(to)
            m.parent[to] = (frm_eff, M)
            if geometry is not None:
                m.geom[to] = geometry
            kinds.append(f"update:{sub}:{op[3]['kind']}")
            if queried and sub != "create":
                mutated_after_query = True
        elif k == "setitem":
            to = name_of(op[1])
            if to == m.base or (m.base in m.nodes and to in m.ancestors(m.base)):
                continue
            M = np.array(op[2]["M"], dtype=np.float64)
            if 0 < np.abs(M - np.eye(4)).max() < 1e-6:
                continue
            old = m.parent.get(to)
            if old is not None and old[0] == m.base and 0 < np.abs(old[1] - M).max() < 1e-6:
                continue
            buf = M.copy()
            g[to] = buf
            check(buf.flags.writeable, "C09|setitem|callers_matrix_made_readonly", where)
            buf[:] = buf * 2.0 + 7.0
            sub = "create" if to not in m.nodes else ("reparent" if old is not None and old[0] != m.base else "edge_change")
            m.add_node(m.base)
            m.add_node(to)
            m.parent[to] = (m.base, M)
            kinds.append(f"setitem:{sub}")
            if queried and sub != "create":
                mutated_after_query = True
        elif k == "remove":
            n = name_of(op[1])
            if n not in m.nodes or n == m.base:
                continue
            g.transforms.remove_node(n)
            m.remove(n)
            kinds.append("remove_node")
            if queried:
                mutated_after_query = True
        elif k == "base":
            n = name_of(op[1])
            if n not in m.nodes:
                continue
            g.base_frame = n
            m.base = n
            kinds.append("base_frame")
        elif k == "remove_geometries":
            geos = [x for x in op[1]]
            g.remove_geometries(geos if len(geos) != 1 or op[2] else geos[0])
            m.geom = {n: v for n, v in m.geom.items() if v not in geos}
            kinds.append("remove_geometries")
        elif k == "copy":
            originals.append((g, m.clone(), list(kinds)))
            g = g.copy()
            kinds.append("copy")
        elif k == "edgelist":
            check_edgelist(g, m, where, kinds[-1] if kinds else "init")
            continue
        else:
            raise ValueError(k)
        # ---- observations after the step
        nodes = m.nodes
        pairs = [(a, b) for a in nodes for b in nodes]
        if not op[-1]:  # check a drawn subset only -> other cache entries stay as they were
            pairs = pairs[:: 3] if len(pairs) > 3 else pairs
        compare_all(g, m, pairs, where, kinds)
        check_structure(g, m, where, kinds[-1])
        # default argument form: frame_from=None means base frame
        for n in nodes:
            want = m.T(m.base, n) if m.base in nodes else (np.eye(4) if n == m.base else None)
            if want is None:
                continue
            got, _ = g.get(n)
            check(np.allclose(got, want, rtol=0, atol=1e-9 * max(1.0, np.abs(want).max())), f"C09|get_default_base|after={kinds[-1]}", f"{where}: graph[{n}]")
            got2, _ = g[n]
            check(np.array_equal(got, got2), "C09|getitem_vs_get", where)
        if mutated_after_query:
            nontrivial = True
        queried = True
    # end of history
    nodes = m.nodes
    if nodes:
        compare_all(g, m, [(a, b) for a in nodes for b in nodes], "end", kinds)
        check_laws(g, m, "end")
        check_edgelist(g, m, "end", kinds[-1] if kinds else "init")
        if m.base in nodes and all(m.T(m.base, n) is not None for n in nodes):
            flat = g.to_flattened()
            check(set(flat) == set(nodes) - {m.base}, "C09|to_flattened|keys", str(sorted(flat)))
            for n, d in flat.items():
                want = m.T(m.base, n)
                check(np.allclose(d["transform"], want, rtol=0, atol=1e-9 * max(1.0, np.abs(want).max())), "C09|to_flattened|transform", n)
                check(d["geometry"] == m.geom.get(n), "C09|to_flattened|geometry", n)
    # graphs that were copied from must still answer as they did at copy time
    for g0, m0, k0 in originals:
        compare_all(g0, m0, [(a, b) for a in m0.nodes for b in m0.nodes], "original after edits of its copy", k0 + ["copy_then_edit_copy"])
        check_structure(g0, m0, "original after edits of its copy", "copy_then_edit_copy")
    cls = sorted({x.split(":")[0] + (":" + x.split(":")[1] if x.startswith("update") else "") for x in kinds} | {x for x in kinds if x.endswith(":nudge")})
    for op in case.get("ops", []):
        for x in op:
            if isinstance(x, dict) and x.get("kind") in ("quaternion", "axis_angle"):
                v = x.get("q") or x.get("axis")
                if abs(math.sqrt(sum(c * c for c in v)) - 1.0) > 1e-3:
                    cls.append("update:non_unit_" + x["kind"])
    ctx.note(nontrivial=nontrivial, cls=(sorted(set(cls)) or ["empty"]) + ["names:" + case.get("names", "str")])


# ------------------------------------------------------------------------ strategy

_f = lambda lo, hi: st.floats(lo, hi, allow_nan=False, allow_infinity=False)  # noqa


@st.composite
def transform_spec(draw):
    kind = draw(st.sampled_from(["matrix", "matrix", "matrix", "quaternion", "axis_angle", "translation", "none", "nudge"]))
    if kind == "nudge":
        return {"kind": "nudge", "rel": draw(st.sampled_from([3e-6, -3e-6, 8e-6, 1e-4])), "abs": draw(st.sampled_from([0.0, 1e-5, -2e-6]))}
    t = [draw(_f(-10, 10)) for _ in range(3)] if draw(st.booleans()) else None
    if kind == "matrix":
        m = draw(gm.matrix(classes=["rigid", "rigid", "rotation", "translation", "similarity", "identity"], tscale=10.0))
        M = np.array(m["M"])
        if m["cls"] == "similarity":
            # keep well clear of the fix_rigid window: |s-1| >= 0.1 and moderate
            s = abs(np.linalg.det(M[:3, :3])) ** (1 / 3)
            target = draw(st.sampled_from([0.5, 0.8, 1.25, 2.0]))
            M[:3, :3] *= target / s
        return {"kind": "matrix", "M": M.tolist(), "as_list": draw(st.booleans())}
    if kind == "quaternion":
        q = [draw(_f(-1, 1)) for _ in range(4)]
        n = math.sqrt(sum(x * x for x in q))
        if n < 0.1:
            q = [1.0, 0.0, 0.0, 0.0]
            n = 1.0
        # quaternion_matrix and rotation_matrix normalise what they are given: any non-zero length is a valid input
        ln = draw(st.sampled_from([1.0, 1.0, 0.5, 2.0, 3.7, 10.0]))
        return {"kind": "quaternion", "q": [x / n * ln for x in q], "t": t}
    if kind == "axis_angle":
        ln = draw(st.sampled_from([1.0, 1.0, 0.5, 2.0, 3.7, 10.0]))
        return {"kind": "axis_angle", "axis": [x * ln for x in draw(gm.unit_vec())], "angle": draw(_f(-3.1, 3.1)), "t": t}
    if kind == "translation":
        return {"kind": "translation", "t": t or [1.0, 2.0, 3.0]}
    return {"kind": "none"}


@st.composite
def history(draw, max_ops=14):
    n = draw(st.integers(2, max_ops))
    ops = []
    node = st.integers(0, 5)
    for _ in range(n):
        k = draw(st.sampled_from(["update"] * 8 + ["setitem", "remove", "remove", "base", "remove_geometries", "copy", "edgelist"]))
        full = draw(st.booleans()) or draw(st.booleans())
        if k == "update":
            frm = draw(st.one_of(st.none(), st.integers(-1, 5), st.integers(-1, 5)))
            geo = draw(st.one_of(st.none(), st.sampled_from(["g0", "g1", "g2"])))
            ops.append(["update", draw(node), frm, draw(transform_spec()), geo, full])
        elif k == "setitem":
            ops.append(["setitem", draw(node), draw(transform_spec().filter(lambda t: t["kind"] == "matrix")), full])
        elif k == "remove":
            ops.append(["remove", draw(node), full])
        elif k == "base":
            ops.append(["base", draw(st.integers(-1, 5)), full])
        elif k == "remove_geometries":
            ops.append(["remove_geometries", draw(st.lists(st.sampled_from(["g0", "g1", "g2"]), min_size=1, max_size=2, unique=True)), draw(st.booleans()), full])
        elif k == "copy":
            ops.append(["copy", full])
        else:
            ops.append(["edgelist", full])
    return {"ops": ops, "names": draw(st.sampled_from(["str", "str", "empty", "int", "int_child0"]))}


@subcheck("C09", "history", shards={"quick": 12, "thorough": 16})
def s_history(ctx):
    ctx.given("C09.history", history(), n={"quick": 2400, "thorough": 60000})


def _depth2():
    """Every (first op, second op, third op) over 3 names for the structural operations, with fixed distinct matrices:
    the complete space of short re-parent / remove / re-add interleavings."""
    mats = []
    for i in range(6):
        M = np.eye(4)
        M[:3, :3] = gm.rodrigues([1, 2 + i, 3], 0.3 + 0.5 * i)
        M[:3, 3] = [1 + i, -2 * i, 0.5 * i]
        mats.append({"kind": "matrix", "M": M.tolist(), "as_list": False})
    basic = []
    for to in (0, 1, 2):
        for frm in (None, 0, 1, 2):
            if frm != to:
                basic.append(("update", to, frm))
    basic += [("remove", 0), ("remove", 1), ("remove", 2), ("base", 0), ("base", -1)]
    seq = []
    for a in basic:
        for b in basic:
            for c in basic:
                for d in (("update", 2, 1), ("update", 0, None), ("remove", 1)):
                    ops = []
                    for j, o in enumerate((("update", 0, None), ("update", 1, 0), a, b, c, d)):
                        if o[0] == "update":
                            ops.append(["update", o[1], o[2], mats[j], "g%d" % (j % 2) if j % 2 else None, True])
                        elif o[0] == "remove":
                            ops.append(["remove", o[1], True])
                        else:
                            ops.append(["base", o[1], True])
                    seq.append({"ops": ops, "names": ["str", "empty", "int", "int_child0"][len(seq) % 4]})
    return seq


@subcheck("C09", "short_histories_enum", shards={"quick": 4, "thorough": 8})
def s_enum(ctx):
    cases = _depth2()
    if ctx.tier == "quick":
        cases = cases[:: 5]
        ctx.enumerate("C09.history", cases, label="structural_histories_len6_over_3_names(stride5)", complete=False)
    else:
        ctx.enumerate("C09.history", cases, label="structural_histories_len6_over_3_names")


REQUIRED_CLASSES["C09"] = ["update:reparent", "remove_node", "update:edge_change", "copy", "base_frame", "update:non_unit_quaternion", "update:non_unit_axis_angle", "update:callers_buffer_reused", "update:edge_change:nudge", "names:empty", "names:int", "names:int_child0"]
