"""C04 — homogeneous transforms act covariantly on every geometry kind."""

import copy as pycopy

import numpy as np
from hypothesis import strategies as st

import trimesh
from trimesh import primitives

from ..core import ASSUMPTIONS, REQUIRED_CLASSES, RULES, Violation, body, check, subcheck
from ..gen import matrices as gm
from ..gen import meshes as gmesh
from ..oracle import meshvalues as mv
from .c01 import true_normals

RULES["C04"] = (
    "geometry kind (Trimesh solid/open with face+vertex colours, attributes, metadata; PointCloud with colours; Path2D "
    "(3x3) / Path3D of lines (+arcs under similarities); primitives Box/Sphere/Cylinder/Capsule/Extrusion; Scene with "
    "nested graph and instancing; VoxelGrid) x matrix class (identity, translation, rotation, rigid, similarity, mirror, "
    "negative uniform scale, anisotropic, shear, general affine, near-identity with delta log-uniform in [1e-10,1e-4]) x "
    "cached-state (normals and derived values read before or not) x entry point (apply_transform / apply_scale / "
    "apply_translation). Oracle: every point p -> M.p (homogeneous multiply in float64, tolerance 16 eps |M|(1+|p|), or "
    "4e-8(1+|p|) inside the documented 1e-8 identity shortcut); faces reversed iff det<0, nothing else changes; M then "
    "M^-1 restores; A then B == B.A; meshes: volume*|det|, centre of mass maps through M, normals equal a cold mesh, "
    "area*s^2 and inertia s^5 R I R^T under similarities. Non-trivial: non-identity class on non-empty geometry; distinct by case."
)
ASSUMPTIONS["C04"] = [
    "float64 matrix products trusted; tolerances derived from eps, |M| and |p|",
    "documented shortcuts honoured: a matrix within 1e-8 of identity is a no-op; normals are not transported when the linear part is within 1e-6 of identity (allowance 4e-6)",
    "primitives: a non-similarity (or mirrored) matrix may raise ValueError, but then the primitive must be unchanged",
    "paths with arcs are only transformed by similarities (an arc is not closed under general affine maps)",
]

_f = lambda lo, hi: st.floats(lo, hi, allow_nan=False, allow_infinity=False)  # noqa
EPS = np.finfo(np.float64).eps


def hom(M, P):
    P = np.asarray(P, dtype=np.float64)
    d = P.shape[1]
    return (M[:d, :d] @ P.T).T + M[:d, d]


def point_tol(M, P):
    """per-point absolute tolerance for comparing trimesh's result with hom(M, P)"""
    P = np.asarray(P, dtype=np.float64)
    d = P.shape[1]
    I = np.eye(d + 1)
    pn = np.abs(P).max(axis=1) if len(P) else np.zeros(0)
    if np.abs(M - I).max() < 1e-8:
        return 4e-8 * (1.0 + pn)
    return 32 * EPS * max(1.0, np.abs(M).max()) * (1.0 + pn) * (d + 1)


def check_points(got, M, P, sig, what):
    got = np.asarray(got, dtype=np.float64)
    P = np.asarray(P, dtype=np.float64)
    check(got.shape == P.shape, sig + "|shape", f"{what}: {got.shape} vs {P.shape}")
    if len(P) == 0:
        return
    want = hom(M, P)
    err = np.abs(got - want).max(axis=1)
    tol = point_tol(M, P)
    bad = np.nonzero(err > tol)[0]
    if len(bad):
        i = int(bad[0])
        raise Violation(sig, f"{what}: point {i} {P[i].tolist()} -> {got[i].tolist()} but M.p = {want[i].tolist()} (err {err[i]:.3g} > tol {tol[i]:.3g})")


def mclass(m):
    return m["cls"]


# ------------------------------------------------------------------------------- meshes


def build_mesh(spec):
    V, F = gmesh.build(spec["mesh"])
    if spec.get("drop"):
        keep = np.ones(len(F), dtype=bool)
        keep[[i % len(F) for i in spec["drop"]]] = False
        if keep.sum() >= 2:
            F = F[keep]
    if spec.get("offset"):
        V = V + np.array(spec["offset"])
    kw = {}
    if spec.get("ctor_normals"):
        kw["face_normals"] = true_normals(V, F)
    m = trimesh.Trimesh(V.copy(), F.copy(), process=False, **kw)
    nf, nv = len(F), len(V)
    if spec.get("colors") == "face":
        m.visual.face_colors = np.column_stack((np.arange(nf) % 256, (np.arange(nf) // 256) % 256, np.full(nf, 7), np.full(nf, 255))).astype(np.uint8)
    elif spec.get("colors") == "vertex":
        m.visual.vertex_colors = np.column_stack((np.arange(nv) % 256, (np.arange(nv) // 256) % 256, np.full(nv, 9), np.full(nv, 255))).astype(np.uint8)
    m.face_attributes["tag"] = np.arange(nf) * 10
    m.vertex_attributes["tag"] = np.arange(nv) * 3.5
    m.metadata["k"] = {"a": [1, 2, 3]}
    return m


def apply_entry(g, entry, mat):
    M = np.array(mat["M"], dtype=np.float64)
    if entry == "apply_scale":
        g.apply_scale(mat["scale_arg"])
    elif entry == "apply_translation":
        g.apply_translation(mat["translate_arg"])
    else:
        g.apply_transform(M)
    return M


@body("C04.mesh")
def b_mesh(case, ctx):
    with np.errstate(all="ignore"):
        m = build_mesh(case["start"])
        mat = case["matrix"]
        M = np.array(mat["M"], dtype=np.float64)
        cls = mat["cls"]
        L = M[:3, :3]
        det = float(np.linalg.det(L))
        info = gm.classify(M)
        closed = not case["start"].get("drop")
        ctx.note(nontrivial=cls != "identity", cls=[f"mesh:{cls}", f"warm={case['warm']}", f"entry:{case['entry']}"])
        V0 = np.array(m.vertices)
        F0 = np.array(m.faces)
        fc0 = np.array(m.visual.face_colors) if case["start"].get("colors") == "face" else None
        vc0 = np.array(m.visual.vertex_colors) if case["start"].get("colors") == "vertex" else None
        if case["warm"]:
            _ = m.face_normals, m.vertex_normals, m.volume, m.area, m.bounds, m.edges, m.face_adjacency, m.center_mass, m.moment_inertia, m.is_volume
            # a drawn further set of derived values: whatever was computed beforehand must not matter afterwards
            for name in case.get("warm_extra") or []:
                mv.read(m, name)
        cmo = case["start"].get("cm_override")
        if cmo is not None:
            m.center_mass = cmo
        ref = trimesh.Trimesh(V0.copy(), F0.copy(), process=False)
        if cmo is not None:
            ref.center_mass = cmo
        vol0, area0, cm0, I0, isvol0 = float(ref.volume), float(ref.area), np.array(ref.center_mass), np.array(ref.moment_inertia), bool(ref.is_volume)

        apply_entry(m, case["entry"], mat)
        sig = f"C04.mesh|{cls}"
        # (1) every point
        check_points(m.vertices, M, V0, sig + "|points", "vertices")
        # (2) connectivity: faces row-wise equal or reversed, reversed iff det < 0
        F1 = np.array(m.faces)
        check(F1.shape == F0.shape, sig + "|faces_shape", f"{F1.shape}")
        same = np.array_equal(F1, F0)
        rev = np.array_equal(F1, F0[:, ::-1])
        flipped_expected = det < 0 and np.abs(M - np.eye(4)).max() >= 1e-8
        if flipped_expected:
            check(rev, sig + "|winding_not_reversed", f"det={det:.3g} but faces {'unchanged' if same else 'changed otherwise'}")
        else:
            check(same, sig + "|faces_changed", f"det={det:.3g} but faces {'reversed' if rev else 'changed'}")
        # attached data
        if fc0 is not None:
            check(np.array_equal(np.array(m.visual.face_colors), fc0), sig + "|face_colors", "")
        if vc0 is not None:
            check(np.array_equal(np.array(m.visual.vertex_colors), vc0), sig + "|vertex_colors", "")
        check(np.array_equal(m.face_attributes["tag"], np.arange(len(F0)) * 10), sig + "|face_attributes", "")
        check(np.array_equal(m.vertex_attributes["tag"], np.arange(len(V0)) * 3.5), sig + "|vertex_attributes", "")
        check(m.metadata.get("k") == {"a": [1, 2, 3]}, sig + "|metadata", str(m.metadata))

        # an explicit centre-of-mass override is a point attached to the body: it maps through M exactly like a vertex
        if cmo is not None:
            check_points(np.array(m.center_mass)[None], M, np.array(cmo, dtype=np.float64)[None], sig + "|center_mass_override", "overridden center_mass")
        # (5) mesh measures against the untransformed reference (only meaningful for invertible M)
        scale = max(1.0, np.abs(V0).max())
        S = max(np.abs(L).max(), 1.0)
        if abs(det) > 1e-6:
            cold = trimesh.Trimesh(np.array(m.vertices).copy(), np.array(m.faces).copy(), process=False)
            # normals equal a cold mesh (4e-6 allowance inside the has_rotation shortcut)
            near = np.abs(L - np.eye(3)).max() <= 1e-6
            ntol = 4e-6 if near else 1e-9
            dn = np.abs(np.asarray(m.face_normals) - np.asarray(cold.face_normals)).max() if len(F0) else 0.0
            check(dn <= ntol, sig + f"|face_normals|warm={case['warm']}", f"differ from cold mesh by {dn:.3g}")
            dv = np.abs(np.asarray(m.vertex_normals) - np.asarray(cold.vertex_normals)).max() if len(F0) else 0.0
            check(dv <= ntol, sig + f"|vertex_normals|warm={case['warm']}", f"differ from cold mesh by {dv:.3g}")
            # every other derived value equals that of a cold mesh built from the moved arrays (per-corner, per-edge and
            # per-face values are attached to faces whose winding may just have been reversed)
            sc = abs(det) ** (1.0 / 3.0)
            if case["warm"] and case.get("warm_extra") and not near and 0.05 <= sc <= 50 and cmo is None:
                s1 = float(max(np.abs(np.asarray(m.vertices)).max(), 1e-9))
                for name in case.get("check_extra") or []:
                    a, b = mv.read(m, name), mv.read(cold, name)
                    ok, msg = mv.same(name, a, b, s1, unit_atol=1e-9)
                    check(ok, sig + f"|derived_value_differs_from_cold|{name}", f"read before: {case['warm_extra']}: {msg}")
            # conditioning of the surface integrals: a mesh of extent h at distance D from the origin has face terms
            # ~D*h^2 (volume), ~D^2*h^2 (first moments), ~D^3*h^2 (second moments) that cancel to the result
            V1 = np.array(m.vertices)
            nf = max(len(F0), 1)
            D = max(np.abs(V0).max(), np.abs(V1).max(), 1e-300)
            h = max(np.ptp(V1, axis=0).max(), np.ptp(V0, axis=0).max() * S, 1e-300)
            e0 = 256 * EPS * nf * h * h
            if closed and isvol0 and cmo is None:
                check(bool(m.is_volume), sig + "|is_volume_lost", "valid solid became invalid")
                v1 = float(m.volume)
                check(v1 > 0, sig + "|volume_sign", f"volume {v1}")
                wantv = abs(det) * vol0
                idvol = 1e-7 * wantv if np.abs(M - np.eye(4)).max() < 1e-8 else 0.0  # documented identity no-op
                check(abs(v1 - wantv) <= 1e-9 * wantv + e0 * D * (1 + S**3) + idvol, sig + "|volume", f"{v1} vs |det|*vol = {wantv}")
                cm1 = np.array(m.center_mass)
                want = hom(M, cm0[None])[0]
                idshort = 4e-8 * (1 + np.abs(V0).max()) if np.abs(M - np.eye(4)).max() < 1e-8 else 0.0
                cmtol = 1e-9 * (1 + np.abs(want).max()) + e0 * D * D * (1 + S**3) / max(min(wantv, vol0 * S**3), 1e-300) + idshort
                check(np.abs(cm1 - want).max() <= cmtol, sig + "|center_mass", f"{cm1.tolist()} vs M.cm {want.tolist()} (tol {cmtol:.3g})")
            if info["is_similarity"] and np.abs(M - np.eye(4)).max() >= 1e-8:
                s = info["scale"]
                check(abs(float(m.area) - s * s * area0) <= 1e-9 * s * s * area0 + 1e-300, sig + "|area", f"{m.area} vs s^2 A = {s * s * area0}")
                if closed and isvol0 and cmo is None:
                    Rn = L / s
                    want_I = (s**5) * (Rn @ I0 @ Rn.T)
                    tolI = 1e-8 * max(np.abs(want_I).max(), 1e-300) + e0 * D**3 * (1 + s**5) * 4
                    check(np.abs(np.array(m.moment_inertia) - want_I).max() <= tolI, sig + "|inertia", f"{np.array(m.moment_inertia).tolist()} vs {want_I.tolist()} (tol {tolI:.3g})")
            # bounds = bounds of transformed referenced vertices
            if len(F0):
                refd = np.unique(F0)
                Vt = np.array(m.vertices)[refd]
                check(np.allclose(m.bounds, [Vt.min(axis=0), Vt.max(axis=0)], rtol=0, atol=0), sig + "|bounds", "")

        # (3) M then M^-1 restores
        if abs(det) > 1e-3 and np.abs(M - np.eye(4)).max() >= 1e-8:
            Minv = np.linalg.inv(M)
            m.apply_transform(Minv)
            condM = np.linalg.cond(M)
            tol = 1e-12 * condM * (1 + np.abs(V0).max() + np.abs(M[:3, 3]).max()) * 10
            d = np.abs(np.array(m.vertices) - V0).max() if len(V0) else 0.0
            check(d <= tol, sig + "|inverse_restores|vertices", f"max deviation {d:.3g} > {tol:.3g}")
            check(np.array_equal(np.array(m.faces), F0), sig + "|inverse_restores|faces", "faces not restored exactly")
        # (4) A then B == B.A
        if case.get("second"):
            B = np.array(case["second"]["M"], dtype=np.float64)
            if np.abs(M - np.eye(4)).max() >= 1e-8 and np.abs(B - np.eye(4)).max() >= 1e-8 and np.abs(B @ M - np.eye(4)).max() >= 1e-6:
                a = trimesh.Trimesh(V0.copy(), F0.copy(), process=False)
                if case["warm"]:
                    _ = a.face_normals, a.edges
                a.apply_transform(M)
                a.apply_transform(B)
                b = trimesh.Trimesh(V0.copy(), F0.copy(), process=False)
                b.apply_transform(B @ M)
                tol = 64 * EPS * max(1.0, np.abs(B).max()) * max(1.0, np.abs(M).max()) * (1 + np.abs(V0).max()) * 16
                d = np.abs(np.array(a.vertices) - np.array(b.vertices)).max() if len(V0) else 0.0
                check(d <= tol, f"C04.mesh|compose|{cls}+{case['second']['cls']}|vertices", f"{d:.3g} > {tol:.3g}")
                check(np.array_equal(np.array(a.faces), np.array(b.faces)), f"C04.mesh|compose|{cls}+{case['second']['cls']}|faces", "A then B faces != (B.A) faces")


# ------------------------------------------------------------------------------- point clouds


@body("C04.points")
def b_points(case, ctx):
    rs = np.random.RandomState(case["seed"])
    n = case["n"]
    P = rs.uniform(-1, 1, (n, 3)) * case["scale"] + np.array(case["offset"])
    colors = rs.randint(0, 255, (n, 4)).astype(np.uint8)
    pc = trimesh.PointCloud(P.copy(), colors=colors.copy())
    mat = case["matrix"]
    M = np.array(mat["M"], dtype=np.float64)
    ctx.note(nontrivial=mat["cls"] != "identity" and n > 0, cls=f"points:{mat['cls']}")
    apply_entry(pc, case["entry"], mat)
    sig = f"C04.points|{mat['cls']}"
    check_points(pc.vertices, M, P, sig + "|points", "PointCloud.vertices")
    if n:
        check(np.array_equal(np.asarray(pc.colors), colors), sig + "|colors", "colours changed")
    if n:
        Pt = np.array(pc.vertices)
        check(np.array_equal(pc.bounds, [Pt.min(axis=0), Pt.max(axis=0)]), sig + "|bounds", "")
    if abs(np.linalg.det(M[:3, :3])) > 1e-3 and np.abs(M - np.eye(4)).max() >= 1e-8 and n:
        pc.apply_transform(np.linalg.inv(M))
        tol = 1e-12 * np.linalg.cond(M) * (1 + np.abs(P).max() + np.abs(M[:3, 3]).max()) * 10
        check(np.abs(np.array(pc.vertices) - P).max() <= tol, sig + "|inverse_restores", "")


# ------------------------------------------------------------------------------- paths


def build_path(case):
    rs = np.random.RandomState(case["seed"])
    dim = case["dim"]
    from trimesh.path.entities import Arc, Line

    verts = []
    ents = []
    # a closed polygon, an open polyline and optionally an arc
    n = case["n"]
    ang = np.sort(rs.uniform(0, 2 * np.pi, n))
    poly = np.column_stack((np.cos(ang), np.sin(ang))) * rs.uniform(0.5, 2.0, (n, 1))
    if dim == 3:
        poly = np.column_stack((poly, rs.uniform(-1, 1, n)))
    verts.extend(poly.tolist())
    ents.append(Line(list(range(n)) + [0]))
    k = len(verts)
    pl = rs.uniform(3, 6, (3, dim))
    verts.extend(pl.tolist())
    ents.append(Line([k, k + 1, k + 2]))
    if case.get("arc"):
        k = len(verts)
        c = rs.uniform(8, 10, dim)
        r = rs.uniform(0.5, 1.5)
        pts = []
        for t in (0.2, 1.3, 2.9):
            p = c.copy()
            p[0] += r * np.cos(t)
            p[1] += r * np.sin(t)
            pts.append(p)
        verts.extend(np.array(pts).tolist())
        ents.append(Arc([k, k + 1, k + 2]))
    V = np.array(verts, dtype=np.float64)
    cls = trimesh.path.Path2D if dim == 2 else trimesh.path.Path3D
    return cls(entities=ents, vertices=V.copy(), process=False), V


@body("C04.path")
def b_path(case, ctx):
    with np.errstate(all="ignore"):
        p, V0 = build_path(case)
        mat = case["matrix"]
        M = np.array(mat["M"], dtype=np.float64)
        dim = case["dim"]
        ctx.note(nontrivial=mat["cls"] != "identity", cls=f"path{dim}d:{mat['cls']}:arc={bool(case.get('arc'))}:warm={case['warm']}")
        ents0 = [(type(e).__name__, list(map(int, e.points)), bool(e.closed)) for e in p.entities]
        len0 = float(p.length)
        # validity of the generated polygons is read from an identically built twin so that `p` stays cold
        valid2d = dim == 2 and all(q is not None for q in build_path(case)[0].polygons_closed)
        if case["warm"]:
            _ = p.discrete, p.paths, p.bounds, p.length
            if valid2d:
                _ = p.polygons_closed, p.area
        sig = f"C04.path{dim}d|{mat['cls']}"
        if case["entry"] == "apply_translation":
            p.apply_translation(mat["translate_arg"][:dim] if dim == 2 else mat["translate_arg"])
        elif case["entry"] == "apply_scale" and np.ndim(mat["scale_arg"]) == 0:
            p.apply_scale(mat["scale_arg"])
        else:
            p.apply_transform(M)
        check_points(p.vertices, M, V0, sig + "|points", "path.vertices")
        ents1 = [(type(e).__name__, list(map(int, e.points)), bool(e.closed)) for e in p.entities]
        check(ents1 == ents0, sig + "|entities_changed", f"{ents1} vs {ents0}")
        # similarity: length scales by s, whatever was cached
        L = M[:dim, :dim]
        g = L.T @ L
        s2 = np.trace(g) / dim
        if np.allclose(g, s2 * np.eye(dim), rtol=0, atol=1e-9 * s2) and np.abs(M - np.eye(dim + 1)).max() >= 1e-8:
            s = np.sqrt(s2)
            cold = type(p)(entities=[pycopy.deepcopy(e) for e in p.entities], vertices=np.array(p.vertices).copy(), process=False)
            check(abs(float(p.length) - float(cold.length)) <= 1e-9 * max(1.0, float(cold.length)), sig + f"|length_vs_cold|warm={case['warm']}", f"{p.length} vs {cold.length}")
            check(abs(float(p.length) - s * len0) <= 1e-6 * s * len0, sig + "|length_scaling", f"{p.length} vs s*L={s * len0}")
            check(np.allclose(p.bounds, cold.bounds, rtol=0, atol=1e-9 * (1 + np.abs(cold.bounds).max())), sig + f"|bounds_vs_cold|warm={case['warm']}", "")
            if valid2d:
                check(abs(float(p.area) - float(cold.area)) <= 1e-9 * max(1.0, abs(float(cold.area))), sig + f"|area_vs_cold|warm={case['warm']}", f"{p.area} vs {cold.area}")
        d = abs(np.linalg.det(L))
        if d > 1e-3 and np.abs(M - np.eye(dim + 1)).max() >= 1e-8:
            p.apply_transform(np.linalg.inv(M))
            tol = 1e-12 * np.linalg.cond(M) * (1 + np.abs(V0).max() + np.abs(M[:dim, dim]).max()) * 10
            check(np.abs(np.array(p.vertices) - V0).max() <= tol, sig + "|inverse_restores", "")


# ------------------------------------------------------------------------------- primitives


def make_primitive(spec):
    k = spec["kind"]
    T = np.array(spec["T"], dtype=np.float64)
    if k == "Box":
        return primitives.Box(extents=spec["extents"], transform=T)
    if k == "Sphere":
        return primitives.Sphere(radius=spec["radius"], transform=T, subdivisions=1)
    if k == "Cylinder":
        return primitives.Cylinder(radius=spec["radius"], height=spec["height"], transform=T, sections=8)
    if k == "Capsule":
        return primitives.Capsule(radius=spec["radius"], height=spec["height"], transform=T, sections=8)
    if k == "Extrusion":
        from shapely.geometry import Polygon

        return primitives.Extrusion(polygon=Polygon(spec["polygon"]), height=spec["height"], transform=T)
    raise ValueError(k)


def prim_state(p):
    d = {"transform": np.array(p.primitive.transform).copy()}
    for k in ("radius", "height", "extents"):
        if hasattr(p.primitive, k):
            d[k] = np.array(getattr(p.primitive, k), dtype=np.float64).copy()
    return d


@body("C04.primitive")
def b_primitive(case, ctx):
    with np.errstate(all="ignore"):
        p = make_primitive(case["prim"])
        mat = case["matrix"]
        M = np.array(mat["M"], dtype=np.float64)
        kind = case["prim"]["kind"]
        cls = mat["cls"]
        # Primitive.apply_transform documents its own rigidity tolerance (transformations.is_rigid, epsilon=1e-8)
        info = gm.classify(M, tol=1e-7)
        ctx.note(nontrivial=cls != "identity", cls=f"primitive:{kind}:{cls}")
        V0 = np.array(p.vertices)
        vol0 = float(p.volume)
        st0 = prim_state(p)
        sig = f"C04.primitive|{kind}|{cls}"
        supports_scale = kind in ("Box", "Sphere", "Cylinder", "Capsule")
        strict = gm.classify(M, tol=1e-12)
        ok_domain = strict["is_similarity"] and strict["det"] > 0 and (supports_scale or abs(strict["scale"] - 1) < 1e-12)
        try:
            p.apply_transform(M)
            raised = False
        except ValueError:
            raised = True
        if raised:
            check(not ok_domain, sig + "|raises_on_similarity", "ValueError for an orientation preserving similarity")
            st1 = prim_state(p)
            for k in st0:
                check(np.array_equal(st0[k], st1[k]), f"C04.primitive|{kind}|changed_after_error|{k}", f"{cls}: {k}: {st0[k].tolist()} -> {st1[k].tolist()} although apply_transform raised ValueError")
            check(np.array_equal(np.array(p.vertices), V0), f"C04.primitive|{kind}|changed_after_error|mesh", "")
            return
        if np.abs(M - np.eye(4)).max() < 1e-8:
            return  # documented no-op
        if not info["is_similarity"]:
            raise Violation(sig + "|accepts_non_similarity", "a primitive cannot represent a sheared / anisotropically scaled shape but apply_transform succeeded")
        s = info["scale"]
        near = 1e-6 if cls == "near_identity" else 0.0  # accepted within the documented 1e-8 rigidity epsilon
        V1 = np.array(p.vertices)
        want = hom(M, V0)
        tol = (1e-9 + near) * max(1.0, np.abs(want).max())
        if kind == "Sphere":
            # the smooth sphere is what moves; its tessellation is regenerated about the new centre
            c = hom(M, np.array(st0["transform"])[:3, 3][None])[0]
            r = np.linalg.norm(V1 - c, axis=1)
            check(np.abs(r - s * float(st0["radius"])).max() <= tol * 10, sig + "|sphere_not_moved", f"vertices are not on the sphere of radius s*r about M.c (max dev {np.abs(r - s * float(st0['radius'])).max():.3g})")
        else:
            check(V1.shape == want.shape, sig + "|mesh_shape", f"{V1.shape} vs {want.shape}")
            from scipy.spatial import cKDTree

            d, _ = cKDTree(V1).query(want)
            check(d.max() <= tol * 10, sig + "|mesh_not_transformed", f"a transformed vertex is {d.max():.3g} away from every vertex of the new mesh")
        check(abs(float(p.volume) - abs(info["det"]) * vol0) <= (1e-9 + 10 * near) * abs(info["det"]) * vol0, sig + "|volume", f"{p.volume} vs {abs(info['det']) * vol0}")
        check(float(trimesh.Trimesh(V1, np.array(p.faces), process=False).volume) > 0, sig + "|mesh_inside_out", "mesh volume negative")
        for k in ("radius", "height", "extents"):
            if k in st0:
                got = np.array(getattr(p.primitive, k), dtype=np.float64)
                check(np.allclose(got, st0[k] * s, rtol=1e-9 + near, atol=0), sig + f"|parameter|{k}", f"{got.tolist()} vs s*{st0[k].tolist()}")


# ------------------------------------------------------------------------------- scenes


@body("C04.scene")
def b_scene(case, ctx):
    rs = np.random.RandomState(case["seed"])
    box = trimesh.Trimesh(*gmesh.build({"parts": [{"kind": "box", "ext": [1, 2, 3]}]}), process=False)
    tet = trimesh.Trimesh(*gmesh.build({"parts": [{"kind": "tetra"}]}), process=False)
    s = trimesh.Scene()
    mats = [np.array(m["M"], dtype=np.float64) for m in case["edges"]]
    # world -> n0 -> n1 (box), world -> n2 (box again), n0 -> n3 (tet)
    s.add_geometry(box, node_name="n0", geom_name="box", transform=mats[0])
    s.add_geometry(tet, node_name="n1", geom_name="tet", parent_node_name="n0", transform=mats[1])
    s.graph.update(frame_to="n2", frame_from=s.graph.base_frame, matrix=mats[2], geometry="box")
    s.graph.update(frame_to="n3", frame_from="n1", matrix=mats[3], geometry="tet")
    mat = case["matrix"]
    M = np.array(mat["M"], dtype=np.float64)
    ctx.note(nontrivial=mat["cls"] != "identity", cls=f"scene:{mat['cls']}")
    if case["warm"]:
        _ = s.bounds, s.graph.to_flattened()
    world0 = {n: np.array(s.graph.get(n)[0]) for n in s.graph.nodes_geometry}
    geo0 = {k: (np.array(g.vertices).tobytes(), np.array(g.faces).tobytes()) for k, g in s.geometry.items()}
    s.apply_transform(M)
    sig = f"C04.scene|{mat['cls']}"
    check(sorted(s.graph.nodes_geometry) == sorted(world0), sig + "|nodes_changed", "")
    for n, T0 in world0.items():
        T1 = np.array(s.graph.get(n)[0])
        want = M @ T0
        # SceneGraph documents repair_rigid=1e-5: a product that is rigid to within 1e-5 is replaced by the nearest
        # rigid matrix, and add_edge ignores updates within 1e-8 -> for near-identity M allow 4*delta*(1+|T|)
        tol = 1e-9 * max(1.0, np.abs(want).max()) + (4 * mat.get("delta", 0.0) * (1 + np.abs(T0).max()) if mat["cls"] == "near_identity" else 0.0)
        check(np.abs(T1 - want).max() <= tol, sig + "|world_transform", f"node {n}: differs from M.T by {np.abs(T1 - want).max():.3g}")
    for k, g in s.geometry.items():
        check((np.array(g.vertices).tobytes(), np.array(g.faces).tobytes()) == geo0[k], sig + "|geometry_modified", k)


# ------------------------------------------------------------------------------- voxels


@body("C04.voxel")
def b_voxel(case, ctx):
    rs = np.random.RandomState(case["seed"])
    dense = rs.rand(*case["shape"]) > 0.5
    dense.flat[0] = True
    T0 = np.array(case["T"]["M"], dtype=np.float64)
    vg = trimesh.voxel.VoxelGrid(dense.copy(), transform=T0)
    mat = case["matrix"]
    M = np.array(mat["M"], dtype=np.float64)
    ctx.note(nontrivial=mat["cls"] != "identity", cls=f"voxel:{mat['cls']}")
    P0 = np.array(vg.points)
    if case["warm"]:
        _ = vg.bounds, vg.volume
    vg.apply_transform(M)
    sig = f"C04.voxel|{mat['cls']}"
    P1 = np.array(vg.points)
    want = hom(M, P0)
    # documented 1e-8 identity shortcut: of M itself, or of the composed grid transform M.T0
    near = np.abs(M - np.eye(4)).max() < 1e-8 or np.abs(M @ T0 - np.eye(4)).max() < 1e-8 or np.abs(T0 - np.eye(4)).max() < 1e-8
    tol = 1e-9 * max(1.0, np.abs(want).max()) + (4e-8 * (1 + np.abs(P0).max() + np.abs(want).max()) if near else 0)
    check(P1.shape == want.shape and np.abs(P1 - want).max() <= tol, sig + "|points", f"{np.abs(P1 - want).max():.3g}")
    check(np.array_equal(np.asarray(vg.encoding.dense), dense), sig + "|encoding_changed", "")
    # derived values of the moved grid (read before the transform in the warm cases): the box of the filled index range,
    # carried corner by corner; volume = cells x |det|; points map back to their indices
    idx = np.argwhere(dense)
    lo, hi = idx.min(axis=0) - 0.5, idx.max(axis=0) + 0.5
    corners = np.array([[x, y, z] for x in (lo[0], hi[0]) for y in (lo[1], hi[1]) for z in (lo[2], hi[2])])
    wc = hom(M @ T0, corners)
    wb = np.array([wc.min(axis=0), wc.max(axis=0)])
    btol = tol * 4 + 1e-9 * np.abs(wb).max()
    check(np.abs(np.asarray(vg.bounds) - wb).max() <= btol, sig + "|bounds", f"{np.asarray(vg.bounds).tolist()} vs box of the eight moved corners {wb.tolist()}")
    check(np.abs(np.asarray(vg.extents) - np.ptp(wb, axis=0)).max() <= btol * 2, sig + "|extents", "")
    inside = (P1 >= np.asarray(vg.bounds)[0] - btol).all() and (P1 <= np.asarray(vg.bounds)[1] + btol).all()
    check(bool(inside), sig + "|bounds_do_not_contain_cell_centres", "")
    det = abs(np.linalg.det((M @ T0)[:3, :3]))
    check(abs(float(vg.volume) - len(idx) * det) <= 1e-9 * len(idx) * det + (1e-6 * len(idx) * det if near else 0), sig + "|volume", f"{vg.volume} vs {len(idx) * det}")
    if det > 1e-12 and not near:
        back = np.asarray(vg.points_to_indices(P1))
        check(np.array_equal(back, np.asarray(vg.sparse_indices)) or {tuple(r) for r in back.tolist()} == {tuple(r) for r in idx.tolist()}, sig + "|points_to_indices", "cell centres do not map back to their indices")


# ------------------------------------------------------------------------------- strategies


@st.composite
def matrix_with_entry(draw, classes=None):
    entry = draw(st.sampled_from(["apply_transform"] * 4 + ["apply_scale", "apply_translation"]))
    if entry == "apply_scale":
        if draw(st.booleans()):
            s = draw(st.sampled_from([0.5, 2.0, 3.0, -1.0, -2.5, 1e-3, 1e3]))
            M = np.diag([s, s, s, 1.0])
            cls = "similarity" if s > 0 else "neg_uniform"
            arg = s
        else:
            v = [draw(st.sampled_from([0.5, 1.0, 2.0, -1.0, 3.0, -0.25])) for _ in range(3)]
            M = np.diag(v + [1.0])
            arg = v
            cls = "anisotropic" if len(set(map(abs, v))) > 1 else ("similarity" if np.prod(v) > 0 and len(set(v)) == 1 else "mirror_diag")
            if v == [1.0, 1.0, 1.0]:
                cls = "identity"
        return entry, {"cls": cls, "M": M.tolist(), "scale_arg": arg}
    if entry == "apply_translation":
        t = [draw(_f(-100, 100)) for _ in range(3)]
        M = np.eye(4)
        M[:3, 3] = t
        return entry, {"cls": "translation", "M": M.tolist(), "translate_arg": t}
    return entry, draw(gm.matrix(classes=classes))


@st.composite
def mesh_case(draw):
    spec = {"mesh": draw(gmesh.mesh_spec(kinds=["tetra", "box", "octa", "icos", "prism", "torus", "uvsphere"], max_parts=2, jitter=True, max_faces=100))}
    for p in spec["mesh"]["parts"]:
        if p["kind"] == "icos":
            p["sub"] = min(p.get("sub", 0), 1)
    if draw(st.integers(0, 3)) == 0:
        spec["drop"] = draw(st.lists(st.integers(0, 60), min_size=1, max_size=3))
    spec["offset"] = draw(st.sampled_from([None, None, [10.0, -5.0, 3.0], [1000.0, 0.0, 0.0]]))
    spec["colors"] = draw(st.sampled_from([None, "face", "vertex"]))
    spec["ctor_normals"] = draw(st.booleans())
    if draw(st.integers(0, 4)) == 0:
        spec["cm_override"] = [draw(_f(-2, 2)) for _ in range(3)]
    entry, mat = draw(matrix_with_entry())
    second = draw(st.one_of(st.none(), gm.matrix(classes=["rigid", "similarity", "mirror", "anisotropic", "shear", "rotation"])))
    names = st.lists(st.sampled_from(mv.MEDIUM), min_size=1, max_size=6, unique=True)
    extra = draw(names)
    return {"start": spec, "matrix": mat, "entry": entry, "warm": draw(st.booleans()), "second": second, "warm_extra": extra,
            "check_extra": sorted(set(extra + draw(names)))}


@st.composite
def points_case(draw):
    entry, mat = draw(matrix_with_entry())
    return {"n": draw(st.integers(0, 30)), "seed": draw(st.integers(0, 10**6)), "scale": draw(st.sampled_from([1e-3, 1.0, 1e3])),
            "offset": draw(st.sampled_from([[0, 0, 0], [1e3, -1e3, 5.0]])), "matrix": mat, "entry": entry}


@st.composite
def path_case(draw):
    dim = draw(st.sampled_from([2, 3]))
    arc = draw(st.booleans())
    if dim == 2:
        classes = ("rigid", "similarity", "mirror", "translation", "identity")
        mat = draw(gm.matrix2d(classes=classes))
        entry = "apply_transform"
        if not arc and draw(st.booleans()):
            # general affine 2D for line-only paths
            A = np.eye(3)
            A[:2, :2] = [[draw(_f(0.5, 2)), draw(_f(-1, 1))], [draw(_f(-1, 1)), draw(_f(0.5, 2))]]
            A[:2, 2] = [draw(_f(-5, 5)), draw(_f(-5, 5))]
            if abs(np.linalg.det(A[:2, :2])) > 0.1:
                mat = {"cls": "affine2d", "M": A.tolist()}
    else:
        classes = ["rigid", "similarity", "rotation", "translation", "mirror", "identity"] + ([] if arc else ["anisotropic", "shear", "general_affine"])
        entry, mat = draw(matrix_with_entry(classes=classes))
        if arc and mat["cls"] in ("anisotropic", "mirror_diag"):
            entry, mat = "apply_transform", draw(gm.matrix(classes=["rigid", "similarity"]))
    return {"dim": dim, "n": draw(st.integers(3, 7)), "seed": draw(st.integers(0, 10**6)), "arc": arc, "matrix": mat, "entry": entry, "warm": draw(st.booleans())}


@st.composite
def primitive_case(draw):
    kind = draw(st.sampled_from(["Box", "Sphere", "Cylinder", "Capsule", "Extrusion"]))
    T = draw(gm.matrix(classes=["identity", "rigid", "rotation", "translation"], tscale=5.0))["M"]
    spec = {"kind": kind, "T": T, "radius": draw(_f(0.2, 3.0)), "height": draw(_f(0.2, 5.0)), "extents": [draw(_f(0.2, 4.0)) for _ in range(3)],
            "polygon": [[0, 0], [2, 0], [2, 1], [1, 1.5], [0, 1]]}
    mat = draw(gm.matrix(classes=["identity", "translation", "rotation", "rigid", "similarity", "similarity", "mirror", "neg_uniform", "anisotropic", "shear", "near_identity"]))
    return {"prim": spec, "matrix": mat}


def _no_tiny_translation(m):
    """SceneGraph treats matrices within 1e-8 of another (or of identity) as unchanged: translations are either exactly
    zero or well above that window (the window itself is probed by the near_identity class with its own allowance)"""
    if m["cls"] == "near_identity":
        return m
    M = np.array(m["M"], dtype=np.float64)
    t = M[:3, 3]
    t[np.abs(t) < 1e-6] = 0.0
    return dict(m, M=M.tolist())


@st.composite
def scene_case(draw):
    edges = [_no_tiny_translation(draw(gm.matrix(classes=["rigid", "similarity", "translation", "rotation"], tscale=5.0))) for _ in range(4)]
    return {"seed": 0, "edges": edges, "matrix": _no_tiny_translation(draw(gm.matrix())), "warm": draw(st.booleans())}


@st.composite
def voxel_case(draw):
    shape = [draw(st.integers(1, 4)) for _ in range(3)]
    T = draw(gm.matrix(classes=["identity", "similarity", "rigid", "translation", "anisotropic"], tscale=5.0))
    return {"seed": draw(st.integers(0, 10**6)), "shape": shape, "T": T, "matrix": draw(gm.matrix()), "warm": draw(st.booleans())}


@subcheck("C04", "mesh", shards={"quick": 10, "thorough": 16})
def s_mesh(ctx):
    ctx.given("C04.mesh", mesh_case(), n={"quick": 2500, "thorough": 60000})


@subcheck("C04", "points_paths", shards={"quick": 3, "thorough": 8})
def s_points(ctx):
    ctx.given("C04.points", points_case(), n={"quick": 900, "thorough": 20000})
    ctx.given("C04.path", path_case(), n={"quick": 900, "thorough": 20000})


@subcheck("C04", "primitives", shards={"quick": 2, "thorough": 8})
def s_prim(ctx):
    ctx.given("C04.primitive", primitive_case(), n={"quick": 600, "thorough": 15000})


@subcheck("C04", "scene_voxel", shards={"quick": 1, "thorough": 4})
def s_scene(ctx):
    ctx.given("C04.scene", scene_case(), n={"quick": 300, "thorough": 8000})
    ctx.given("C04.voxel", voxel_case(), n={"quick": 300, "thorough": 8000})


REQUIRED_CLASSES["C04"] = ["mesh:mirror", "mesh:anisotropic", "mesh:near_identity", "mesh:shear", "warm=True", "warm=False", "entry:apply_scale"]
