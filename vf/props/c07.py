"""C07 — re-indexing operations never move triangles or misalign attached data
(trimesh/grouping.py merge_vertices; base.py update_vertices / update_faces / remove_* / unmerge_vertices / process /
submesh / split; util.py submesh / append_faces / concatenate; graph.py split; visual/color.py, texture.py, objects.py).

Oracle = tag tracking: every per-face / per-vertex array attached to the input is a unique encoding of the element
index, so every output face / vertex can be traced to its source element by value and compared with it."""

import itertools
import logging
import math

import numpy as np
from hypothesis import strategies as st

import trimesh
from trimesh import util as tutil

from ..core import ASSUMPTIONS, REQUIRED_CLASSES, RULES, Violation, body, check, subcheck
from ..gen import c07_dirty as G

logging.getLogger("trimesh").setLevel(logging.CRITICAL)

RULES["C07"] = (
    "Dirty tagged meshes: a closed template (tetra, box, octa, icosphere, prism, torus, uv-sphere, pillow; 1-2 bodies; "
    "0-4 faces removed) or a free face soup (<=10 faces over <=9 vertices, repeated indices allowed) with vertices on "
    "the 0.01 lattice (scale 1 or 100), then 0-6 duplicated vertices (exact / 0.3 cell / 0.7 cell / 1.7-5 cells of the "
    "10^-digits_vertex rounding grid away, re-pointing part of the incident corners), 0-3 repeated faces (same, rotated "
    "or reversed), 0-3 degenerate faces ([a,a,b], [a,a,a], collinear), 0-3 unreferenced vertices, NaN/+-inf coordinates "
    "(only for remove_infinite_values / process / constructor), random vertex relabelling and face permutation. Tags: "
    "face colours | vertex colours | TextureVisuals(uv) | none, face_attributes, vertex_attributes, cached face normals "
    "(true normal + 4e-9 per-face noise, below the setter's 1e-8 acceptance), cached vertex normals (lattice direction + "
    "1e-7*index), optionally all caches warm. Operation x options: merge_vertices(merge_tex, merge_norm, digits_vertex, "
    "digits_norm, digits_uv), update_faces(bool | int | int with repeats | permutation | drop-few), update_vertices(bool, "
    "bool+inverse, int+inverse merge form, permutation, int with repeats), remove_unreferenced_vertices, unmerge_vertices, "
    "remove_infinite_values, update_faces(unique_faces()), update_faces(nondegenerate_faces(height)), process(validate, "
    "merge_tex, merge_norm), Trimesh(..., process=True) constructor, submesh(sequence of int/bool/tuple items, append, "
    "only_watertight, repair=False), split(only_watertight, repair=False) + concatenate, util.concatenate / + / sum() of "
    "2-4 tagged meshes among which single-face, face-less (built so, or left by an all-False update_faces) and empty "
    "meshes at any position. Sub-domain 'nonfinite': 4-9 distinct points of the integer lattice {-1..2}^3 (x 1, 0.5 or "
    "0.01) with 2-10 faces, plus 1-3 referenced vertices that copy another referenced vertex except for one slot set to "
    "NaN / +inf / -inf (preferably a slot where the other holds 0), exact copies of such a vertex and copies with another "
    "non-finite value, under merge_vertices (all options), process, constructor, remove_*, update_faces, "
    "unmerge_vertices; corners are compared NaN-aware (same non-finite value in the same slot). Non-trivial: the operation changed the indexing (a face or vertex was removed, merged, "
    "duplicated or moved to another index) of a mesh carrying at least one kind of tag."
)
ASSUMPTIONS["C07"] = [
    "masks follow numpy semantics (output element k of op(mask) is source element arange(n)[mask][k]); this is what the "
    "docstrings of update_faces / update_vertices / TextureVisuals.update_vertices state",
    "merge criterion (docstring: 'digits to consider'): two vertices may be merged only if every compared component "
    "differs by at most 10^-digits; referenced vertices whose components round to the same integers MUST be merged - the "
    "latter is only demanded when every component is at least 0.01 cell away from a rounding boundary",
    "data an operation does not carry may be absent (submesh / concatenate drop face_attributes and vertex_attributes, "
    "merge_vertices outside process() drops cached normals, concatenate re-packs UV): absent or recomputed is accepted, "
    "a value belonging to another element is not",
    "a cached face normal in the output is accepted when it is bit-equal to the source face's cached normal or within "
    "1e-9 of the unit normal recomputed from the output corners (faces with height < 1e-3*scale are not judged)",
    "process(validate=True) may reverse faces (fix_normals): corners are then compared as an unordered triple and face "
    "normals up to sign",
    "split(only_watertight=True) documents a repair attempt ('will attempt to repair single triangle or quad holes') and "
    "submesh(only_watertight=True) runs the same code even with repair=False: faces appended after the source faces of a "
    "part are tolerated there (and nowhere else); the source faces of such a part are the connected component (faces "
    "sharing an edge that occurs exactly twice) of its first face, resp. the sequence item",
    "update_vertices is only called with masks that keep every referenced vertex (the forms in-tree callers use)",
]

EPS = float(np.finfo(np.float64).eps)
PERMS = list(itertools.permutations(range(3)))
IDENT = (0, 1, 2)


def _b(a):
    return np.ascontiguousarray(a).tobytes()


def _lookup(arr):
    d = {}
    for i, row in enumerate(arr):
        d.setdefault(_b(row), set()).add(i)
    return d


# =================================================================================== source description


class Source:
    """what the input mesh looked like just before the operation"""

    def __init__(self, V, F, kind, fdata, vdata, scale=1.0):
        self.V = np.array(V, dtype=np.float64).reshape((-1, 3))
        self.F = np.array(F, dtype=np.int64).reshape((-1, 3))
        self.nv, self.nf = len(self.V), len(self.F)
        self.kind = kind
        self.fdata = fdata  # name -> (nf, ...) array
        self.vdata = vdata  # name -> (nv, ...) array
        self.scale = scale
        self.crit_vn = vdata.get("vertex_normals")  # vertex normals sitting in the cache (merge criterion)
        self.watch_fn = "face_normals" in fdata  # face normals were cached: the output's must be right
        self.flook = {k: _lookup(v) for k, v in fdata.items()}
        self.vlook = {k: _lookup(v) for k, v in vdata.items()}
        self.T = self.V[self.F] if self.nf else np.zeros((0, 3, 3))
        self.Tp = {p: self.T[:, list(p), :] for p in PERMS}
        fin = self.V[np.isfinite(self.V)]
        self.vmax = float(np.abs(fin).max()) if fin.size else 1.0
        self.geom = {}
        for i in range(self.nf):
            self.geom.setdefault(_b(self.T[i]), []).append(i)

    def has_tags(self):
        return bool(self.fdata) or bool(self.vdata)


def build_mesh(D, tags, attach, via_constructor=None):
    """Trimesh carrying the requested tags. via_constructor = dict of extra constructor keywords: then everything is
    handed to Trimesh(...) at once (the 'constructor' operation)."""
    V, F = D["V"], D["F"]
    kw = {}
    vis = attach["visual"]
    if vis == "face":
        kw["face_colors"] = tags["FC"].copy()
    elif vis == "vertex":
        kw["vertex_colors"] = tags["VC"].copy()
    elif vis == "texture":
        kw["visual"] = trimesh.visual.TextureVisuals(uv=tags["UV"].copy())
    if attach["fattr"]:
        kw["face_attributes"] = {"tag": tags["FA_tag"].copy(), "vec": tags["FA_vec"].copy()}
    if attach["vattr"]:
        kw["vertex_attributes"] = {"tag": tags["VA_tag"].copy(), "vec": tags["VA_vec"].copy()}
    if via_constructor is not None:
        if attach["fnorm"]:
            kw["face_normals"] = tags["FN"].copy()
        if attach["vnorm"]:
            kw["vertex_normals"] = tags["VN"].copy()
        kw.update(via_constructor)
        return trimesh.Trimesh(vertices=V.copy(), faces=F.copy(), **kw)
    m = trimesh.Trimesh(vertices=V.copy(), faces=F.copy(), process=False, validate=False, **kw)
    if vis in ("painted_vertex", "painted_face") and len(F) and len(V):
        # no colour array is ever assigned: the default colours the visual creates on first access are edited in place
        # (some rows, or all of them), optionally followed by a read of the visual
        arr = m.visual.vertex_colors if vis == "painted_vertex" else m.visual.face_colors
        tag = tags["VC"] if vis == "painted_vertex" else tags["FC"]
        prs = np.random.RandomState(len(V) * 31 + len(F))
        sel = np.ones(len(arr), dtype=bool) if prs.rand() < 0.5 else prs.rand(len(arr)) < 0.5
        sel[int(prs.randint(len(arr)))] = True
        arr[sel] = tag[sel]
        m._vf_painted = np.array(arr)
        if attach.get("paint_read"):
            _ = m.visual.kind
    if attach["fnorm"]:
        m.face_normals = tags["FN"].copy()
    if attach["vnorm"]:
        m.vertex_normals = tags["VN"].copy()
    return m


def describe(D, tags, attach, mesh=None, scale=1.0, vn_cached=False):
    """Source of a mesh built by build_mesh; normals are read back from the mesh (the setter may have refused them)"""
    fdata, vdata = {}, {}
    vis = attach["visual"]
    if vis == "face":
        fdata["face_colors"] = tags["FC"]
    elif vis == "vertex":
        vdata["vertex_colors"] = tags["VC"]
    elif vis == "texture":
        vdata["uv"] = tags["UV"]
    elif vis == "painted_vertex" and mesh is not None and hasattr(mesh, "_vf_painted"):
        vdata["vertex_colors"] = mesh._vf_painted
        vis = "vertex"
    elif vis == "painted_face" and mesh is not None and hasattr(mesh, "_vf_painted"):
        fdata["face_colors"] = mesh._vf_painted
        vis = "face"
    if attach["fattr"]:
        fdata["fattr_tag"] = tags["FA_tag"]
        fdata["fattr_vec"] = tags["FA_vec"]
    if attach["vattr"]:
        vdata["vattr_tag"] = tags["VA_tag"]
        vdata["vattr_vec"] = tags["VA_vec"]
    finite = bool(np.isfinite(D["V"]).all())
    crit_vn = None
    watch_fn = False
    # normals take part in the tracking only as the attached tags (unique per element); normals computed by trimesh
    # are not unique and a recomputed value can coincide with another element's
    if mesh is not None and len(D["F"]):
        if attach["fnorm"] and _b(np.array(mesh.face_normals, dtype=np.float64)) == _b(tags["FN"]):
            fdata["face_normals"] = tags["FN"]
        watch_fn = (attach["fnorm"] or attach["warm"]) and finite
        if attach["vnorm"]:
            vdata["vertex_normals"] = tags["VN"]
            crit_vn = tags["VN"]
        elif (attach["warm"] and finite) or vn_cached:
            crit_vn = np.array(mesh.vertex_normals, dtype=np.float64)
    elif mesh is None:
        # constructor operation: what is handed over
        if attach["fnorm"]:
            fdata["face_normals"] = tags["FN"]
            watch_fn = True
        if attach["vnorm"]:
            vdata["vertex_normals"] = tags["VN"]
            crit_vn = tags["VN"]
    S = Source(D["V"], D["F"], vis, fdata, vdata, scale=scale)
    S.crit_vn = crit_vn
    S.watch_fn = bool(watch_fn)
    return S


def warm(mesh):
    """touch derived values so that they sit in the caches during the operation"""
    _ = mesh.triangles, mesh.face_normals, mesh.vertex_normals, mesh.edges_unique, mesh.face_adjacency, mesh.area_faces, mesh.bounds
    if mesh.visual.kind in ("face", "vertex"):
        _ = mesh.visual.face_colors, mesh.visual.vertex_colors


def derived_fresh(mesh, S, names, attach, tol, sigp, labels):
    """values read before the operation must afterwards have the row count of the current faces / vertices and equal
    what a fresh mesh built from the current arrays computes (NaN-aware); the only difference between the two sides
    is the history. Positions may have moved by the merge tolerance `tol`; normals kept through a merge are those of
    the unmerged corners (face) or of the unmerged vertex star (vertex: row count only)."""
    oV, oF = np.array(mesh.vertices, dtype=np.float64), np.array(mesh.faces, dtype=np.int64).reshape((-1, 3))
    if not len(oF) or not len(oV):
        return
    fresh = trimesh.Trimesh(oV.copy(), oF.copy(), process=False, validate=False)
    L, h = tri_extents(oV[oF])
    for nm in names:
        with np.errstate(all="ignore"):
            got, want = getattr(mesh, nm), getattr(fresh, nm)
        got, want = np.asarray(got), np.asarray(want)
        sig = sigp.split("|")[0] + f"|derived_stale|{nm}"
        opname = sigp.split("|")[1]
        if nm in ("edges_unique", "face_adjacency"):
            g = sorted(map(tuple, got.reshape((-1, 2)).tolist()))
            w = sorted(map(tuple, want.reshape((-1, 2)).tolist()))
            check(g == w, sig, f"mesh.{nm} read before {opname} has {len(g)} rows afterwards, a fresh mesh {len(w)}; as sets they {'agree' if set(g) == set(w) else 'differ'}")
            continue
        check(got.shape == want.shape, sig, f"mesh.{nm} read before {opname} has shape {got.shape} afterwards; the mesh has {len(oF)} faces / {len(oV)} vertices and a fresh mesh gives {want.shape}")
        if got.dtype.kind in "iub":
            check(np.array_equal(got, want), sig, lambda: f"mesh.{nm} read before {opname} differs afterwards from a fresh mesh at rows {np.nonzero((got != want).reshape((len(got), -1)).any(axis=1))[0][:5].tolist() if got.ndim else ''}")
            continue
        if nm == "vertex_normals" and (attach["vnorm"] or attach["fnorm"] or opname not in ("update_faces", "unique_faces", "nondegenerate_faces")):
            # vertex normals are kept through vertex masks / merges by design (those of the kept vertex and its former
            # star): only their row count is judged there
            continue
        if nm == "face_normals" and attach["fnorm"]:
            continue
        rows = np.ones(len(got), dtype=bool) if got.ndim else None
        atol = 1e-9 * max(S.scale, 1.0) ** 2 + 8 * tol * max(S.vmax, 1.0)
        if nm in ("face_normals", "face_angles", "vertex_normals"):
            if nm != "vertex_normals":
                rows = np.isfinite(h) & (h >= 1e-3 * S.scale)
            atol = 1e-9 + 8 * tol / (1e-3 * S.scale)
        with np.errstate(all="ignore"):
            if got.ndim:
                ok = np.isclose(got[rows], want[rows], rtol=1e-7, atol=atol, equal_nan=True)
                bad = np.nonzero(~ok.reshape((len(ok), -1)).all(axis=1))[0] if len(ok) else []
            else:
                bad = [] if np.isclose(got, want, rtol=1e-7, atol=atol, equal_nan=True) else [0]
        check(len(bad) == 0, sig, lambda: f"mesh.{nm} read before {opname} differs afterwards from a fresh mesh built from the current arrays, first at (kept) row {int(bad[0])}: {np.asarray(got[rows][bad[0]] if got.ndim else got).tolist()} vs {np.asarray(want[rows][bad[0]] if got.ndim else want).tolist()}")
    labels.append("derived:checked")


# =================================================================================== reading the output


def read_output(out, S, sigp, warmed):
    """-> (oV, oF, fdata_out, vdata_out) ; data the output does not have are simply missing from the dicts"""
    oV = np.array(out.vertices, dtype=np.float64)
    oF = np.array(out.faces)
    check(oF.dtype.kind in "iu", sigp + "|faces_dtype", f"faces dtype {oF.dtype}")
    oF = oF.astype(np.int64)
    if oF.size == 0:
        oF = oF.reshape((0, 3))  # an array without faces may be stored as (0,) (concatenation of face-less meshes)
    check(oV.ndim == 2 and oV.shape[1] == 3, sigp + "|vertices_shape", f"{oV.shape}")
    check(oF.ndim == 2 and oF.shape[1] == 3, sigp + "|faces_shape", f"{oF.shape}")
    if oF.size:
        check(int(oF.min()) >= 0 and int(oF.max()) < len(oV), sigp + "|index_range", f"faces in [{oF.min()},{oF.max()}] with {len(oV)} vertices")
    nf, nv = len(oF), len(oV)
    fo, vo = {}, {}
    vis = out.visual
    okind = None if vis is None else vis.kind
    suffix = {}
    if "face_colors" in S.fdata and okind is not None and okind != "texture":
        if okind != "face":
            suffix["face_colors"] = "|out_kind=" + str(okind)
        fc = np.array(vis.face_colors)
        check(fc.shape == (nf, 4) or (nf == 0 and len(fc) == 0), sigp + f"|face_colors|length|out_kind={okind}", f"face_colors shape {fc.shape} for {nf} faces")
        fo["face_colors"] = fc
    if "vertex_colors" in S.vdata and okind is not None and okind != "texture":
        if okind != "vertex":
            suffix["vertex_colors"] = "|out_kind=" + str(okind)
        vc = np.array(vis.vertex_colors)
        check(vc.shape == (nv, 4) or (nv == 0 and len(vc) == 0), sigp + f"|vertex_colors|length|out_kind={okind}", f"vertex_colors shape {vc.shape} for {nv} vertices")
        vo["vertex_colors"] = vc
    if "uv" in S.vdata and okind == "texture" and vis.uv is not None and len(vis.uv):
        uv = np.array(vis.uv, dtype=np.float64)
        check(uv.shape == (nv, 2), sigp + "|uv|length", f"uv shape {uv.shape} for {nv} vertices")
        vo["uv"] = uv
    for key, name in (("tag", "fattr_tag"), ("vec", "fattr_vec")):
        if name in S.fdata and key in out.face_attributes:
            a = np.array(out.face_attributes[key])
            check(len(a) == nf, sigp + "|face_attributes|length", f"face_attributes[{key}] has {len(a)} rows for {nf} faces")
            fo[name] = a
    for key, name in (("tag", "vattr_tag"), ("vec", "vattr_vec")):
        if name in S.vdata and key in out.vertex_attributes:
            a = np.array(out.vertex_attributes[key])
            check(len(a) == nv, sigp + "|vertex_attributes|length", f"vertex_attributes[{key}] has {len(a)} rows for {nv} vertices")
            vo[name] = a
    if S.watch_fn and nf:
        fn = np.array(out.face_normals, dtype=np.float64)
        check(fn.shape == (nf, 3), sigp + "|face_normals|length", f"{fn.shape}")
        fo["face_normals"] = fn
    if "vertex_normals" in S.vdata and nf and bool(np.isfinite(oV).all()):
        vn = np.array(out.vertex_normals, dtype=np.float64)
        check(vn.shape == (nv, 3), sigp + "|vertex_normals|length", f"{vn.shape}")
        vo["vertex_normals"] = vn
    return oV, oF, fo, vo, suffix


def derived_colors(out, S, sigp):
    """the colour array of the *other* kind is derived by the visual object and cached there; after the operation it
    must be what a freshly built visual derives (the only difference between the two sides is the history)"""
    vis = out.visual
    if vis is None or vis.kind not in ("face", "vertex") or S.kind != vis.kind:
        return
    nf, nv = len(out.faces), len(out.vertices)
    if nf == 0:
        return
    which = "vertex" if vis.kind == "face" else "face"
    sig = sigp.split("|")[0] + f"|derived_{which}_colors|stale"
    opname = sigp.split("|")[1]
    try:
        got = np.array(vis.vertex_colors if which == "vertex" else vis.face_colors)
    except ValueError as e:
        raise Violation(sig, f"reading visual.{which}_colors after {opname} raised ValueError: {e}")
    want_n = nv if which == "vertex" else nf
    check(got.shape == (want_n, 4), sig, f"visual.{which}_colors has shape {got.shape}, mesh has {want_n} {which}s")
    kw = {"face_colors": np.array(vis.face_colors)} if vis.kind == "face" else {"vertex_colors": np.array(vis.vertex_colors)}
    fresh = trimesh.Trimesh(np.array(out.vertices), np.array(out.faces), process=False, validate=False, **kw)
    ref = np.array(fresh.visual.vertex_colors if which == "vertex" else fresh.visual.face_colors)
    check(np.array_equal(got, ref), sig, lambda: f"visual.{which}_colors differs from a fresh derivation at rows {np.nonzero((got != ref).any(axis=1))[0][:5].tolist()}")


# =================================================================================== the tracking oracle


class Opt:
    def __init__(self, **kw):
        self.tol = 0.0  # corner tolerance (0 = bit exact)
        self.perm = False  # corners may be reordered (process(validate=True))
        self.order = "exact"  # exact (want_src) | increasing | any
        self.no_merge = True  # two source vertices must not end on one output vertex
        self.merge = None  # dict(dv, duv, dn, merge_tex, merge_norm) for merging operations
        self.pool = None  # set of already used source faces shared between the parts of one split
        self.normal_sign = False
        self.suffix = {}  # datum name -> extra signature text
        self.exclude = frozenset()  # source faces that cannot be in the output
        self.lenient = False  # non-finite slots of corners are judged after the tracking (nonfinite_corners)
        self.__dict__.update(kw)


def _dsig(sigp, name, clause, opt):
    """signature of a data violation; when the visual changed its kind the root cause is the visual object, not the
    operation, and the operation is left out of the signature"""
    if name in opt.suffix:
        return f"{sigp.split('|')[0]}|visual_kind_changed|{name}{opt.suffix[name]}|{clause}"
    return f"{sigp}|{name}|{clause}"


def _same_kind(x, y):
    """two non-finite values of the same kind (nan / +inf / -inf)"""
    return bool((np.isnan(x) and np.isnan(y)) or x == y)


def _close(a, b, tol, lenient=False):
    """finite slots within tol (bit-equal when tol is 0); a non-finite slot must hold the same non-finite value on
    both sides - unless `lenient`, which leaves every slot that is non-finite on either side to a later, classified
    check (nonfinite_corners)"""
    if tol == 0.0:
        return _b(a) == _b(b)
    a, b = np.asarray(a, dtype=np.float64).reshape(-1), np.asarray(b, dtype=np.float64).reshape(-1)
    fa, fb = np.isfinite(a), np.isfinite(b)
    both = fa & fb
    with np.errstate(all="ignore"):
        if not np.all(np.abs(a[both] - b[both]) <= tol + 4 * EPS * np.abs(b[both])):
            return False
    if lenient or both.all():
        return True
    if not np.array_equal(fa, fb):
        return False
    return all(_same_kind(x, y) for x, y in zip(a[~fa], b[~fb]))


def nonfinite_corners(S, res, oT, sigp):
    """merge with non-finite coordinates: a slot that is non-finite in the source corner must hold the same
    non-finite value in the output corner, and a finite slot must stay finite"""
    for j, (i, p) in enumerate(zip(res["src"], res["perm"])):
        sc = S.T[i][list(p)]
        oc = oT[j]
        for c in range(3):
            for k in range(3):
                x, y = sc[c][k], oc[c][k]
                if np.isfinite(x) and np.isfinite(y):
                    continue
                if not np.isfinite(x) and not np.isfinite(y):
                    check(_same_kind(x, y), sigp + "|nonfinite|distinct_nonfinite_values_merged", f"corner {c} of face {j} (source face {i}, source vertex {int(S.F[i][p[c]])} = {sc[c].tolist()}) now reads {oc[c].tolist()}: vertices holding different non-finite values in a coordinate were merged")
                else:
                    raise Violation(sigp + "|nonfinite|merged_with_finite", f"corner {c} of face {j} (source face {i}, source vertex {int(S.F[i][p[c]])} = {sc[c].tolist()}) now reads {oc[c].tolist()}: a vertex with a non-finite coordinate and a finite vertex were merged")


def mergeable(S, r, s, mp):
    """could source vertices r and s have been merged: position (and uv unless merge_tex) within the rounding cell
    width; mp None = an exact merge written by the harness (bit-equal positions)"""
    if mp is None:
        return _b(S.V[r]) == _b(S.V[s])
    if not _close(S.V[r], S.V[s], 10.0 ** (-mp["dv"]) * (1 + 1e-9) + 4 * EPS * S.vmax, lenient=bool(mp.get("lenient"))):
        return False
    with np.errstate(all="ignore"):
        if not mp["merge_tex"] and "uv" in S.vdata:
            uv = S.vdata["uv"]
            if not np.abs(uv[r] - uv[s]).max() <= 10.0 ** (-mp["duv"]) * (1 + 1e-9) + 4 * EPS * float(np.abs(uv).max()):
                return False
    return True


def track(S, oV, oF, fo, vo, want_src, opt, sigp):
    """Map every output face to a source face and check geometry, order and data. Returns dict(src, perm, rel,
    unambiguous)."""
    nfo = len(oF)
    oT = oV[oF] if nfo else np.zeros((0, 3, 3))
    if want_src is not None:
        check(nfo == len(want_src), sigp + "|face_count", f"{nfo} faces in the output, {len(want_src)} expected ({S.nf} in the source)")
    perms = PERMS if opt.perm else [IDENT]
    hgt = None
    if "face_normals" in fo:
        own, _ok = G.unit_normals(oV, oF)
        with np.errstate(all="ignore"):
            e = np.stack([oT[:, 1] - oT[:, 0], oT[:, 2] - oT[:, 1], oT[:, 0] - oT[:, 2]], axis=1)
            L = np.sqrt((e * e).sum(axis=2)).max(axis=1)
            A = np.sqrt((np.cross(e[:, 0], -e[:, 2]) ** 2).sum(axis=1))
            hgt = np.where(L > 0, A / np.where(L > 0, L, 1.0), 0.0)

    used = opt.pool if opt.pool is not None else set()
    src, prm = [], []
    unambiguous = True
    perm_amb = set()
    last = -1
    for j in range(nfo):
        # ---- stage 1: geometry
        c1 = []
        if want_src is not None or (opt.tol == 0.0 and not opt.perm):
            cand0 = [int(want_src[j])] if want_src is not None else S.geom.get(_b(oT[j]), [])
            for i in cand0:
                for p in perms:
                    if _close(oT[j], S.T[i][list(p)], opt.tol, lenient=opt.lenient):
                        c1.append((i, p))
                        break
        else:
            # per source face the corner order that fits best; when two corners of a face lie within the tolerance of
            # each other several orders fit and the vertex relation through this face is not certain
            best = {}
            lim = opt.tol + 4 * EPS * S.vmax
            for p in perms:
                with np.errstate(all="ignore"):
                    dd = np.abs(S.Tp[p] - oT[j]).max(axis=(1, 2))
                for i in np.nonzero(dd <= lim)[0]:
                    i = int(i)
                    if i in opt.exclude:
                        continue
                    if i not in best:
                        best[i] = [float(dd[i]), p, 1]
                    else:
                        best[i][2] += 1
                        if float(dd[i]) < best[i][0]:
                            best[i][0], best[i][1] = float(dd[i]), p
            c1 = sorted((i, b[1]) for i, b in best.items())
            perm_amb.update(i for i, b in best.items() if b[2] > 1)
        if not c1:
            if want_src is not None:
                i = int(want_src[j])
                raise Violation(sigp + "|triangle_moved", f"output face {j} (source face {i}) has corners {oT[j].tolist()}, source corners {S.T[i].tolist()}")
            raise Violation(sigp + "|triangle_not_in_source", f"output face {j} with corners {oT[j].tolist()} matches no source face")
        # ---- stage 2: per-face data
        c2 = c1
        for name, arr in sorted(fo.items(), key=lambda kv: (kv[0] in opt.suffix, kv[0])):  # data of a visual that changed kind last
            look = S.flook.get(name, {})
            hit = look.get(_b(arr[j]))
            if name == "face_normals":
                if hit is None and opt.normal_sign:
                    hit = look.get(_b(-arr[j]))
                if hit is None:
                    # not a cached source value: must then be a correct recomputation
                    if hgt is not None and np.isfinite(hgt[j]) and hgt[j] >= 1e-3 * S.scale:
                        d = min(np.abs(arr[j] - own[j]).max(), np.abs(arr[j] + own[j]).max() if opt.normal_sign else np.inf)
                        # a normal kept through a merge is that of the unmerged corners: each moved by <= tol
                        check(d <= 1e-9 + 4 * opt.tol / hgt[j], sigp + "|face_normals|wrong_value", f"face normal {arr[j].tolist()} of output face {j} is neither the cached normal of its source face nor the normal {own[j].tolist()} of its corners")
                    continue
            if hit is None:
                raise Violation(_dsig(sigp, name, "foreign_value", opt), f"{name}[{j}] = {np.asarray(arr[j]).tolist()} does not occur in the source")
            nxt = [(i, p) for i, p in c2 if i in hit]
            if not nxt:
                raise Violation(
                    _dsig(sigp, name, "misaligned", opt),
                    f"{name}[{j}] = {np.asarray(arr[j]).tolist()} belongs to source face(s) {sorted(hit)[:4]} but output face {j} is source face {[i for i, _ in c1][:4]} (corners {oT[j].tolist()})",
                )
            c2 = nxt
        # ---- stage 3: per-vertex data at the three corners
        c3 = c2
        for name, arr in vo.items():
            look = S.vlook[name]
            hits = []
            for c in range(3):
                k = int(oF[j][c])
                h = look.get(_b(arr[k]))
                if h is None and name != "vertex_normals":
                    raise Violation(_dsig(sigp, name, "foreign_value", opt), f"{name}[{k}] = {np.asarray(arr[k]).tolist()} does not occur in the source")
                hits.append(h)
            if opt.no_merge:
                fits = lambda s_, h_: s_ in h_  # noqa
            else:
                # merging operation: the datum is that of ONE OF the merged vertices, which all satisfy the criterion
                fits = lambda s_, h_: s_ in h_ or any(mergeable(S, r, s_, opt.merge) for r in h_)  # noqa
            nxt = [(i, p) for i, p in c3 if all(hits[c] is None or fits(int(S.F[i][p[c]]), hits[c]) for c in range(3))]
            if not nxt:
                i, p = c3[0]
                bad = [c for c in range(3) if hits[c] is not None and not fits(int(S.F[i][p[c]]), hits[c])]
                c = bad[0]
                raise Violation(
                    _dsig(sigp, name, "misaligned", opt),
                    f"output vertex {int(oF[j][c])} (corner {c} of output face {j} = source face {i}, source vertex {int(S.F[i][p[c]])}) carries {name} = {np.asarray(arr[int(oF[j][c])]).tolist()} of source vertex/vertices {sorted(hits[c])[:4]}"
                    + ("" if opt.no_merge else ", which cannot have been merged with it"),
                )
            c3 = nxt
        # ---- choose
        if want_src is None:
            free = [(i, p) for i, p in c3 if i not in used and (opt.order != "increasing" or i > last)]
            if not free:
                if opt.suffix:
                    nm = sorted(opt.suffix)[0]
                    raise Violation(_dsig(sigp, nm, "misaligned", opt), f"output face {j} carries {nm} of source face {[i for i, _ in c3][:4]}, which is already accounted for")
                if opt.order == "increasing" and any(i not in used for i, _ in c3):
                    raise Violation(sigp + "|face_order", f"output face {j} is source face {[i for i, _ in c3][:4]} but the previous output face was source face {last}: relative order not kept")
                raise Violation(sigp + "|face_duplicated", f"output face {j} (source {[i for i, _ in c3][:4]}) appears more often than in the source")
            if len({i for i, _ in free}) > 1:
                unambiguous = False
            i, p = min(free)
            if i in perm_amb:
                unambiguous = False
            used.add(i)
            last = i
        else:
            i, p = c3[0]
        src.append(i)
        prm.append(p)

    # ---- relation source vertex -> output vertex through matched corners
    rel = {}
    for j, (i, p) in enumerate(zip(src, prm)):
        for c in range(3):
            rel.setdefault(int(oF[j][c]), set()).add(int(S.F[i][p[c]]))
    if opt.no_merge and unambiguous:
        for k, ss in rel.items():
            if len(ss) > 1:
                raise Violation(sigp + "|unexpected_vertex_merge", f"source vertices {sorted(ss)} all ended on output vertex {k} in an operation that does not merge")
    if not opt.no_merge:
        # merging operation: the datum of an output vertex is that of ONE OF the source vertices that ended on it
        for name, arr in vo.items():
            look = S.vlook[name]
            for k in sorted(rel):
                h = look.get(_b(arr[k]))
                if h is None:
                    if name == "vertex_normals":
                        continue
                    raise Violation(_dsig(sigp, name, "foreign_value", opt), f"{name}[{k}] = {np.asarray(arr[k]).tolist()} does not occur in the source")
                ok = bool(h & rel[k])
                if not ok and not unambiguous:
                    # several source faces fit an output face (repeated faces): the relation may be incomplete, accept a
                    # source vertex at the position of one that is known to have ended here
                    lim = opt.tol + 4 * EPS * S.vmax
                    with np.errstate(all="ignore"):
                        ok = any(np.abs(S.V[r] - S.V[q]).max() <= lim for r in h for q in rel[k])
                if not ok:
                    raise Violation(_dsig(sigp, name, "misaligned", opt), f"output vertex {k} was made from source vertices {sorted(rel[k])} but carries {name} = {np.asarray(arr[k]).tolist()} of source vertex/vertices {sorted(h)[:4]}")
    return {"src": src, "perm": prm, "rel": rel, "unambiguous": unambiguous}


def qkey(X, digits):
    with np.errstate(all="ignore"):
        s = np.asarray(X, dtype=np.float64) * (10.0 ** int(digits))
        r = np.floor(s + 0.5)
        margin = np.abs(s - np.floor(s) - 0.5)
    return r, margin


def check_merge(S, res, oV, vo, mp, sigp, ctx_labels):
    """merge criterion: soundness always (compared components within 10^-digits), completeness when safely inside
    the rounding cells"""
    rel = res["rel"]
    comps = [("position", S.V, mp["dv"])]
    if not mp["merge_tex"] and "uv" in S.vdata:
        comps.append(("uv", S.vdata["uv"], mp["duv"]))
    vn = S.crit_vn
    unknown_norm = False
    if mp.get("norm_if_carried"):
        # process(validate=True) edits faces before it merges, outside the cache lock: cached vertex normals may be
        # gone by then (absent is allowed); they are part of the criterion only when they visibly came through
        arr = vo.get("vertex_normals")
        look = S.vlook.get("vertex_normals", {})
        if arr is None or not any(_b(r) in look for r in arr):
            unknown_norm = vn is not None and not mp["merge_norm"]
            vn = None
    if not mp["merge_norm"] and vn is not None and bool(np.isfinite(vn).all()):
        comps.append(("normal", vn, mp["dn"]))
    elif not mp["merge_norm"] and vn is not None:
        unknown_norm = True  # cached normals with non-finite rows: what they do to the key is not modelled
    merged = False
    for k, ss in rel.items():
        if len(ss) < 2:
            continue
        merged = True
        ss = sorted(ss)
        for name, arr, dg in comps:
            if name != "position" and not res["unambiguous"]:
                continue
            tol = 10.0 ** (-dg)
            sub = arr[ss]
            cols = np.isfinite(sub).all(axis=0)  # non-finite slots are judged by nonfinite_corners
            if not cols.any():
                continue
            sub = sub[:, cols]
            spread = (sub.max(axis=0) - sub.min(axis=0)).max()
            lim = tol * (1 + 1e-9) + 4 * EPS * np.abs(sub).max()
            check(spread <= lim, sigp + f"|merged_beyond_tolerance|{name}", lambda: f"source vertices {ss} were merged into output vertex {k} but their {name} differs by {spread:.3e} > 10^-{dg}: {sub.tolist()}")
    if merged:
        ctx_labels.append("effect:vertices_merged")
    # a source vertex must not be split over several output vertices by a merge
    where = {}
    for k, ss in rel.items():
        for s in ss:
            where.setdefault(s, set()).add(k)
    for s, ks in where.items():
        check(len(ks) == 1 or not res["unambiguous"], sigp + "|vertex_split", f"source vertex {s} ended on output vertices {sorted(ks)}")
    # completeness
    keys, safe = [], np.ones(S.nv, dtype=bool)
    for name, arr, dg in comps:
        r, m = qkey(arr, dg)
        keys.append(r)
        with np.errstate(all="ignore"):
            safe &= (m >= 0.01).all(axis=1) & np.isfinite(r).all(axis=1)
    K = np.column_stack(keys)
    groups = {}
    for s in where:
        if safe[s]:
            groups.setdefault(_b(K[s]), []).append(s)
    strict = 0
    for g in groups.values():
        if len(g) < 2 or unknown_norm:
            continue
        strict += 1
        ks = {k for s in g for k in where[s]}
        check(len(ks) == 1 or not res["unambiguous"], sigp + "|not_merged", lambda: f"referenced source vertices {g} round to the same integers in every compared component (position{', uv' if len(comps) > 1 else ''}) but ended on different output vertices {sorted(ks)}: positions {S.V[g].tolist()}")
    if strict:
        ctx_labels.append("merge:same_cell_group_checked")


def vertices_untouched(S, oV, vo, sigp):
    check(len(oV) == S.nv, sigp + "|vertex_count", f"{len(oV)} vertices, {S.nv} expected (operation does not touch vertices)")
    check(_b(oV) == _b(S.V), sigp + "|vertices_changed", "vertex array changed in an operation on faces only")
    for name, arr in vo.items():
        if name == "vertex_normals":
            # may be dropped and recomputed: rows that are source values must be in place
            look = S.vlook[name]
            for k in range(len(arr)):
                h = look.get(_b(arr[k]))
                check(h is None or k in h, sigp + f"|{name}|misaligned", lambda: f"{name}[{k}] is the value of source vertex {sorted(h)[:4]}")
            continue
        check(_b(arr) == _b(S.vdata[name]), sigp + f"|{name}|changed", f"{name} changed in an operation on faces only")


def vertices_by_mask(S, oV, vo, vsrc, sigp):
    """output vertex k must be source vertex vsrc[k] (numpy mask semantics), with all its data"""
    check(len(oV) == len(vsrc), sigp + "|vertex_count", f"{len(oV)} vertices, {len(vsrc)} expected")
    if len(vsrc) == 0:
        return
    check(_b(oV) == _b(S.V[vsrc]), sigp + "|vertices|misaligned", lambda: f"vertices differ from source[mask] at rows {np.nonzero((oV != S.V[vsrc]).any(axis=1))[0][:5].tolist()}")
    for name, arr in vo.items():
        want = S.vdata[name][vsrc]
        if name == "vertex_normals":
            look = S.vlook[name]
            for k in range(len(arr)):
                h = look.get(_b(arr[k]))
                check(h is None or int(vsrc[k]) in h, sigp + f"|{name}|misaligned", lambda: f"{name}[{k}] is the value of source vertex {sorted(h)[:4]}, expected that of {int(vsrc[k])}")
            continue
        check(_b(np.asarray(arr)) == _b(want.astype(np.asarray(arr).dtype)), sigp + f"|{name}|misaligned", lambda: f"{name} differs from source[mask] at rows {[k for k in range(len(arr)) if _b(arr[k]) != _b(want[k])][:5]}")


def carried_labels(S, fo, vo, labels):
    for name, arr in list(fo.items()) + list(vo.items()):
        if name in ("face_normals", "vertex_normals"):
            look = S.flook.get(name, {}) if name == "face_normals" else S.vlook[name]
            if any(_b(r) in look for r in arr):
                labels.append("carried:" + name)
        else:
            labels.append("carried:" + name)


# =================================================================================== oracle pieces for masks


def ref_unique_faces(F):
    seen, out = set(), []
    for f in F.tolist():
        k = tuple(sorted(f))
        out.append(k not in seen)
        seen.add(k)
    return np.array(out, dtype=bool).reshape(-1)


def tri_extents(T):
    """(longest edge, smallest altitude) of every triangle = sides of its 2D oriented bounding box"""
    with np.errstate(all="ignore"):
        e = np.stack([T[:, 1] - T[:, 0], T[:, 2] - T[:, 1], T[:, 0] - T[:, 2]], axis=1)
        L = np.sqrt((e * e).sum(axis=2)).max(axis=1)
        A = np.sqrt((np.cross(e[:, 0], -e[:, 2]) ** 2).sum(axis=1))
        h = np.where(L > 0, A / np.where(L > 0, L, 1.0), 0.0)
    return L, h


def finite_faces(S):
    if S.nf == 0:
        return np.zeros(0, dtype=bool)
    return np.isfinite(S.T).all(axis=(1, 2))


# =================================================================================== the operations


def _int_mask(op, n, rs):
    style = op["mask"]
    if style == "bool":
        m = rs.rand(n) < op.get("p", 0.6)
        return m, np.nonzero(m)[0]
    if style == "bool_drop_few":
        m = np.ones(n, dtype=bool)
        if n > 1:
            m[rs.choice(n, size=min(int(op.get("k", 1)), n - 1), replace=False)] = False
        return m, np.nonzero(m)[0]
    if style == "int":
        idx = np.sort(rs.choice(n, size=max(1, int(n * op.get("p", 0.6))), replace=False))
        return idx.astype(np.int64), idx
    if style == "int_unsorted":
        idx = rs.choice(n, size=max(1, int(n * op.get("p", 0.6))), replace=False)
        return idx.astype(np.int64), idx
    if style == "int_repeats":
        idx = rs.randint(0, n, size=max(1, int(n * op.get("p", 0.6)) + 2))
        return idx.astype(np.int64), idx
    if style == "perm":
        idx = rs.permutation(n)
        return idx.astype(np.int64), idx
    if style == "list":
        idx = np.sort(rs.choice(n, size=max(1, int(n * op.get("p", 0.6))), replace=False))
        return [int(i) for i in idx], idx
    raise ValueError(style)


FACE_MASKS = ["bool", "bool", "bool_drop_few", "bool_drop_few", "int", "int_unsorted", "int_repeats", "perm", "list"]


CARRYING = {
    "update_faces", "unique_faces", "nondegenerate_faces", "update_vertices", "remove_unreferenced_vertices",
    "unmerge_vertices", "merge_vertices", "remove_infinite_values", "process", "constructor",
}  # fmt: skip


@body("C07.ops")
def b_ops(case, ctx):
    op = case["op"]
    name = op["name"]
    attach = case["attach"]
    dspec = case["dirty"]
    scale = float(dspec.get("scale", 1.0))
    dv = op.get("digits_vertex")
    D = G.build_dirty(dspec, dv=8 if dv is None else dv)
    tags = G.make_tags(D)
    rs = np.random.RandomState((int(dspec.get("seed", 0)) * 31 + 17) & 0x7FFFFFFF)
    labels = ["op:" + name, "tag:" + attach["visual"]] + ["dirt:" + x for x in sorted(set(D["info"]))]
    for k in ("fattr", "vattr", "fnorm", "vnorm", "warm"):
        if attach[k]:
            labels.append("tag:" + k)
    if attach["visual"].startswith("painted") and name != "constructor":
        labels.append("paint:" + ("read_before_op" if attach.get("paint_read") or attach["warm"] else "unread"))
    sigp = f"C07.ops|{name}"

    if name == "constructor":
        S = describe(D, tags, attach, mesh=None, scale=scale)
        if not S.nf:
            ctx.note(cls=labels)
            return
        kw = {"process": True, "validate": bool(op.get("validate")), "merge_tex": op.get("merge_tex"), "merge_norm": op.get("merge_norm")}
        mesh = build_mesh(D, tags, attach, via_constructor=kw)
        outs = _expect_process(S, mesh, op, labels, sigp)
    else:
        mesh = build_mesh(D, tags, attach)
        if attach["warm"] and bool(np.isfinite(D["V"]).all()) and len(D["F"]):
            warm(mesh)
        derived = [d for d in attach.get("derived") or [] if name in CARRYING and len(D["F"])]
        for nm in derived:
            with np.errstate(all="ignore"):
                _ = getattr(mesh, nm)
        S = describe(D, tags, attach, mesh=mesh, scale=scale, vn_cached="vertex_normals" in derived)
        if not S.nf:
            ctx.note(cls=labels)
            return
        if derived:
            labels.append("derived:read_before_op")
            if not bool(np.isfinite(D["V"]).all()):
                labels.append("derived:read_on_nonfinite_mesh")
        outs = OPS[name](S, mesh, op, rs, labels, sigp)

    changed = False
    finals = [x for x in outs if callable(x)]
    for out, want_src, opt, post in [x for x in outs if not callable(x)]:
        oV, oF, fo, vo, opt.suffix = read_output(out, S, sigp, attach["warm"])
        if name in CARRYING and len(oF) and len(oV):
            # these operations mask the mesh in place and document that colours / uv / attributes are kept along
            # ("keeping track of normals and colors", "apply a mask to remove or duplicate vertex properties"): here a
            # datum that is gone is a defect, not a documented omission
            for nm in list(S.fdata) + list(S.vdata):
                if nm not in ("face_normals", "vertex_normals") and nm not in fo and nm not in vo:
                    how = "painted in place on the default colours" if attach["visual"].startswith("painted") else "attached"
                    raise Violation(sigp + f"|{nm}|dropped", f"{nm} ({how}) is no longer there after {name}: visual kind {getattr(out.visual, 'kind', None)}")
        res = track(S, oV, oF, fo, vo, want_src, opt, sigp)
        if post is not None and opt.lenient:
            post(res, oV, oF, fo, vo)
        if opt.merge is not None:
            check_merge(S, res, oV, vo, opt.merge, sigp, labels)
        if post is not None and not opt.lenient:
            post(res, oV, oF, fo, vo)
        if attach["warm"] and name != "constructor" and isinstance(out, trimesh.Trimesh):
            derived_colors(out, S, sigp)
        if name != "constructor" and name in CARRYING and isinstance(out, trimesh.Trimesh) and attach.get("derived"):
            derived_fresh(out, S, attach["derived"], attach, opt.tol, sigp, labels)
        carried_labels(S, fo, vo, labels)
        if res["src"] != list(range(S.nf)) or len(oV) != S.nv or not np.array_equal(oF, S.F):
            changed = True
    for fn in finals:
        fn()
    ctx.note(nontrivial=changed and S.has_tags(), cls=sorted(set(labels)))


# ---- individual operations: each returns a list of (output mesh, want_src | None, Opt, post-check | None)


def op_update_faces(S, mesh, op, rs, labels, sigp):
    mask, idx = _int_mask(op, S.nf, rs)
    labels.append("mask:" + op["mask"])
    mesh.update_faces(mask)

    def post(res, oV, oF, fo, vo):
        vertices_untouched(S, oV, vo, sigp)
        # pure face masking keeps the index triples themselves
        check(np.array_equal(oF, S.F[idx]), sigp + "|faces_reindexed", "faces differ from faces[mask]")

    if len(idx) < S.nf:
        labels.append("effect:faces_dropped")
    return [(mesh, [int(i) for i in idx], Opt(), post)]


def op_unique_faces(S, mesh, op, rs, labels, sigp):
    mask = np.array(mesh.unique_faces())
    ref = ref_unique_faces(S.F)
    check(mask.dtype == bool and mask.shape == (S.nf,), sigp + "|mask_shape", f"{mask.dtype} {mask.shape}")
    check(np.array_equal(mask, ref), sigp + "|mask", lambda: f"unique_faces() = {mask.tolist()}, first occurrences of the sorted index triples are {ref.tolist()}")
    mesh.update_faces(mask)
    if not ref.all():
        labels.append("effect:faces_dropped")

    def post(res, oV, oF, fo, vo):
        vertices_untouched(S, oV, vo, sigp)

    return [(mesh, [int(i) for i in np.nonzero(ref)[0]], Opt(), post)]


def op_nondegenerate(S, mesh, op, rs, labels, sigp):
    height = op.get("height")
    h = 1e-8 if height is None else float(height)
    mask = np.array(mesh.nondegenerate_faces() if height is None else mesh.nondegenerate_faces(height=height))
    check(mask.dtype == bool and mask.shape == (S.nf,), sigp + "|mask_shape", f"{mask.dtype} {mask.shape}")
    L, alt = tri_extents(S.T)
    small = np.minimum(L, alt)
    rep = np.array([len(set(f)) < 3 for f in S.F.tolist()], dtype=bool)
    must_drop = rep | (small <= h / 2)
    must_keep = ~rep & (small >= 2 * h)
    bad = np.nonzero(mask & must_drop)[0]
    check(len(bad) == 0, sigp + "|mask|degenerate_kept", lambda: f"faces {bad.tolist()[:5]} (index triples {S.F[bad][:3].tolist()}, smaller box side {small[bad][:3].tolist()}) reported nondegenerate at height {h}")
    bad = np.nonzero(~mask & must_keep)[0]
    check(len(bad) == 0, sigp + "|mask|fat_dropped", lambda: f"faces {bad.tolist()[:5]} with smaller box side {small[bad][:3].tolist()} reported degenerate at height {h}")
    mesh.update_faces(mask)
    if not mask.all():
        labels.append("effect:faces_dropped")

    def post(res, oV, oF, fo, vo):
        vertices_untouched(S, oV, vo, sigp)

    return [(mesh, [int(i) for i in np.nonzero(mask)[0]], Opt(), post)]


def _referenced(S):
    ref = np.zeros(S.nv, dtype=bool)
    ref[S.F.reshape(-1)] = True
    return ref


def op_update_vertices(S, mesh, op, rs, labels, sigp):
    form = op["form"]
    labels.append("vmask:" + form)
    ref = _referenced(S)
    unref = np.nonzero(~ref)[0]
    if form in ("bool", "bool_inverse"):
        mask = ref.copy()
        for v in unref:
            if rs.rand() < 0.4:
                mask[v] = True
        vsrc = np.nonzero(mask)[0]
        if form == "bool":
            mesh.update_vertices(mask)
        else:
            inverse = np.zeros(S.nv, dtype=np.int64)
            inverse[mask] = np.arange(mask.sum())
            mesh.update_vertices(mask, inverse=inverse)
        opt = Opt()
    elif form == "perm":
        vsrc = rs.permutation(S.nv)
        mesh.update_vertices(vsrc.astype(np.int64))
        opt = Opt()
    elif form == "int_repeats":
        # every referenced vertex at least once, some twice
        vsrc = np.concatenate((np.nonzero(ref)[0], rs.choice(S.nv, size=min(3, S.nv))))
        vsrc = vsrc[rs.permutation(len(vsrc))]
        mesh.update_vertices(vsrc.astype(np.int64))
        opt = Opt()
    else:  # "merge": representatives of bit-identical positions (+ identical data) and an inverse, as merge_vertices does
        # tagged per-vertex data are unique per vertex: then nothing can be merged, but the mask form is the same
        if any(nm != "vertex_normals" for nm in S.vdata):
            groups = [[int(v)] for v in np.nonzero(ref)[0]]
        else:
            g = {}
            for v in np.nonzero(ref)[0]:
                g.setdefault(_b(S.V[v]), []).append(int(v))
            groups = list(g.values())
        order = rs.permutation(len(groups))
        vsrc = np.array([groups[i][0] for i in order], dtype=np.int64)
        inverse = np.zeros(S.nv, dtype=np.int64)
        for new, i in enumerate(order):
            inverse[groups[i]] = new
        mesh.update_vertices(vsrc, inverse=inverse)
        opt = Opt(no_merge=False)
    if len(vsrc) != S.nv or not np.array_equal(vsrc, np.arange(S.nv)):
        labels.append("effect:vertices_reindexed")

    def post(res, oV, oF, fo, vo):
        if form == "bool" and mask.all():
            vertices_untouched(S, oV, vo, sigp)
        else:
            vertices_by_mask(S, oV, vo, vsrc, sigp)

    return [(mesh, list(range(S.nf)), opt, post)]


def op_remove_unreferenced(S, mesh, op, rs, labels, sigp):
    ref = _referenced(S)
    mesh.remove_unreferenced_vertices()
    if not ref.all():
        labels.append("effect:vertices_dropped")

    def post(res, oV, oF, fo, vo):
        check(len(oV) == int(ref.sum()), sigp + "|vertex_count", f"{len(oV)} vertices left, {int(ref.sum())} are referenced")
        check(len(res["rel"]) == len(oV), sigp + "|unreferenced_left", "an unreferenced vertex is left")

    return [(mesh, list(range(S.nf)), Opt(), post)]


def op_unmerge(S, mesh, op, rs, labels, sigp):
    mesh.unmerge_vertices()
    labels.append("effect:vertices_duplicated")

    def post(res, oV, oF, fo, vo):
        check(len(oV) == 3 * S.nf and np.array_equal(oF.reshape(-1), np.arange(3 * S.nf)), sigp + "|not_unmerged", f"faces after unmerge are not three unique indices each: {oF[:4].tolist()} with {len(oV)} vertices")

    return [(mesh, list(range(S.nf)), Opt(), post)]


def _merge_params(op):
    return {
        "dv": 8 if op.get("digits_vertex") is None else int(op["digits_vertex"]),
        "duv": 4 if op.get("digits_uv") is None else int(op["digits_uv"]),
        "dn": 2 if op.get("digits_norm") is None else int(op["digits_norm"]),
        "merge_tex": bool(op.get("merge_tex")),
        "merge_norm": bool(op.get("merge_norm")),
    }


def op_merge_vertices(S, mesh, op, rs, labels, sigp):
    kw = {k: op[k] for k in ("merge_tex", "merge_norm", "digits_vertex", "digits_norm", "digits_uv") if op.get(k) is not None}
    with np.errstate(invalid="ignore"):  # the NaN -> int64 cast inside warns; the outcome is what is judged
        mesh.merge_vertices(**kw)
    mp = _merge_params(op)
    labels.append("merge:digits_vertex=%s" % ("default" if op.get("digits_vertex") is None else "set"))
    nonfin = not bool(np.isfinite(S.V).all())
    mp["lenient"] = nonfin
    post = None
    if nonfin:
        # merge_vertices itself does not remove non-finite vertices: every face stays, and its non-finite corners
        # keep their non-finite values
        labels.append("merge:nonfinite_input")

        def post(res, oV, oF, fo, vo):
            nonfinite_corners(S, res, oV[oF], sigp)

    return [(mesh, list(range(S.nf)), Opt(tol=10.0 ** (-mp["dv"]) * (1 + 1e-9), no_merge=False, merge=mp, lenient=nonfin), post)]


def _nonfinite_guard(S, out, sigp):
    """faces with a non-finite corner cannot survive unchanged: the docstring says they are removed"""
    fin = finite_faces(S)
    nfo = len(out.faces)
    if not fin.all() and nfo > int(fin.sum()):
        bad = np.nonzero(~fin)[0]
        oF = np.array(out.faces)
        raise Violation(
            "C07.ops|nonfinite|face_with_removed_vertex_survives",
            f"{sigp.split('|')[1]}: source faces {bad.tolist()[:5]} have a NaN/inf corner; the vertex was removed but {nfo} faces are left "
            f"({int(fin.sum())} have finite corners): such a face now reads {oF[bad[0]].tolist() if bad[0] < nfo else '?'} (was {S.F[bad[0]].tolist()})",
        )
    return fin


def op_remove_infinite(S, mesh, op, rs, labels, sigp):
    mesh.remove_infinite_values()
    fin = _nonfinite_guard(S, mesh, sigp)
    vfin = np.isfinite(S.V).all(axis=1)
    if not vfin.all():
        labels.append("effect:vertices_dropped")

    def post(res, oV, oF, fo, vo):
        check(bool(np.isfinite(oV).all()), sigp + "|nonfinite_vertex_left", f"vertices still hold {oV[~np.isfinite(oV).all(axis=1)][:2].tolist()}")
        vertices_by_mask(S, oV, vo, np.nonzero(vfin)[0], sigp)

    return [(mesh, [int(i) for i in np.nonzero(fin)[0]], Opt(), post)]


def _expect_process(S, mesh, op, labels, sigp):
    """the mesh has been processed (method or constructor): one output, source faces resolved by tags / geometry"""
    validate = bool(op.get("validate"))
    fin = _nonfinite_guard(S, mesh, sigp)
    mp = _merge_params(op)
    mp["norm_if_carried"] = validate
    opt = Opt(tol=1e-8 * (1 + 1e-9), perm=validate, order="increasing", no_merge=False, merge=mp, normal_sign=validate)
    L, alt = tri_extents(S.T)
    with np.errstate(all="ignore"):
        small = np.minimum(L, alt)
    first = ref_unique_faces(S.F)
    rep = np.array([len(set(f)) < 3 for f in S.F.tolist()], dtype=bool)

    def post(res, oV, oF, fo, vo):
        check(bool(np.isfinite(oV).all()), sigp + "|nonfinite_vertex_left", "non-finite vertex left after process")
        kept = set(res["src"])
        must = fin & first & ~rep & (small >= 2e-8) if validate else fin
        check(len(kept) >= int(must.sum()), sigp + "|face_count", f"{len(kept)} faces kept but {int(must.sum())} source faces have no reason to be dropped (validate={validate})")
        for i in range(S.nf):
            if i in kept or not res["unambiguous"]:
                continue
            why = (not fin[i]) or (validate and ((not first[i]) or rep[i] or not (small[i] >= 2e-8)))
            check(why, sigp + "|face_dropped_without_reason", f"source face {i} {S.F[i].tolist()} (finite, {'first occurrence, ' if first[i] else ''}smaller box side {small[i]:.3e}) is missing from the output (validate={validate})")
        if len(kept) < S.nf:
            labels.append("effect:faces_dropped")
        if not validate:
            check(len(kept) == int(fin.sum()), sigp + "|face_count", f"{len(kept)} faces kept, {int(fin.sum())} finite source faces")

    want = None if validate else [int(i) for i in np.nonzero(fin)[0]]
    if validate:
        # unique_faces() / nondegenerate_faces() (checked on their own) certainly drop these
        opt.exclude = frozenset(int(i) for i in np.nonzero(~fin | ~first | rep)[0])
    return [(mesh, want, opt, post)]


def op_process(S, mesh, op, rs, labels, sigp):
    kw = {k: op[k] for k in ("merge_tex", "merge_norm") if op.get(k) is not None}
    mesh.process(validate=bool(op.get("validate")), **kw)
    return _expect_process(S, mesh, op, labels, sigp)


def _seq_items(op, nf, rs):
    """faces_sequence for submesh: list of (item as passed, index array)"""
    items = []
    for style in op["items"]:
        if style == "bool":
            m = rs.rand(nf) < 0.5
            if not m.any():
                m[int(rs.randint(nf))] = True
            items.append((m, np.nonzero(m)[0]))
        elif style == "int":
            idx = rs.choice(nf, size=int(rs.randint(1, nf + 1)), replace=False)
            items.append((idx.astype(np.int64), idx))
        elif style == "sorted":
            idx = np.sort(rs.choice(nf, size=int(rs.randint(1, nf + 1)), replace=False))
            items.append(([int(i) for i in idx], idx))
        elif style == "tuple":
            idx = rs.choice(nf, size=int(rs.randint(1, min(nf, 4) + 1)), replace=False)
            items.append((tuple(int(i) for i in idx), idx))
        elif style == "repeats":
            idx = rs.randint(0, nf, size=int(rs.randint(2, nf + 3)))
            items.append((idx.astype(np.int64), idx))
        elif style == "single":
            idx = np.array([int(rs.randint(nf))])
            items.append((idx, idx))
        elif style == "empty":
            items.append((np.zeros(0, dtype=np.int64), np.zeros(0, dtype=np.int64)))
        elif style == "empty_bool":
            items.append((np.zeros(nf, dtype=bool), np.zeros(0, dtype=np.int64)))
    return items


def _edge_watertight(F):
    cnt = {}
    for f in F.tolist():
        for a, b in ((f[0], f[1]), (f[1], f[2]), (f[2], f[0])):
            k = (a, b) if a < b else (b, a)
            cnt[k] = cnt.get(k, 0) + 1
    return len(cnt) > 0 and all(v == 2 for v in cnt.values())


def op_submesh(S, mesh, op, rs, labels, sigp):
    items = _seq_items(op, S.nf, rs)
    append = bool(op.get("append"))
    ow = bool(op.get("only_watertight"))
    labels.append(f"submesh:append={append}:only_watertight={ow}")
    got = mesh.submesh([it for it, _ in items], append=append, only_watertight=ow, repair=False)
    real = [idx for _, idx in items if len(idx)]
    if not real:
        return []
    outs = []

    def make_post(idxs):
        def post(res, oV, oF, fo, vo):
            used = sum(len({int(v) for i in idx for v in S.F[i]}) for idx in idxs)
            check(len(oV) == used, sigp + "|vertex_count", f"{len(oV)} vertices for {used} referenced source vertices")

        return post

    if append:
        check(isinstance(got, trimesh.Trimesh), sigp + "|append_result_type", f"{type(got).__name__}")
        allidx = np.concatenate(real)
        outs.append((got, [int(i) for i in allidx], Opt(), make_post(real)))
        if len(real) > 1:
            labels.append("submesh:append_multi")
        return outs
    check(isinstance(got, list), sigp + "|result_type", f"{type(got).__name__}")
    if not ow:
        check(len(got) == len(real), sigp + "|part_count", f"{len(got)} parts for {len(real)} non-empty items")
        for part, idx in zip(got, real):
            outs.append((part, [int(i) for i in idx], Opt(), make_post([idx])))
        return outs
    # only_watertight: a subsequence of the items comes back, possibly with filled holes
    k = 0
    for part in got:
        pF = np.array(part.faces)
        check(_edge_watertight(pF), sigp + "|only_watertight|part_not_watertight", f"returned part with faces {pF[:6].tolist()} is not watertight")
        # find the item it came from: a later item of the sequence whose faces are a prefix of the part. Items can be
        # geometrically identical (repeated faces, duplicated vertices), so among the fitting ones the first whose
        # attached data track as well is taken; if none does, the failure against the first fitting item is reported
        pT = np.array(part.vertices)[pF]
        fits = [kk for kk in range(k, len(real)) if len(real[kk]) <= len(pF) and all(_b(pT[j]) == _b(S.T[int(real[kk][j])]) for j in range(len(real[kk])))]
        check(len(fits) > 0, sigp + "|only_watertight|part_not_from_sequence", f"returned part with faces {pF[:6].tolist()} matches no remaining item of the sequence")
        chosen, first_err = None, None
        for kk in fits:
            want = [int(i) for i in real[kk]]
            sub = _Prefix(part, len(want))
            o_ = Opt()
            try:
                oV_, oF_, fo_, vo_, o_.suffix = read_output(sub, S, sigp, False)
                track(S, oV_, oF_, fo_, vo_, want, o_, sigp)
                chosen = kk
                break
            except Violation as v:
                first_err = first_err or v
        if chosen is None:
            raise first_err
        k = chosen + 1
        nextra = len(pF) - len(want)
        if nextra:
            labels.append("effect:filled_extra_faces")
        outs.append((sub, want, Opt(), None))
    return outs


class _Prefix:
    """view of the first n faces of a mesh (the rest were added by the documented hole filling)"""

    def __init__(self, mesh, n):
        self._m, self._n = mesh, n
        self.vertices = mesh.vertices
        self.faces = np.array(mesh.faces)[:n]
        self.visual = _PrefixVisual(mesh.visual, n)
        self.face_attributes = {}
        self.vertex_attributes = {}

    @property
    def face_normals(self):
        return np.array(self._m.face_normals)[: self._n]

    @property
    def vertex_normals(self):
        return np.array(self._m.vertex_normals)


class _PrefixVisual:
    def __init__(self, vis, n):
        self._v, self._n = vis, n
        self.kind = vis.kind

    @property
    def face_colors(self):
        return np.array(self._v.face_colors)[: self._n]

    @property
    def vertex_colors(self):
        return np.array(self._v.vertex_colors)

    @property
    def uv(self):
        return self._v.uv


def face_components(F):
    """components of the face graph in which two faces are adjacent when they share a sorted edge that occurs exactly
    twice in the whole mesh (the definition of Trimesh.face_adjacency, which split() documents to use; it is checked
    against trimesh by C05)"""
    occ = {}
    for i, f in enumerate(F.tolist()):
        for a, b in ((f[0], f[1]), (f[1], f[2]), (f[2], f[0])):
            occ.setdefault((a, b) if a <= b else (b, a), []).append(i)
    parent = list(range(len(F)))

    def find(a):
        while parent[a] != a:
            parent[a] = parent[parent[a]]
            a = parent[a]
        return a

    for fs in occ.values():
        if len(fs) == 2 and fs[0] != fs[1]:
            parent[find(fs[0])] = find(fs[1])
    comp = {}
    for i in range(len(F)):
        comp.setdefault(find(i), set()).add(i)
    return [frozenset(c) for c in comp.values()]


def op_split(S, mesh, op, rs, labels, sigp):
    ow = bool(op.get("only_watertight"))
    labels.append(f"split:only_watertight={ow}")
    parts = mesh.split(only_watertight=ow, repair=False)
    check(isinstance(parts, (list, np.ndarray)), sigp + "|result_type", f"{type(parts).__name__}")
    parts = list(parts)
    pool = set()
    outs = []
    comps = face_components(S.F)
    comp_of = {i: c for c in comps for i in c}
    seen = []

    def post(res, oV, oF, fo, vo):
        seen.append((frozenset(res["src"]), res["unambiguous"]))

    for part in parts:
        if not ow:
            outs.append((part, None, Opt(order="any", pool=pool), post))
            continue
        # only_watertight: split documents a repair attempt, which appends faces after those of the component (and
        # gives them the colour of the last face). The component is found through the first face of the part.
        pF = np.array(part.faces)
        check(len(pF) > 0 and _edge_watertight(pF), sigp + "|only_watertight|part_not_watertight", f"returned part with faces {pF[:6].tolist()} is not watertight")
        t0 = np.array(part.vertices)[pF[0]]
        sizes = sorted({len(comp_of[i]) for i in S.geom.get(_b(t0), []) if len(comp_of[i]) <= len(pF)})
        check(len(sizes) > 0, sigp + "|triangle_not_in_source", f"first face of a returned part, corners {t0.tolist()}, matches no source face")
        n = sizes[-1]
        if len(pF) > n:
            labels.append("effect:filled_extra_faces")
        outs.append((_Prefix(part, n), None, Opt(order="any", pool=pool), post))
    if len(parts) > 1:
        labels.append("effect:split_multi")

    if not ow:
        # the triangle multiset of all parts, and of their concatenation, is the source multiset
        def multiset(T):
            return sorted(_b(t) for t in T)

        want = multiset(S.T)
        got = multiset(np.vstack([np.array(p.vertices)[np.array(p.faces)] for p in parts]) if parts else np.zeros((0, 3, 3)))
        check(got == want, sigp + "|triangle_multiset", f"parts hold {len(got)} triangles, source {len(want)}; multisets differ")
        if parts:
            cat = tutil.concatenate(parts)
            got = multiset(np.array(cat.vertices)[np.array(cat.faces)])
            check(got == want, sigp + "|concatenate|triangle_multiset", f"concatenate(split()) holds {len(got)} triangles, source {len(want)}; multisets differ")
            labels.append("split:concatenated")

    def final():
        # every part is one whole component of the face graph
        if all(u for _, u in seen):
            got = [s_ for s_, _ in seen]
            want = set(comps) if not ow else None
            for g in got:
                check(g in set(comps), sigp + "|components", lambda: f"a part holds source faces {sorted(g)[:12]}, which is not a component of the face graph {sorted(map(sorted, comps))[:6]}")
            if want is not None:
                check(set(got) == want and len(got) == len(want), sigp + "|components", lambda: f"parts are source faces {sorted(map(sorted, got))[:6]}, face components are {sorted(map(sorted, comps))[:6]}")
            labels.append("split:components_checked")

    outs.append(final)
    return outs


OPS = {
    "update_faces": op_update_faces,
    "unique_faces": op_unique_faces,
    "nondegenerate_faces": op_nondegenerate,
    "update_vertices": op_update_vertices,
    "remove_unreferenced_vertices": op_remove_unreferenced,
    "unmerge_vertices": op_unmerge,
    "merge_vertices": op_merge_vertices,
    "remove_infinite_values": op_remove_infinite,
    "process": op_process,
    "submesh": op_submesh,
    "split": op_split,
}


# =================================================================================== concatenation body


def _faces_shape(mesh):
    """`faces` is documented as (n, 3) also for n = 0 (Trimesh() itself stores (0, 3)); a (0,) array breaks
    faces_sparse / vertex_normals of the result"""
    shp = np.shape(mesh.faces)
    check(len(shp) == 2 and shp[1] == 3, "C07.concat|result_faces_not_(n,3)|no_input_has_faces", f"concatenation returned a mesh whose faces have shape {shp} (with {len(mesh.vertices)} vertices)")


@body("C07.concat")
def b_concat(case, ctx):
    how = case["how"]
    sigp = f"C07.concat|{how}"
    meshes_, Ds, tagss = [], [], []
    off = 0
    labels = ["op:concat:" + how, "concat:n=%d" % len(case["parts"])]
    kinds = []
    shapes = []
    for p in case["parts"]:
        # shape of the part: normal | single (one face) | faceless_ctor / faceless_masked (vertices but no face, built
        # that way or left over by an all-False update_faces) | empty (Trimesh())
        shape = p.get("shape", "normal")
        if shape == "empty":
            D = {"V": np.zeros((0, 3)), "F": np.zeros((0, 3), dtype=np.int64), "cu": np.zeros(0, dtype=np.int64), "cn": np.zeros(0, dtype=np.int64), "noff": np.zeros(0), "info": [], "rs": np.random.RandomState(0)}
        else:
            D = G.build_dirty(p["dirty"], dv=8)
        if not len(D["F"]) and shape in ("normal", "single"):
            shape = "faceless_ctor"
        if shape == "faceless_ctor" and p["attach"]["visual"] == "face" and len(D["F"]):
            # a face-coloured mesh without faces is obtained by masking (an empty (0,4) colour array handed to the
            # constructor is outside this property: color.to_rgba turns it into a (0,5) array)
            shape = "faceless_masked"
        if shape == "single":
            D["F"] = D["F"][[int(p["dirty"].get("seed", 0)) % len(D["F"])]].copy()
        elif shape == "faceless_ctor":
            D["F"] = np.zeros((0, 3), dtype=np.int64)
        tags = G.make_tags(D, id_offset=off)
        off += 400
        if shape == "empty":
            m = trimesh.Trimesh()
        else:
            m = build_mesh(D, tags, p["attach"])
        if shape == "faceless_masked":
            m.update_faces(np.zeros(len(D["F"]), dtype=bool))
            D["F"] = np.zeros((0, 3), dtype=np.int64)
            tags = G.make_tags(D, id_offset=off - 400)  # same per-vertex tags, no per-face rows
        if p["attach"]["warm"] and shape in ("normal", "single"):
            warm(m)
        meshes_.append(m)
        Ds.append(D)
        tagss.append(tags)
        shapes.append(shape)
        if shape != "empty":  # an empty mesh contributes no rows to any visual: neutral
            kinds.append(p["attach"]["visual"])
    has_faces = [len(D["F"]) > 0 for D in Ds]
    for sh in sorted(set(shapes) - {"normal"}):
        labels.append("concat:has_" + sh)
    for i, sh in enumerate(shapes):
        if sh.startswith("faceless") and len(Ds[i]["V"]) and any(has_faces[i + 1 :]):
            labels.append("concat:faceless_before_faces")
        if sh == "empty" and any(has_faces[i + 1 :]):
            labels.append("concat:empty_before_faces")
    attached = [p["attach"] if sh != "empty" else dict(p["attach"], fnorm=False, vnorm=False, warm=False) for p, sh in zip(case["parts"], shapes)]
    # ---- combined source
    V = np.vstack([D["V"] for D in Ds])
    offs = np.cumsum([0] + [len(D["V"]) for D in Ds])[:-1]
    F = np.vstack([D["F"] + o for D, o in zip(Ds, offs)])
    first = next((k for k in kinds if k != "none"), "none")
    uniform = all(k == first for k in kinds)
    fdata, vdata = {}, {}
    if "texture" not in kinds and uniform and first == "face":
        fdata["face_colors"] = np.vstack([t["FC"] for t in tagss])
    if "texture" not in kinds and uniform and first == "vertex":
        vdata["vertex_colors"] = np.vstack([t["VC"] for t in tagss])
    # normals: only the attached tags are tracked (computed normals are not unique); parts without tags get a filler
    # value that cannot occur, so their rows in the output can only be (correct) recomputations
    fn_ok = [bool(a_["fnorm"]) and _b(np.array(m.face_normals, dtype=np.float64)) == _b(t["FN"]) for a_, m, t in zip(attached, meshes_, tagss)]
    if any(fn_ok):
        fdata["face_normals"] = np.vstack([t["FN"] if ok else np.full((len(t["FN"]), 3), 9.0) for ok, t in zip(fn_ok, tagss)])
    if any(a_["vnorm"] for a_ in attached):
        vdata["vertex_normals"] = np.vstack([t["VN"] if a_["vnorm"] else np.full((len(t["VN"]), 3), 9.0) for a_, t in zip(attached, tagss)])
    S = Source(V, F, first if uniform else "none", fdata, vdata, scale=max(float(p["dirty"].get("scale", 1.0)) for p in case["parts"]))
    S.watch_fn = any(a_["fnorm"] or a_["warm"] for a_ in attached) and bool(np.isfinite(V).all())
    labels.append("tag:" + (first if uniform else "mixed"))

    if how == "concatenate_list":
        out = tutil.concatenate(meshes_)
    elif how == "concatenate_ab":
        out = tutil.concatenate(meshes_[0], meshes_[1:])
    elif how == "add":
        out = meshes_[0]
        for m in meshes_[1:]:
            out = out + m
            _faces_shape(out)
    elif how == "sum":
        try:
            out = sum(meshes_)
        except IndexError as e:
            # sum() is the chain ((0 + a) + b) + c: when a and b have no faces the intermediate result has (0,) faces
            # (checked directly in the `add` form) and breaks the next addition
            if len(has_faces) > 2 and not has_faces[0] and not has_faces[1]:
                raise Violation("C07.concat|result_faces_not_(n,3)|no_input_has_faces", f"sum() of meshes starting with two face-less meshes raised IndexError: {e}")
            raise
    else:
        raise ValueError(how)
    check(isinstance(out, trimesh.Trimesh), sigp + "|result_type", f"{type(out).__name__}")
    _faces_shape(out)
    opt = Opt()
    oV, oF, fo, vo, opt.suffix = read_output(out, S, sigp, False)
    # a visual that could not be combined is dropped by concatenate (absent is allowed); in a chain of `+` the faces
    # of the earlier result then show the default colour: also "absent", not another element's value
    default = _b(np.array(trimesh.visual.color.DEFAULT_COLOR, dtype=np.uint8))
    for dd, nm in ((fo, "face_colors"), (vo, "vertex_colors")):
        if nm in dd and any(_b(r) == default for r in dd[nm]):
            del dd[nm]
            labels.append("concat:colors_defaulted")
    track(S, oV, oF, fo, vo, list(range(S.nf)), opt, sigp)
    if len(oV) == S.nv:
        # all input vertices were stacked (also those of inputs without faces): then everything is in place
        check(np.array_equal(oF, S.F), sigp + "|faces", "faces are not the input faces shifted by the vertex offsets")
        vertices_by_mask(S, oV, vo, np.arange(S.nv), sigp)
    else:
        # vertices of inputs without faces may be left out; the triangles and their data were compared above
        nref = sum(len(D["V"]) for D, hf in zip(Ds, has_faces) if hf)
        check(len(oV) == nref, sigp + "|vertex_count", f"{len(oV)} vertices in the output; inputs hold {S.nv}, those with faces {nref}")
    if uniform and first == "texture":
        uv = out.visual.uv if out.visual.kind == "texture" else None
        if uv is not None:
            check(len(uv) == len(oV), sigp + "|uv|length", f"{len(uv)} uv rows for {len(oV)} vertices")
    # the inputs are left alone
    for m, D in zip(meshes_, Ds):
        check(_b(np.array(m.vertices)) == _b(D["V"]) and np.array_equal(np.array(m.faces), D["F"]), sigp + "|input_modified", "an input mesh was changed by the concatenation")
    carried_labels(S, fo, vo, labels)
    ctx.note(nontrivial=sum(1 for D in Ds if len(D["V"])) >= 2 and S.has_tags(), cls=sorted(set(labels)))


# =================================================================================== strategies


def _digits():
    return st.sampled_from([None, None, None, 8, 1, 2, 3, 5, 10])


@st.composite
def op_spec(draw, name):
    op = {"name": name}
    if name == "update_faces":
        op["mask"] = draw(st.sampled_from(FACE_MASKS))
        op["p"] = draw(st.sampled_from([0.2, 0.6, 0.9]))
        op["k"] = draw(st.integers(1, 3))
    elif name == "update_vertices":
        op["form"] = draw(st.sampled_from(["bool", "bool_inverse", "perm", "int_repeats", "merge"]))
    elif name == "merge_vertices":
        op["merge_tex"] = draw(st.sampled_from([None, False, True]))
        op["merge_norm"] = draw(st.sampled_from([None, False, True]))
        op["digits_vertex"] = draw(_digits())
        op["digits_norm"] = draw(st.sampled_from([None, None, 1, 2, 3, 5]))
        op["digits_uv"] = draw(st.sampled_from([None, None, 2, 3, 4, 6]))
    elif name in ("process", "constructor"):
        op["validate"] = draw(st.booleans())
        op["merge_tex"] = draw(st.sampled_from([None, False, True]))
        op["merge_norm"] = draw(st.sampled_from([None, False, True]))
    elif name == "nondegenerate_faces":
        op["height"] = draw(st.sampled_from([None, None, 1e-8, 1e-5, 1e-3]))
    elif name == "submesh":
        op["items"] = draw(st.lists(st.sampled_from(["bool", "int", "sorted", "tuple", "repeats", "single", "single", "empty", "empty_bool"]), min_size=1, max_size=4))
        op["append"] = draw(st.booleans())
        op["only_watertight"] = draw(st.sampled_from([False, False, True]))
    elif name == "split":
        op["only_watertight"] = draw(st.sampled_from([False, False, True]))
    return op


@st.composite
def ops_case(draw, names):
    name = draw(st.sampled_from(names))
    op = draw(op_spec(name))
    nonfin = name in ("remove_infinite_values", "process", "constructor")
    d = draw(G.dirty_spec(nonfinite=nonfin))
    if name == "remove_infinite_values":
        d["nonfinite"] = d.get("nonfinite") or 1
        if not d.get("nonfinite_ref"):
            d["unref"] = max(d["unref"], 1)
    return {"op": op, "dirty": d, "attach": draw(G.attach_spec())}


NF_OPS = ["merge_vertices", "merge_vertices", "merge_vertices", "process", "constructor", "remove_infinite_values", "remove_unreferenced_vertices", "update_faces", "unmerge_vertices"]


@st.composite
def nonfinite_case(draw):
    """grid / origin anchored meshes in which vertices with a NaN / inf coordinate coincide, in their finite slots,
    with other referenced vertices (and have 0 where the other one is non-finite)"""
    name = draw(st.sampled_from(NF_OPS))
    op = draw(op_spec(name))
    if name == "merge_vertices" and op.get("digits_vertex") == 1:
        op["digits_vertex"] = None
    a = draw(G.attach_spec())
    a["warm"] = False
    return {"op": op, "dirty": draw(G.lattice_spec()), "attach": a}


@st.composite
def concat_case(draw):
    n = draw(st.sampled_from([2, 2, 3, 3, 4]))
    uniform = draw(st.sampled_from([True, True, False]))
    parts = []
    a0 = draw(G.attach_spec())
    for i in range(n):
        d = draw(G.dirty_spec(max_parts=1))
        d["dupv"] = min(d["dupv"], 2)
        a = draw(G.attach_spec())
        if uniform:
            a["visual"] = a0["visual"]
        a["visual"] = a["visual"].replace("painted_", "")
        shape = draw(st.sampled_from(["normal"] * 6 + ["single", "faceless_ctor", "faceless_masked", "empty"]))
        parts.append({"dirty": d, "attach": a, "shape": shape})
    return {"how": draw(st.sampled_from(["concatenate_list", "concatenate_ab", "add", "sum"])), "parts": parts}


# =================================================================================== sub-checks

FACE_OPS = ["update_faces", "update_faces", "unique_faces", "nondegenerate_faces"]
VERT_OPS = ["update_vertices", "update_vertices", "remove_unreferenced_vertices", "unmerge_vertices"]
MERGE_OPS = ["merge_vertices"]
CLEAN_OPS = ["remove_infinite_values", "process", "process", "constructor"]
SUB_OPS = ["submesh", "submesh", "split"]


@subcheck("C07", "face_masks", shards={"quick": 3, "thorough": 8})
def s_face(ctx):
    ctx.given("C07.ops", ops_case(FACE_OPS), n={"quick": 1800, "thorough": 60000})


@subcheck("C07", "vertex_masks", shards={"quick": 2, "thorough": 8})
def s_vertex(ctx):
    ctx.given("C07.ops", ops_case(VERT_OPS), n={"quick": 1600, "thorough": 50000})


@subcheck("C07", "merge", shards={"quick": 3, "thorough": 12})
def s_merge(ctx):
    ctx.given("C07.ops", ops_case(MERGE_OPS), n={"quick": 2000, "thorough": 70000})


@subcheck("C07", "process", shards={"quick": 3, "thorough": 12})
def s_process(ctx):
    ctx.given("C07.ops", ops_case(CLEAN_OPS), n={"quick": 2000, "thorough": 60000})


@subcheck("C07", "nonfinite", shards={"quick": 2, "thorough": 8})
def s_nonfinite(ctx):
    ctx.given("C07.ops", nonfinite_case(), n={"quick": 1200, "thorough": 40000})


@subcheck("C07", "submesh_split", shards={"quick": 3, "thorough": 12})
def s_sub(ctx):
    ctx.given("C07.ops", ops_case(SUB_OPS), n={"quick": 2000, "thorough": 60000})


@subcheck("C07", "concatenate", shards={"quick": 2, "thorough": 6})
def s_concat(ctx):
    ctx.given("C07.concat", concat_case(), n={"quick": 1200, "thorough": 30000})


REQUIRED_CLASSES["C07"] = [
    "op:update_faces",
    "op:unique_faces",
    "op:nondegenerate_faces",
    "op:update_vertices",
    "op:remove_unreferenced_vertices",
    "op:unmerge_vertices",
    "op:merge_vertices",
    "op:remove_infinite_values",
    "op:process",
    "op:constructor",
    "op:submesh",
    "op:split",
    "mask:int_repeats",
    "vmask:merge",
    "dirt:dupv_exact",
    "dirt:dupv_within",
    "dirt:dupv_outside",
    "dirt:unref",
    "dirt:repf",
    "dirt:degen_collinear",
    "dirt:nonfinite_unref",
    "effect:vertices_merged",
    "effect:faces_dropped",
    "merge:same_cell_group_checked",
    "carried:face_colors",
    "carried:vertex_colors",
    "carried:uv",
    "carried:fattr_tag",
    "carried:vattr_tag",
    "carried:face_normals",
    "carried:vertex_normals",
    "split:concatenated",
    "split:components_checked",
    "effect:split_multi",
    "effect:filled_extra_faces",
    "submesh:append_multi",
    "vmask:int_repeats",
    "mask:bool_drop_few",
    "dirt:dupv_straddle",
    "derived:checked",
    "derived:read_on_nonfinite_mesh",
    "dirt:uv_integer_shift",
    "tag:painted_vertex",
    "tag:painted_face",
    "paint:unread",
    "paint:read_before_op",
    "dirt:nfdup_zero",
    "dirt:nfdup_other",
    "dirt:nfdup_same",
    "merge:nonfinite_input",
    "concat:faceless_before_faces",
    "concat:empty_before_faces",
    "concat:has_single",
    "concat:has_faceless_masked",
    "concat:has_faceless_ctor",
]
