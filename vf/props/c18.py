"""C18 — repair and subdivision keep the surface and restore validity
(trimesh/repair.py, remesh.py, base.py, graph.py)."""

import itertools
import logging
import math

import numpy as np
from hypothesis import strategies as st

import trimesh
from trimesh import remesh

from ..core import ASSUMPTIONS, REQUIRED_CLASSES, RULES, Violation, body, check, subcheck
from ..gen import meshes
from ..oracle import c18_ref as R

logging.getLogger("trimesh").setLevel(logging.CRITICAL)

EPS = R.EPS

RULES["C18"] = (
    "Closed oriented template solids built by our own code (tetra, octa, box, icosphere, star prism, torus = genus 1, "
    "uv sphere; 1-3 bodies, disjoint or overlapping, optional vertex jitter), then seeded vertex relabelling, face "
    "permutation and cyclic rotation; always Trimesh(..., process=False). (a) fix_normals: EVERY subset of faces "
    "re-wound for tetra, octa, box and tetra+tetra (2^F each; x multibody in {None, True, False}, for the box True/False on every third subset in the quick tier), and for larger "
    "meshes structured subsets (one whole body, alternating, single face, complement of a single face, all, none) "
    "and random subsets, caches cold or warm, also through process(validate=True). (b) fill_holes: every single "
    "face and every adjacent pair removed on 12 templates, plus generated sets of triangle/quad holes that are "
    "vertex-disjoint or touch at vertices; and the same small holes next to boundary loops that cannot be filled: all "
    "faces at a vertex (fan), a breadth-first patch of 3-10 faces, one half of a body or both caps of a prism removed "
    "(cap / tube / hemisphere / closed body with a larger hole / two bodies of which one keeps only small holes), then "
    "1-4 triangle or quad holes clear of those loops; enumerated on 7 templates (every clear single face and adjacent "
    "pair). (c) subdivide(all | face subset, 1-2 rounds; the subset written as int64 / int32 / uint8 array, list, reversed, "
    "unsorted, with repeated entries, with negative indices, both mixed, boolean array, list of bools - every subset of "
    "the tetrahedron in all 11 forms), remesh.subdivide with "
    "return_index and tagged vertex attributes, subdivide_to_size(max_edge = ratio x longest edge, max_iter, "
    "return_index), subdivide_loop(1-3 iterations), on closed and open (faces removed) meshes, half of them in an "
    "unwelded description (exact copies, so positions coincide): a translated twin touching the original at a vertex "
    "or lying on it, faces with private / shared duplicated corners (seam), unreferenced vertices at arbitrary "
    "indices, the whole mesh scaled by 1e-8 / 1e-4 / 1e4; exact vertex counts (V + one per edge per round) are "
    "required. fix_normals additionally on 2-3 bodies whose sizes differ by 1e1..1e6 (all flip subsets of "
    "tetra+tetra/1000 enumerated). Oracle: plain python "
    "edge-incidence / union-find / signed-tetrahedron code on the raw arrays and a reference Loop step written from "
    "the docstring masks. Non-trivial: a proper non-empty re-wound subset of some body / at least one hole / a "
    "subdivision of a mesh with >= 2 bodies or an open mesh or a proper face subset."
)
ASSUMPTIONS["C18"] = [
    "fix_normals(multibody=False) on several bodies is only required to make the winding consistent and the TOTAL volume "
    "non-negative (its docstring: 'rather than just one'); per-body positivity is required for multibody=None/True",
    "fill_holes is only required to succeed when every hole is a single missing triangle or a pair of edge-adjacent "
    "missing triangles, at least 3 faces remain (coded early exit) and holes share at most one vertex pairwise",
    "fill_holes next to unfillable loops (C18.holes_mixed): checked when the boundary loops of the input are vertex-disjoint "
    "simple cycles; then every loop of 3 or 4 edges must be closed (len-2 new faces on its vertices, wound against its "
    "neighbours), loops of 5+ edges must be exactly the boundary that is left, and the return value must equal closedness",
    "face_index of subdivide is read with numpy index semantics (what `face_mask[face_index] = True` does on the unchanged tree): "
    "order and repetition are irrelevant, negative entries count from the end, a boolean array / list of length F selects "
    "where True; the docstring only names '(n,) int array of indices', boolean forms are tagged form=bool in the signature",
    "subdivide_to_size: the raise / no-raise clause is skipped when some edge/2^k is within 1e-9 (relative) of max_edge",
    "subdivide_loop positions are compared with the docstring masks only when every boundary vertex lies on exactly two "
    "boundary edges; new-vertex order is not assumed (vertices are matched by position)",
    "float tolerances are derived from eps x coordinate magnitude x perimeter (area), eps x sum|tetra terms| (volume)",
]

# ------------------------------------------------------------------------------------------ building meshes

CLOSED_KINDS = ["tetra", "box", "octa", "icos", "prism", "torus", "torus", "uvsphere"]


def scramble(V, F, pseed):
    """orientation-preserving re-description of the same surface: vertex relabelling, face permutation, cyclic
    rotation of every face (pseed None/0 = leave as is)"""
    if not pseed:
        return V, F
    rs = np.random.RandomState(int(pseed) & 0x7FFFFFFF)
    perm = rs.permutation(len(V))  # old -> new
    V2 = np.empty_like(V)
    V2[perm] = V
    F2 = perm[F]
    F2 = F2[rs.permutation(len(F2))]
    sh = rs.randint(0, 3, size=len(F2))
    F2 = np.array([np.roll(f, int(s)) for f, s in zip(F2, sh)], dtype=np.int64).reshape((-1, 3))
    return np.ascontiguousarray(V2), np.ascontiguousarray(F2)


def build_case(case):
    V, F = meshes.build(case["spec"])
    return scramble(V, F, case.get("pseed"))


def spec_label(spec):
    kinds = [p["kind"] for p in spec["parts"]]
    g1 = any(k == "torus" for k in kinds)
    return f"bodies={min(len(kinds), 3)}:genus={'1' if g1 else '0'}:{'jitter' if spec.get('jamp') else 'exact'}"


def warm_up(mesh):
    mesh.face_normals
    mesh.face_adjacency
    mesh.is_watertight
    mesh.is_winding_consistent
    mesh.volume
    mesh.area
    mesh.edges_unique
    mesh.body_count


def vol_tol(abs_terms):
    # every term v0.(v1 x v2)/6 carries a few roundings; fsum adds none
    return 32.0 * EPS * abs_terms


# ------------------------------------------------------------------------------------------ fix_normals


@body("C18.fix_normals")
def b_fix_normals(case, ctx):
    V, F = build_case(case)
    nf = len(F)
    flip = sorted({int(i) for i in case["flip"] if 0 <= int(i) < nf})
    mb = case.get("multibody")
    route = case.get("route", "method")
    if route == "function":
        mb = bool(mb)  # repair.fix_normals takes a plain bool
    elif route == "process":
        mb = None  # process(validate=True) calls self.fix_normals()
        # process() also merges vertices closer than tol.merge=1e-8 (overlapping bodies can coincide): not a case
        from scipy.spatial import cKDTree

        if len(cKDTree(V).query_pairs(1e-6)):
            ctx.note(cls="fix_normals:process_skipped_coincident_vertices")
            return
    faces0 = R.faces_list(F)
    comps = R.face_components(faces0)
    # original per-body volumes: the templates are outward oriented by construction; require a clear margin
    vols = [R.signed_volume(V, F, c) for c in comps]
    if not all(v > 1e3 * vol_tol(a) for v, a in vols):
        ctx.note(cls="fix_normals:skipped_tiny_volume")
        return
    fset = set(flip)
    proper = any(0 < len(fset & set(c)) < len(c) for c in comps)
    whole = [len(fset & set(c)) == len(c) for c in comps]
    kind = "proper" if proper else ("none" if not flip else ("all" if all(whole) else "whole_bodies"))
    mbl = {None: "None", True: "True", False: "False"}[mb]
    ctx.note(
        nontrivial=bool(proper or (flip and not all(whole))),
        cls=[f"fix_normals:{route}:mb={mbl}:bodies={min(len(comps), 3)}:{kind}", "fix_normals:" + spec_label(case["spec"]), "fix_normals:warm" if case.get("warm") else "fix_normals:cold", f"fix_normals:mb={mbl}:{scale_label(case['spec'])}"],
    )
    Ff = F.copy()
    if flip:
        Ff[flip] = Ff[flip][:, ::-1]
    mesh = trimesh.Trimesh(vertices=V.copy(), faces=Ff.copy(), process=False)
    if case.get("warm"):
        warm_up(mesh)
    if route == "method":
        mesh.fix_normals(multibody=mb)
    elif route == "function":
        trimesh.repair.fix_normals(mesh, multibody=bool(mb))
    else:
        mesh.process(validate=True)
    tag =f"{route}|mb={mbl}"
    G = np.asarray(mesh.faces)
    check(np.asarray(mesh.vertices).tobytes() == V.tobytes(), f"C18.fix_normals|vertices_moved|{tag}", "vertex bytes changed")
    check(G.shape == F.shape, f"C18.fix_normals|face_count|{tag}", f"{G.shape} vs {F.shape}")
    got = R.faces_list(G)
    check(
        sorted(tuple(sorted(f)) for f in got) == sorted(tuple(sorted(f)) for f in faces0),
        f"C18.fix_normals|triangle_set_changed|{tag}",
        lambda: f"faces {got[:12]} from {faces0[:12]}",
    )
    check(R.is_consistent(got), f"C18.fix_normals|winding|{tag}|{kind}", lambda: f"flip={flip}: faces after {got[:16]} are not consistently wound")
    check(bool(mesh.is_winding_consistent) and bool(mesh.is_watertight), f"C18.fix_normals|api_flags|{tag}", f"is_winding_consistent={mesh.is_winding_consistent} is_watertight={mesh.is_watertight}")
    after = [R.signed_volume(V, G, c) for c in R.face_components(got)]
    total = math.fsum(v for v, _ in after)
    tot_abs = math.fsum(a for _, a in after)
    if mb is False and len(comps) > 1:
        check(total > -vol_tol(tot_abs), f"C18.fix_normals|total_volume_negative|{tag}", f"total volume {total!r}, bodies {[v for v, _ in after]}")
    else:
        check(
            all(v > 0 for v, _ in after),
            f"C18.fix_normals|body_volume|{tag}|bodies={min(len(comps), 3)}|{kind}",
            lambda: f"flip={flip}: signed volume per body {[v for v, _ in after]}, originally {[v for v, _ in vols]}",
        )
    # the cached values the property observes agree with the final arrays
    check(abs(float(mesh.volume) - total) <= 4 * vol_tol(tot_abs), f"C18.fix_normals|volume_stale|{tag}", f"mesh.volume {float(mesh.volume)!r}, from the final faces {total!r}")
    n_ref, ln = R.unit_normals(V, G)
    n_got = np.asarray(mesh.face_normals)
    check(n_got.shape == n_ref.shape and bool(((n_got * n_ref).sum(axis=1) > 0.999).all()), f"C18.fix_normals|face_normals_disagree_with_winding|{tag}", lambda: f"flip={flip}: dots {(n_got * n_ref).sum(axis=1).round(3).tolist()[:24]}")


ENUM_TEMPLATES = {
    "tetra": {"parts": [{"kind": "tetra", "offset": [0.0, 0.0, 0.0]}]},
    "octa": {"parts": [{"kind": "octa", "offset": [0.0, 0.0, 0.0]}]},
    "box": {"parts": [{"kind": "box", "ext": [1.0, 2.0, 3.0], "offset": [0.0, 0.0, 0.0]}]},
    "tetra+tetra": {"parts": [{"kind": "tetra", "offset": [0.0, 0.0, 0.0]}, {"kind": "tetra", "offset": [12.0, 0.0, 0.0], "scale": 2.0}]},
    "tetra+tetra/1000": {"parts": [{"kind": "tetra", "offset": [0.0, 0.0, 0.0]}, {"kind": "tetra", "offset": [12.0, 0.0, 0.0], "scale": 1e-3}]},
    "octa*1000+tetra": {"parts": [{"kind": "octa", "offset": [0.0, 0.0, 0.0], "scale": 1e3}, {"kind": "tetra", "offset": [12.0, 0.0, 0.0]}]},
}


def enum_flips(names, seed, variants=(None, True, False), stride=1, offset=0):
    k = 0
    for name in names:
        spec = ENUM_TEMPLATES[name]
        nf = meshes.n_faces(spec)
        for bits in range(offset, 2**nf, stride):
            flip = [i for i in range(nf) if bits >> i & 1]
            for mb in variants:
                k += 1
                yield {"spec": spec, "flip": flip, "multibody": mb, "warm": bool((k + bits) & 1), "pseed": 0, "route": "method"}


@st.composite
def scaled_spec(draw):
    """2-3 bodies whose sizes differ by factors 1e1 .. 1e6 (per-body decisions must not depend on absolute size)"""
    n = draw(st.integers(2, 3))
    exps = draw(st.lists(st.sampled_from([-3, -3, -2, -1, 0, 0, 1, 2, 3]), min_size=n, max_size=n).filter(lambda e: max(e) - min(e) >= 1))
    parts = []
    for i in range(n):
        p = draw(meshes.part(CLOSED_KINDS, 120))
        p["scale"] = 10.0 ** exps[i]
        p["offset"] = [12.0 * i * draw(st.sampled_from([0.0, 1.0, 1.0, 100.0])), 0.0, 0.0]
        parts.append(p)
    return {"parts": parts}


def scale_label(spec):
    sc = [float(p.get("scale", 1.0)) for p in spec["parts"]]
    r = max(sc) / min(sc)
    return "scale_ratio" + ("<10" if r < 10 else "=1e1..1e2" if r < 1e3 else ">=1e3")


@st.composite
def flip_case(draw, scaled=False):
    if scaled:
        spec = draw(scaled_spec())
    else:
        spec = draw(meshes.mesh_spec(kinds=CLOSED_KINDS, max_parts=3, jitter=True, disjoint=draw(st.sampled_from([True, True, False])), max_faces=120))
    _, F = meshes.build(spec)
    nf = len(F)
    sizes = [meshes.n_faces({"parts": [p]}) for p in spec["parts"]]
    starts = np.cumsum([0] + sizes).tolist()
    mode = draw(st.sampled_from(["random", "random", "body", "alternating", "single", "complement", "all", "body+random", "none"]))
    if mode == "random":
        flip = draw(st.lists(st.integers(0, nf - 1), min_size=1, max_size=nf, unique=True))
    elif mode in ("body", "body+random"):
        b = draw(st.integers(0, len(sizes) - 1))
        flip = list(range(starts[b], starts[b + 1]))
        if mode == "body+random":
            flip = sorted(set(flip) ^ set(draw(st.lists(st.integers(0, nf - 1), min_size=1, max_size=6, unique=True))))
    elif mode == "alternating":
        flip = list(range(draw(st.integers(0, 1)), nf, draw(st.sampled_from([2, 2, 3]))))
    elif mode == "single":
        flip = [draw(st.integers(0, nf - 1))]
    elif mode == "complement":
        x = draw(st.integers(0, nf - 1))
        flip = [i for i in range(nf) if i != x]
    elif mode == "all":
        flip = list(range(nf))
    else:
        flip = []
    # NOTE flip indexes the faces AFTER scrambling; a whole body stays a whole body only when pseed == 0
    pseed = 0 if mode in ("body", "body+random") and draw(st.booleans()) else draw(st.integers(0, 2**31 - 1))
    if pseed and mode in ("body", "body+random"):
        # translate the body's faces through the scramble so that the subset is still that body
        V0, F0 = meshes.build(spec)
        _, Fs = scramble(V0, F0, pseed)
        comps = R.face_components(R.faces_list(Fs))
        b = draw(st.integers(0, len(comps) - 1))
        flip = list(comps[b])
    return {
        "spec": spec,
        "flip": flip,
        "multibody": draw(st.sampled_from([None, None, True, False])),
        "warm": draw(st.booleans()),
        "pseed": pseed,
        "route": draw(st.sampled_from(["method", "method", "method", "function", "process"])),
    }


@subcheck("C18", "flip_enum", shards={"quick": 16, "thorough": 16})
def s_flip_enum(ctx):
    ctx.enumerate("C18.fix_normals", enum_flips(["tetra", "octa", "tetra+tetra"], ctx.seed), label="all_flip_subsets_of_tetra_octa_tetra+tetra_x_multibody{None,True,False}")
    ctx.enumerate("C18.fix_normals", enum_flips(["tetra+tetra/1000"], ctx.seed), label="all_flip_subsets_of_tetra+tetra/1000_x_multibody{None,True,False}")
    ctx.enumerate("C18.fix_normals", enum_flips(["octa*1000+tetra"], ctx.seed, variants=(None, True), stride=1 if ctx.tier != "quick" else 5, offset=ctx.seed % 5 if ctx.tier == "quick" else 0), label="flip_subsets_of_octa*1000+tetra", complete=ctx.tier != "quick")
    ctx.enumerate("C18.fix_normals", enum_flips(["box"], ctx.seed, variants=(None,)), label="all_4096_flip_subsets_of_box_multibody=None")
    if ctx.tier == "quick":
        # explicit True / False on one body differ from None only in the branch taken by fix_inversion: every third subset
        ctx.enumerate("C18.fix_normals", enum_flips(["box"], ctx.seed, variants=(True, False), stride=3, offset=ctx.seed % 3), label="box_multibody{True,False}_every_third_subset", complete=False)
    else:
        ctx.enumerate("C18.fix_normals", enum_flips(["box"], ctx.seed, variants=(True, False)), label="all_4096_flip_subsets_of_box_multibody{True,False}")


@subcheck("C18", "flip_hyp", shards={"quick": 8, "thorough": 16})
def s_flip_hyp(ctx):
    ctx.given("C18.fix_normals", flip_case(), n={"quick": 2000, "thorough": 50000})
    ctx.given("C18.fix_normals", flip_case(scaled=True), n={"quick": 600, "thorough": 15000})


# ------------------------------------------------------------------------------------------ fill_holes


def hole_groups(faces, remove):
    """removed faces grouped by shared edges: list of (sorted face indices, set of vertices)"""
    rem = sorted(set(remove))
    sub = [faces[i] for i in rem]
    return [([rem[j] for j in g], {v for j in g for v in sub[j]}) for g in R.face_components(sub)]


def classify_holes(faces, remove):
    """-> (label, in_domain, groups).  in_domain: every hole a triangle or a quad (two adjacent triangles), the boundary
    graph has no cycle besides the holes, and no quad hole has its second diagonal present as an edge of the mesh.
    The two other classes are checked with the same oracle but reported under one signature each (one root cause)."""
    groups = hole_groups(faces, remove)
    rem = set(remove)
    kept_edges = {e for e, fs in R.undirected_edges(faces).items() if any(i not in rem for i in fs)}
    sizes = [len(g) for g, _ in groups]
    if any(s > 2 for s in sizes):
        return "hole_larger_than_quad", False, groups
    diag = False
    for g, vs in groups:
        if len(g) == 2:
            shared = set(faces[g[0]]) & set(faces[g[1]])
            a, b = sorted(vs - shared)
            if (a, b) in kept_edges:
                diag = True
    touch = 0
    for (g1, v1), (g2, v2) in itertools.combinations(groups, 2):
        touch = max(touch, len(v1 & v2))
    # cycle rank of the boundary graph of what is left: equals the number of holes unless holes touch in a ring
    # (or share two vertices); then the graph has cycles that are not holes
    bnd = R.boundary_edges([faces[i] for i in range(len(faces)) if i not in rem])
    bverts = sorted({v for e in bnd for v in e})
    par = {v: v for v in bverts}

    def find(x):
        while par[x] != x:
            par[x] = par[par[x]]
            x = par[x]
        return x

    for a, b in bnd:
        par[find(a)] = find(b)
    rank = len(bnd) - len(bverts) + len({find(v) for v in bverts})
    extra = rank > len(groups)
    shape = "tri" if set(sizes) == {1} else "quad" if set(sizes) == {2} else "tri+quad"
    count = "1" if len(groups) == 1 else "many"
    t = "" if len(groups) == 1 else (":disjoint" if touch == 0 else ":touch1" if touch == 1 else ":touch2+")
    label = f"{shape}:{count}{t}" + (":second_diagonal_is_edge" if diag else "") + (":extra_boundary_cycle" if extra else "")
    return label, (not extra and not diag), groups


@body("C18.holes")
def b_holes(case, ctx):
    V, F = build_case(case)
    faces0 = R.faces_list(F)
    nf = len(faces0)
    remove = sorted({int(i) for i in case["remove"] if 0 <= int(i) < nf})
    keep = [i for i in range(nf) if i not in set(remove)]
    if not remove or len(keep) < 3:
        ctx.note(cls="holes:skipped_fewer_than_3_faces_left")
        return
    label, in_domain, groups = classify_holes(faces0, remove)
    comps = R.face_components(faces0)
    vols = [R.signed_volume(V, F, c) for c in comps]
    if label == "hole_larger_than_quad" or not all(v > 1e3 * vol_tol(a) for v, a in vols):
        ctx.note(cls="holes:skipped_out_of_scope")
        return
    # fill_holes documents dropping zero-area fill triangles: a quad hole with three collinear corners is not a case
    for g, vs in groups:
        if len(g) == 2:
            for tri in itertools.combinations(sorted(vs), 3):
                p, q, r = V[list(tri)]
                if np.linalg.norm(np.cross(q - p, r - p)) < 1e-6 * max(np.linalg.norm(q - p), np.linalg.norm(r - p)) ** 2:
                    ctx.note(cls="holes:skipped_quad_with_collinear_corners")
                    return
    ctx.note(nontrivial=True, cls=["holes:" + label, "holes:" + spec_label(case["spec"]), "holes:warm" if case.get("warm") else "holes:cold"])
    Fk = np.ascontiguousarray(F[keep])
    mesh = trimesh.Trimesh(vertices=V.copy(), faces=Fk.copy(), process=False)
    if case.get("warm"):
        warm_up(mesh)
    ret = mesh.fill_holes()
    G = np.asarray(mesh.faces)
    got = R.faces_list(G)
    txt = f"removed {[faces0[i] for i in remove]} -> returned {ret}, appended {got[len(keep):]}"
    if "extra_boundary_cycle" in label:
        sig = lambda clause: "C18.holes|fill_holes|boundary_graph_has_cycle_that_is_no_hole"  # noqa
    elif "second_diagonal_is_edge" in label:
        sig = lambda clause: "C18.holes|fill_holes|quad_split_along_existing_edge"  # noqa
    else:
        sig = lambda clause: f"C18.holes|fill_holes|{clause}|{label}"  # noqa
    check(np.asarray(mesh.vertices).tobytes() == V.tobytes(), sig("vertices_moved"), txt)
    check(len(got) >= len(keep) and G[: len(keep)].tobytes() == Fk.tobytes(), sig("old_faces_changed"), txt)
    new = got[len(keep) :]
    hole_sets = [vs for _, vs in groups]
    check(all(any(set(f) <= vs for vs in hole_sets) for f in new), sig("new_face_off_hole"), txt)
    check(bool(ret) is True, sig("returned_false"), txt)
    check(len(new) == len(remove), sig("new_face_count"), txt)
    check(R.is_closed(got), sig("not_closed"), txt)
    check(R.is_consistent(got), sig("new_face_winding"), txt)
    # triangle holes: exactly the removed face, in its orientation
    want_tri = sorted(R.cyc(faces0[g[0]]) for g, _ in groups if len(g) == 1)
    tri_sets = [vs for g, vs in groups if len(g) == 1]
    got_tri = sorted(R.cyc(f) for f in new if set(f) in tri_sets)
    check(got_tri == want_tri, sig("triangle_not_restored"), lambda: f"{txt}: want {want_tri}")
    for g, vs in groups:
        if len(g) == 2:
            mine = [f for f in new if set(f) <= vs]
            check(len(mine) == 2 and set(mine[0]) | set(mine[1]) == vs, sig("quad_cover"), txt)
    check(bool(mesh.is_watertight) and bool(mesh.is_winding_consistent), sig("api_flags"), f"is_watertight={mesh.is_watertight} is_winding_consistent={mesh.is_winding_consistent}")
    # volume: a quad re-triangulated along its other diagonal changes the solid by at most the tetrahedron on its
    # four corners; require positivity only when that leaves a clear margin
    after = [R.signed_volume(V, G, c) for c in R.face_components(got)]
    slack = 0.0
    for g, vs in groups:
        if len(g) == 2:
            a, b, c, d = sorted(vs)
            slack += abs(float(np.linalg.det(np.array([V[b] - V[a], V[c] - V[a], V[d] - V[a]])))) / 6.0
    if len(after) == len(vols) and slack < 0.5 * min(v for v, _ in vols):
        check(all(v > 0 for v, _ in after), sig("volume_not_positive"), lambda: f"{txt}: body volumes {[v for v, _ in after]}")
        total = math.fsum(v for v, _ in after)
        tot_abs = math.fsum(a for _, a in after)
        check(abs(float(mesh.volume) - total) <= 4 * vol_tol(tot_abs), sig("volume_stale"), f"mesh.volume {float(mesh.volume)!r} vs {total!r}")
    n_ref, _ = R.unit_normals(V, G)
    n_got = np.asarray(mesh.face_normals)
    check(n_got.shape == n_ref.shape and bool(((n_got * n_ref).sum(axis=1) > 0.999).all()), sig("face_normals_disagree_with_winding"), txt)


HOLE_TEMPLATES = {
    "tetra": {"parts": [{"kind": "tetra", "offset": [0, 0, 0]}]},
    "octa": {"parts": [{"kind": "octa", "offset": [0, 0, 0]}]},
    "box": {"parts": [{"kind": "box", "ext": [1.0, 2.0, 3.0], "offset": [0, 0, 0]}]},
    "icos0": {"parts": [{"kind": "icos", "sub": 0, "offset": [0, 0, 0]}]},
    "prism3": {"parts": [{"kind": "prism", "radii": [1.0, 0.8, 1.2], "height": 1.0, "offset": [0, 0, 0]}]},
    "prism5": {"parts": [{"kind": "prism", "radii": [1.0, 0.5, 1.0, 0.7, 1.2], "height": 1.5, "offset": [0, 0, 0]}]},
    "torus33": {"parts": [{"kind": "torus", "nu": 3, "nv": 3, "R": 2.0, "r": 0.7, "offset": [0, 0, 0]}]},
    "torus54": {"parts": [{"kind": "torus", "nu": 5, "nv": 4, "R": 2.0, "r": 0.5, "offset": [0, 0, 0]}]},
    "uv33": {"parts": [{"kind": "uvsphere", "nu": 3, "nv": 3, "offset": [0, 0, 0]}]},
    "uv54": {"parts": [{"kind": "uvsphere", "nu": 5, "nv": 4, "offset": [0, 0, 0]}]},
    "box+octa": {"parts": [{"kind": "box", "ext": [1.0, 1.0, 1.0], "offset": [0, 0, 0]}, {"kind": "octa", "offset": [12.0, 0, 0], "scale": 0.5}]},
    "icos0j": {"parts": [{"kind": "icos", "sub": 0, "offset": [0, 0, 0]}], "jseed": 5, "jamp": 0.05},
}


def adjacent_pairs(faces):
    return sorted(tuple(v) for v in R.undirected_edges(faces).values() if len(v) == 2)


def enum_holes(seed):
    k = 0
    for name in sorted(HOLE_TEMPLATES):
        spec = HOLE_TEMPLATES[name]
        for pseed in (0, 1000 + seed):
            V, F = scramble(*meshes.build(spec), pseed)
            faces = R.faces_list(F)
            for i in range(len(faces)):
                k += 1
                yield {"spec": spec, "remove": [i], "pseed": pseed, "warm": bool(k & 1)}
            for a, b in adjacent_pairs(faces):
                k += 1
                yield {"spec": spec, "remove": [a, b], "pseed": pseed, "warm": bool(k & 1)}


@st.composite
def holes_case(draw):
    spec = draw(meshes.mesh_spec(kinds=CLOSED_KINDS, max_parts=2, jitter=True, max_faces=120))
    pseed = draw(st.sampled_from([0, 1])) * draw(st.integers(1, 2**31 - 1))
    V, F = scramble(*meshes.build(spec), pseed)
    faces = R.faces_list(F)
    nf = len(faces)
    pairs = adjacent_pairs(faces)
    vfaces = {}
    for i, f in enumerate(faces):
        for v in f:
            vfaces.setdefault(v, []).append(i)
    mode = draw(st.sampled_from(["disjoint", "touch", "touch", "free"]))
    nholes = draw(st.integers(2, 5))
    remove, used_v, used_f = [], set(), set()
    und = R.undirected_edges(faces)

    def neighbours(i):
        a, b, c = faces[i]
        out = set()
        for x, y in ((a, b), (b, c), (c, a)):
            out |= set(und[(x, y) if x < y else (y, x)])
        return out

    for h in range(nholes):
        quad = draw(st.booleans())
        if mode == "touch" and h > 0 and used_v:
            # a face at a vertex of an earlier hole, not edge-adjacent to any removed face
            v = draw(st.sampled_from(sorted(used_v)))
            cand = [i for i in vfaces[v] if i not in used_f and not (neighbours(i) & used_f)]
        else:
            cand = [i for i in range(nf) if i not in used_f and not (neighbours(i) & used_f) and (mode != "disjoint" or not (set(faces[i]) & used_v))]
        if not cand:
            break
        i = draw(st.sampled_from(cand))
        grp = [i]
        if quad:
            # a second face adjacent to i, itself not adjacent to an earlier hole
            c2 = [j for j in sorted(neighbours(i) - {i}) if j not in used_f and not ((neighbours(j) - {i}) & used_f) and (mode != "disjoint" or not (set(faces[j]) & used_v))]
            if c2:
                grp.append(draw(st.sampled_from(c2)))
        remove += grp
        used_f |= set(grp)
        used_v |= {v for j in grp for v in faces[j]}
    return {"spec": spec, "remove": sorted(remove), "pseed": pseed, "warm": draw(st.booleans())}


# ---- triangle / quad holes next to boundary loops that cannot be filled (open surfaces, larger holes)


def boundary_loops(faces):
    """boundary of a face list as simple loops: -> (list of vertex lists, True) when every boundary vertex lies on exactly
    two boundary edges (the loops are then vertex-disjoint simple cycles), else (None, False)"""
    bnd = R.boundary_edges(faces)
    nbr = {}
    for a, b in bnd:
        nbr.setdefault(a, []).append(b)
        nbr.setdefault(b, []).append(a)
    if any(len(v) != 2 for v in nbr.values()):
        return None, False
    loops, seen = [], set()
    for start in sorted(nbr):
        if start in seen:
            continue
        loop, prev, cur = [start], None, start
        seen.add(start)
        while True:
            nxt = [w for w in nbr[cur] if w != prev]
            nxt = nxt[0] if nxt else nbr[cur][0]
            if nxt == start:
                break
            loop.append(nxt)
            seen.add(nxt)
            prev, cur = cur, nxt
        loops.append(loop)
    return loops, True


@body("C18.holes_mixed")
def b_holes_mixed(case, ctx):
    V, F = build_case(case)
    faces0 = R.faces_list(F)
    nf = len(faces0)
    gone = {int(i) for i in list(case["big"]) + list(case["remove"]) if 0 <= int(i) < nf}
    keep = [i for i in range(nf) if i not in gone]
    kept = [faces0[i] for i in keep]
    if len(keep) < 3:
        ctx.note(cls="mixed:skipped_fewer_than_3_faces_left")
        return
    loops, simple = boundary_loops(kept)
    if not simple:
        # loops sharing a vertex: the configuration of the known finding (and of C18.holes) is excluded by construction
        ctx.note(cls="mixed:skipped_boundary_loops_touch")
        return
    small = [lp for lp in loops if len(lp) <= 4]
    large = [lp for lp in loops if len(lp) > 4]
    for lp in small:
        if len(lp) == 4:
            for tri in itertools.combinations(lp, 3):
                p, q, r = V[list(tri)]
                if np.linalg.norm(np.cross(q - p, r - p)) < 1e-6 * max(np.linalg.norm(q - p), np.linalg.norm(r - p)) ** 2:
                    ctx.note(cls="mixed:skipped_quad_with_collinear_corners")
                    return
    comps = R.face_components(kept)
    closed_bodies = sum(1 for c in comps if R.is_closed([kept[i] for i in c]))
    large_v = {v for lp in large for v in lp}
    spared = sum(1 for c in comps if not ({v for i in c for v in kept[i]} & large_v))
    shape = "none" if not small else "tri" if all(len(lp) == 3 for lp in small) else "quad" if all(len(lp) == 4 for lp in small) else "tri+quad"
    ctx.note(
        nontrivial=bool(small and large),
        cls=[f"mixed:large_loops={min(len(large), 3)}:small={shape}", f"mixed:small_holes={min(len(small), 4)}", f"mixed:bodies={min(len(comps), 3)}:closed_bodies={min(closed_bodies, 2)}", "mixed:every_body_has_a_large_loop" if not spared else "mixed:a_body_without_large_loop", "mixed:" + spec_label(case["spec"]), "mixed:" + str(case.get("how", "?"))],
    )
    Fk = np.ascontiguousarray(F[keep])
    mesh = trimesh.Trimesh(vertices=V.copy(), faces=Fk.copy(), process=False)
    if case.get("warm"):
        warm_up(mesh)
    ret = mesh.fill_holes()
    G = np.asarray(mesh.faces)
    got = R.faces_list(G)
    new = got[len(keep) :]
    cl = f"large={min(len(large), 2)}|{shape}"
    txt = f"boundary loops of the input: {len(large)} longer than 4 (lengths {[len(lp) for lp in large][:6]}), small {small[:8]} -> returned {ret}, appended {new[:12]}"
    check(np.asarray(mesh.vertices).tobytes() == V.tobytes(), f"C18.holes_mixed|vertices_changed|{cl}", txt)
    check(len(got) >= len(keep) and G[: len(keep)].tobytes() == Fk.tobytes(), f"C18.holes_mixed|old_faces_changed|{cl}", txt)
    # every loop of length 3 / 4 is closed, the longer loops are exactly what is left of the boundary
    left = set(R.boundary_edges(got))
    want_left = {(a, b) if a < b else (b, a) for lp in large for a, b in zip(lp, lp[1:] + lp[:1])}
    still_open = [lp for lp in small if any(((a, b) if a < b else (b, a)) in left for a, b in zip(lp, lp[1:] + lp[:1]))]
    check(not still_open, f"C18.holes_mixed|small_hole_left_open|{cl}", lambda: f"{txt}: still open {still_open}")
    check(left == want_left, f"C18.holes_mixed|boundary_after|{cl}", lambda: f"{txt}: boundary edges after {sorted(left)[:12]}, expected the {len(want_left)} edges of the long loops")
    check(len(new) == sum(len(lp) - 2 for lp in small), f"C18.holes_mixed|new_face_count|{cl}", txt)
    loop_sets = [set(lp) for lp in small]
    check(all(any(set(f) <= ls for ls in loop_sets) for f in new), f"C18.holes_mixed|new_face_off_hole|{cl}", txt)
    check(all(len(v) <= 2 for v in R.undirected_edges(got).values()) and R.is_consistent(got), f"C18.holes_mixed|new_face_winding|{cl}", txt)
    # a missing single triangle comes back as it was
    removed_cyc = {R.cyc(faces0[i]) for i in case["remove"] if 0 <= int(i) < nf}
    for lp in small:
        if len(lp) == 3:
            mine = [R.cyc(f) for f in new if set(f) == set(lp)]
            orig = [c for c in removed_cyc if set(c) == set(lp)]
            if orig:
                check(mine == orig, f"C18.holes_mixed|triangle_not_restored|{cl}", lambda: f"{txt}: got {mine}, removed {orig}")
    check(bool(ret) == R.is_closed(got) and bool(mesh.is_watertight) == R.is_closed(got), f"C18.holes_mixed|return_value|{cl}", f"{txt}: closed afterwards {R.is_closed(got)}, is_watertight {mesh.is_watertight}")
    n_ref, _ = R.unit_normals(V, G)
    n_got = np.asarray(mesh.face_normals)
    check(n_got.shape == n_ref.shape and bool(((n_got * n_ref).sum(axis=1) > 0.999).all()), f"C18.holes_mixed|face_normals_disagree_with_winding|{cl}", txt)


def _face_tables(faces):
    und = R.undirected_edges(faces)
    vfaces = {}
    for i, f in enumerate(faces):
        for v in f:
            vfaces.setdefault(v, []).append(i)

    def neighbours(i):
        a, b, c = faces[i]
        out = set()
        for x, y in ((a, b), (b, c), (c, a)):
            out |= set(und[(x, y) if x < y else (y, x)])
        return out - {i}

    return vfaces, neighbours


def small_hole_candidates(faces, blocked_v):
    """single faces and adjacent pairs none of whose vertices is in blocked_v"""
    ok = [i for i, f in enumerate(faces) if not (set(f) & blocked_v)]
    oks = set(ok)
    return [[i] for i in ok] + [[a, b] for a, b in adjacent_pairs(faces) if a in oks and b in oks]


MIXED_TEMPLATES = ["icos0", "prism5", "uv54", "torus54", "box", "box+octa", "icos0j"]


def enum_mixed(seed):
    """a fan (all faces at one vertex) or both caps / one half removed, then every single face and every adjacent pair
    that keeps clear of the big boundary"""
    k = 0
    for name in MIXED_TEMPLATES:
        spec = HOLE_TEMPLATES[name]
        V, F = meshes.build(spec)
        faces = R.faces_list(F)
        vfaces, _ = _face_tables(faces)
        bigs = [("fan", sorted(vfaces[v])) for v in sorted(vfaces)]
        zc = V[F].mean(axis=1)[:, 2]
        bigs.append(("half", [i for i in range(len(faces)) if zc[i] < np.median(zc) - 1e-9]))
        if name == "prism5":
            n = len(spec["parts"][0]["radii"])
            bigs.append(("tube", sorted(set(vfaces[2 * n]) | set(vfaces[2 * n + 1]))))
        for how, big in bigs:
            if not big or len(faces) - len(big) < 4:
                continue
            blocked = {v for i in big for v in faces[i]}
            for grp in small_hole_candidates(faces, blocked):
                k += 1
                if how == "fan" and (k + seed) % 3:
                    continue  # a third of the fan cases per seed; halves and tubes all
                yield {"spec": spec, "big": big, "remove": grp, "pseed": 0, "warm": bool(k & 1), "how": how}


@st.composite
def mixed_case(draw):
    spec = draw(meshes.mesh_spec(kinds=["box", "octa", "icos", "prism", "torus", "uvsphere", "icos"], max_parts=2, jitter=True, max_faces=120))
    pseed = draw(st.sampled_from([0, 1])) * draw(st.integers(1, 2**31 - 1))
    V, F = scramble(*meshes.build(spec), pseed)
    faces = R.faces_list(F)
    nf = len(faces)
    vfaces, neighbours = _face_tables(faces)
    comps = R.face_components(faces)
    # the large openings: in one body only (the other one stays closed) or anywhere
    where = set(comps[draw(st.integers(0, len(comps) - 1))]) if len(comps) > 1 and draw(st.booleans()) else set(range(nf))
    big, hows = set(), []
    for _ in range(draw(st.integers(1, 2))):
        how = draw(st.sampled_from(["fan", "patch", "half", "fan"]))
        if how == "fan":
            v = draw(st.sampled_from(sorted({x for i in where for x in faces[i]})))
            add = set(vfaces[v])
        elif how == "patch":
            start = draw(st.sampled_from(sorted(where)))
            size = draw(st.integers(3, 10))
            add, frontier = {start}, [start]
            while frontier and len(add) < size:
                cur = frontier.pop(0)
                for j in sorted(neighbours(cur)):
                    if j not in add and len(add) < size:
                        add.add(j)
                        frontier.append(j)
        else:
            body_faces = sorted(set(comps[draw(st.integers(0, len(comps) - 1))]) & where) or sorted(where)
            axis = draw(st.integers(0, 2))
            c = V[F[body_faces]].mean(axis=1)[:, axis]
            cut = float(np.median(c))
            add = {i for i, x in zip(body_faces, c.tolist()) if x < cut - 1e-9}
        big |= add
        hows.append(how)
    blocked = {v for i in big for v in faces[i]}
    remove = []
    for _ in range(draw(st.integers(1, 4))):
        cand = small_hole_candidates(faces, blocked)
        if not cand:
            break
        grp = draw(st.sampled_from(cand))
        remove += grp
        blocked |= {v for i in grp for v in faces[i]}
    return {"spec": spec, "big": sorted(big), "remove": sorted(remove), "pseed": pseed, "warm": draw(st.booleans()), "how": "+".join(sorted(set(hows)))}


@subcheck("C18", "holes_mixed", shards={"quick": 8, "thorough": 16})
def s_holes_mixed(ctx):
    ctx.enumerate("C18.holes_mixed", enum_mixed(ctx.seed), label="fan_or_half_or_caps_removed_on_7_templates_x_every_clear_single_face_and_adjacent_pair", complete=False)
    ctx.given("C18.holes_mixed", mixed_case(), n={"quick": 1000, "thorough": 25000})


@subcheck("C18", "holes_enum", shards={"quick": 8, "thorough": 8})
def s_holes_enum(ctx):
    ctx.enumerate("C18.holes", enum_holes(ctx.seed), label="every_single_face_and_every_adjacent_pair_removed_on_12_templates_x_2_labelings")


@subcheck("C18", "holes_hyp", shards={"quick": 8, "thorough": 16})
def s_holes_hyp(ctx):
    ctx.given("C18.holes", holes_case(), n={"quick": 1600, "thorough": 40000})


# ------------------------------------------------------------------------------------------ subdivide


def open_mesh(case):
    """(V, F) of the case after removing case['remove'] faces; vertices left unreferenced are dropped unless
    case['keep_unreferenced']"""
    V, F = build_case(case)
    rem = {int(i) for i in case.get("remove") or [] if 0 <= int(i) < len(F)}
    if rem and len(rem) < len(F):
        F = F[[i for i in range(len(F)) if i not in rem]]
        if not case.get("keep_unreferenced"):
            used = np.unique(F)
            new = -np.ones(len(V), dtype=np.int64)
            new[used] = np.arange(len(used))
            V, F = V[used], new[F]
    V, F = make_dirty(V, F, case.get("dirty"))
    return np.ascontiguousarray(V), np.ascontiguousarray(F)


def make_dirty(V, F, d):
    """Legitimate but unwelded descriptions of a surface (all by exact copies, so positions coincide bit for bit):
    gscale  - the whole mesh scaled (1e-8: every vertex within tol.merge of every other)
    twin    - a second copy of the mesh, translated so that one of its vertices lands on a vertex of the original
              ('touch') or not translated at all ('same'): touching / coincident bodies with separate vertices
    unweld  - k faces get private copies of their corners ('private') or share one set of copies ('patch': a patch cut
              out along a seam of duplicated vertices)
    extra   - unreferenced vertices (half of them copies of referenced ones), then a vertex relabelling so that they sit
              at arbitrary indices"""
    if not d:
        return V, F
    rs = np.random.RandomState(int(d.get("seed", 0)) & 0x7FFFFFFF)
    V, F = np.array(V, dtype=np.float64), np.array(F, dtype=np.int64)
    if d.get("gscale"):
        V = V * float(d["gscale"])
    if d.get("twin"):
        i, j = int(rs.randint(len(V))), int(rs.randint(len(V)))
        t = V[i] - V[j] if d["twin"] == "touch" else np.zeros(3)
        F = np.vstack((F, F + len(V)))
        V = np.vstack((V, V + t))
    if d.get("unweld"):
        k = min(int(d["unweld"]), len(F))
        chosen = rs.choice(len(F), size=k, replace=False)
        add, shared = [], {}
        for f in chosen.tolist():
            for c in range(3):
                v = int(F[f, c])
                if d.get("unweld_mode") == "patch":
                    if v not in shared:
                        shared[v] = len(V) + len(add)
                        add.append(V[v])
                    F[f, c] = shared[v]
                else:
                    F[f, c] = len(V) + len(add)
                    add.append(V[v])
        V = np.vstack((V, np.array(add).reshape((-1, 3))))
    if d.get("extra"):
        m = int(d["extra"])
        lo, hi = V.min(axis=0), V.max(axis=0)
        pts = [V[int(rs.randint(len(V)))] if q % 2 == 0 else lo + rs.uniform(0, 1, 3) * (hi - lo) for q in range(m)]
        V = np.vstack((V, np.array(pts).reshape((-1, 3))))
        perm = rs.permutation(len(V))
        V2 = np.empty_like(V)
        V2[perm] = V
        V, F = V2, perm[F]
    return V, F


def dirty_label(case):
    d = case.get("dirty")
    if not d:
        return "dirty=no"
    keys = [k for k in ("gscale", "twin", "unweld", "extra") if d.get(k)]
    return "dirty=" + ("+".join(keys) or "no")


def coincident_pairs(V):
    """number of vertices that share their exact position with another vertex"""
    _, inv, cnt = np.unique(np.asarray(V), axis=0, return_inverse=True, return_counts=True)
    return int((cnt[inv.reshape(-1)] > 1).sum())


@st.composite
def dirty(draw, nf):
    """-> (dirty dict or None, face count after it)"""
    kind = draw(st.sampled_from(["no", "no", "twin", "unweld", "extra", "gscale", "mix"]))
    if kind == "no":
        return None, nf
    d = {"seed": draw(st.integers(0, 2**31 - 1))}
    if kind in ("twin", "mix") and nf <= 60:
        d["twin"] = draw(st.sampled_from(["touch", "touch", "same"]))
        nf *= 2
    if kind in ("unweld", "mix"):
        d["unweld"] = draw(st.integers(1, 8))
        d["unweld_mode"] = draw(st.sampled_from(["private", "patch"]))
    if kind in ("extra", "mix"):
        d["extra"] = draw(st.integers(1, 4))
    if kind == "gscale" or (kind == "mix" and draw(st.booleans())):
        d["gscale"] = draw(st.sampled_from([1e-8, 1e-8, 1e-4, 1e4]))
    return d, nf


def mesh_class(faces, nbodies_closed=None):
    closed = R.is_closed(faces)
    nb = len(R.face_components(faces))
    return f"{'closed' if closed else 'open'}:bodies={min(nb, 3)}", closed, nb


def area_tol(V, F_children, nf):
    # a midpoint is rounded once per coordinate (<= eps/2 * |coordinate|); moving a corner by d changes a triangle's
    # area by at most d * (opposite edge)/2; the area formula itself carries a few eps per face
    maxabs = float(np.abs(V).max()) if len(V) else 0.0
    return 4.0 * EPS * maxabs * R.perimeter_sum(V, F_children) + 16.0 * EPS * R.area(V, F_children)


def check_children_inside(Vn, child_faces, tri, scale, sig, txt):
    P = Vn[np.asarray(child_faces, dtype=np.int64).reshape(-1)]
    bary, dist = R.barycentric(P, tri)
    tol = 1e-9
    check(bool((bary >= -tol).all()) and bool((dist <= tol * scale).all()), sig, lambda: f"{txt}: barycentric min {bary.min()!r}, plane distance max {dist.max()!r}")


SUBSET_FORMS = ["int64", "int32", "uint8", "list", "reversed", "unsorted", "repeated", "negative", "mixed_sign_repeated", "bool", "bool_list"]


def subset_argument(subset, nf, form, fseed):
    """the same face subset written in the ways an index argument can be written (numpy index semantics: order and
    repetition do not matter, -k counts from the end, a boolean array of length F selects where True)"""
    if subset is None:
        return None
    rs = np.random.RandomState(fseed & 0x7FFFFFFF)
    idx = [int(i) for i in subset]
    if form == "int64":
        return np.array(idx, dtype=np.int64)
    if form == "int32":
        return np.array(idx, dtype=np.int32)
    if form == "uint8":
        return np.array(idx, dtype=np.uint8) if all(i < 256 for i in idx) else np.array(idx, dtype=np.int64)
    if form == "list":
        return list(idx)
    if form == "reversed":
        # (a python tuple would be a multi-dimensional index for numpy and is not a documented form)
        return np.array(idx[::-1], dtype=np.int64)
    if form == "unsorted":
        return [idx[i] for i in rs.permutation(len(idx))]
    if form in ("repeated", "mixed_sign_repeated"):
        extra = [idx[int(i)] for i in rs.randint(0, len(idx), size=1 + len(idx) // 2)] if idx else []
        out = idx + extra
        out = [out[i] for i in rs.permutation(len(out))]
        if form == "mixed_sign_repeated":
            out = [i - nf if rs.randint(2) else i for i in out]
        return np.array(out, dtype=np.int64) if rs.randint(2) else out
    if form == "negative":
        return np.array([i - nf for i in idx], dtype=np.int64)
    mask = np.zeros(nf, dtype=bool)
    mask[idx] = True
    return mask if form == "bool" else mask.tolist()


@body("C18.subdivide")
def b_subdivide(case, ctx):
    V, F = open_mesh(case)
    faces0 = R.faces_list(F)
    nf, nv = len(faces0), len(V)
    cls, closed, nb = mesh_class(faces0)
    subset = case.get("subset")
    if subset is not None:
        subset = [int(i) % nf for i in subset]
    proper = subset is not None and 0 < len(set(subset)) < nf
    rounds = int(case.get("rounds", 1)) if subset is None else 1
    sub_l = "all" if subset is None else ("empty" if not subset else ("proper" if proper else "every_face_listed"))
    form = "none" if subset is None else str(case.get("form", "int64"))
    ctx.note(nontrivial=bool(nb >= 2 or not closed or proper), cls=[f"subdivide:{cls}:{sub_l}", "subdivide:" + spec_label(case["spec"]), f"subdivide:rounds={rounds}", f"subdivide:form={form}:{sub_l}", "subdivide:" + dirty_label(case), "subdivide:coincident_vertices" if coincident_pairs(V) else "subdivide:distinct_vertices"])
    scale = float(np.abs(V).max())
    mesh = trimesh.Trimesh(vertices=V.copy(), faces=F.copy(), process=False)
    # tagged vertex attributes: (i, i*i) identifies the two end points of the edge a new vertex was put on
    idx = np.arange(nv, dtype=np.float64)
    mesh.vertex_attributes["tag"] = np.column_stack((idx, idx * idx))
    if case.get("warm"):
        warm_up(mesh)
    arg = subset_argument(subset, nf, form, int(case.get("fseed", 0)))
    res = mesh
    for _ in range(rounds):
        res = res.subdivide(face_index=arg)
    Vn, Fn = np.asarray(res.vertices), np.asarray(res.faces)
    new = R.faces_list(Fn)
    tag = f"{sub_l}|{cls.split(':')[0]}" + ("" if form in ("none", "int64", "list") else f"|form={form}")
    check(np.asarray(mesh.vertices).tobytes() == V.tobytes() and np.asarray(mesh.faces).tobytes() == F.tobytes(), f"C18.subdivide|source_mesh_altered|{tag}", "")
    check(len(Vn) >= nv and Vn[:nv].tobytes() == V.tobytes(), f"C18.subdivide|original_vertices_changed|{tag}", "first V vertices differ")
    nsub = nf if subset is None else len(set(subset))
    want_f = nf * 4**rounds if subset is None else nf + 3 * nsub
    check(len(new) == want_f, f"C18.subdivide|face_count|{tag}", f"{len(new)} faces, expected {want_f}")
    check(all(0 <= v < len(Vn) for f in new for v in f) and all(len(set(f)) == 3 for f in new), f"C18.subdivide|face_indices|{tag}", "index out of range or repeated inside a face")
    # one new vertex per edge (edges by vertex INDEX: coincident positions stay separate vertices), nothing dropped
    ne = len(R.undirected_edges(faces0 if subset is None else [faces0[i] for i in sorted(set(subset))]))
    want_v, e_k, f_k = nv, ne, nf
    for _ in range(rounds):
        want_v, e_k, f_k = want_v + e_k, 2 * e_k + 3 * f_k, 4 * f_k
    check(len(Vn) == want_v, f"C18.subdivide|vertex_count|{tag}", f"{nv} vertices, {ne} edges subdivided {rounds}x -> {len(Vn)} vertices, expected {want_v}")
    a0, a1 = R.area(V, F), R.area(Vn, Fn)
    check(abs(a1 - a0) <= rounds * area_tol(Vn, Fn, len(new)), f"C18.subdivide|area|{tag}", f"area {a0!r} -> {a1!r}")
    check(abs(float(res.area) - a0) <= rounds * area_tol(Vn, Fn, len(new)) + 64 * EPS * a0, f"C18.subdivide|area_property|{tag}", f"area {a0!r} -> result.area {float(res.area)!r}")
    (v0, t0), (v1, t1) = R.signed_volume(V, F), R.signed_volume(Vn, Fn)
    check(abs(v1 - v0) <= rounds * vol_tol(t0 + t1), f"C18.subdivide|volume|{tag}", f"signed volume {v0!r} -> {v1!r}")
    if subset is None:
        check(R.is_closed(new) == closed and bool(res.is_watertight) == closed, f"C18.subdivide|watertight|{tag}", f"closed {closed} -> {R.is_closed(new)} / is_watertight {res.is_watertight}")
        check(R.is_consistent(new) and bool(res.is_winding_consistent), f"C18.subdivide|winding|{tag}", "children are not consistently wound")
        check(R.euler_number(new) == R.euler_number(faces0) and int(res.euler_number) == R.euler_number(faces0), f"C18.subdivide|euler|{tag}", f"euler {R.euler_number(faces0)} -> {R.euler_number(new)} / {res.euler_number}")
        check(len(R.face_components(new)) == nb, f"C18.subdivide|body_count|{tag}", "")
        if closed:
            check(abs(float(res.volume) - v0) <= rounds * vol_tol(t0 + t1) + 64 * EPS * t0, f"C18.subdivide|volume_property|{tag}", f"{v0!r} -> result.volume {float(res.volume)!r}")
    else:
        keep = sorted(faces0[i] for i in range(nf) if i not in set(subset))
        kept_new = sorted(f for f in new if all(v < nv for v in f) and f in set(keep))
        check(kept_new == keep, f"C18.subdivide|untouched_faces_changed|{tag}", "faces outside face_index are not all retained as they were")
    if rounds == 1:
        # every new vertex is the midpoint of an edge of a subdivided face, tags are averaged with it
        tg = np.asarray(res.vertex_attributes["tag"])
        check(tg.shape == (len(Vn), 2) and np.array_equal(tg[:nv], np.column_stack((idx, idx * idx))), f"C18.subdivide|attributes_of_original_vertices|{tag}", "")
        und = R.undirected_edges([faces0[i] for i in (range(nf) if subset is None else sorted(set(subset)))])
        seen = set()
        for j in range(nv, len(Vn)):
            s2, q2 = 2.0 * tg[j, 0], 2.0 * tg[j, 1]  # i + j, i^2 + j^2
            d2 = 2.0 * q2 - s2 * s2  # (i - j)^2
            d = math.sqrt(d2) if d2 >= 0 else float("nan")
            a, b = (s2 - d) / 2.0, (s2 + d) / 2.0
            ok = d == d and a == int(a) and b == int(b) and (int(a), int(b)) in und
            check(ok, f"C18.subdivide|attribute_not_edge_mean|{tag}", lambda: f"new vertex {j} has tag {tg[j].tolist()}")
            a, b = int(a), int(b)
            mid = (V[a] + V[b]) / 2.0
            check(bool((np.abs(Vn[j] - mid) <= 2 * EPS * scale).all()), f"C18.subdivide|new_vertex_not_midpoint|{tag}", lambda: f"vertex {j} = {Vn[j].tolist()}, midpoint of {a},{b} = {mid.tolist()}")
            seen.add((a, b))
        check(seen == set(und) and len(Vn) - nv == len(und), f"C18.subdivide|one_midpoint_per_edge|{tag}", f"{len(Vn) - nv} new vertices for {len(und)} edges")
        # the free function with return_index: children of face i tile face i
        Vr, Fr, index = remesh.subdivide(V.copy(), F.copy(), face_index=arg, return_index=True)
        check(np.asarray(Vr).tobytes() == Vn.tobytes() and np.array_equal(Fr, Fn), f"C18.subdivide|return_index_changes_result|{tag}", "")
        want_keys = sorted(range(nf) if subset is None else set(subset))
        check(sorted(int(k) for k in index.keys()) == want_keys, f"C18.subdivide|index_keys|{tag}", f"{sorted(int(k) for k in index.keys())[:10]} vs {want_keys[:10]}")
        fa = R.face_areas(Vr, Fr)
        fa0 = R.face_areas(V, F)
        claimed = []
        for k, ch in index.items():
            ch = [int(c) for c in np.asarray(ch).reshape(-1)]
            claimed += ch
            check(len(ch) == 4 and all(0 <= c < len(Fr) for c in ch), f"C18.subdivide|index_range|{tag}", f"face {k} -> {ch} of {len(Fr)}")
            check_children_inside(np.asarray(Vr), Fr[ch], V[F[int(k)]], scale, f"C18.subdivide|index_child_outside_parent|{tag}", f"face {int(k)} -> children {ch}")
            check(abs(float(fa[ch].sum()) - float(fa0[int(k)])) <= 1e-9 * float(fa0[int(k)]) + 64 * EPS * scale * scale, f"C18.subdivide|index_children_area|{tag}", f"face {int(k)}")
        check(len(set(claimed)) == len(claimed), f"C18.subdivide|index_overlap|{tag}", "a new face is listed for two source faces")


@st.composite
def open_spec(draw, max_parts=2, max_faces=100, p_open=0.5, kinds=None):
    spec = draw(meshes.mesh_spec(kinds=kinds or CLOSED_KINDS, max_parts=max_parts, jitter=True, max_faces=max_faces))
    nf = meshes.n_faces(spec)
    remove = []
    if draw(st.floats(0, 1)) < p_open:
        remove = draw(st.lists(st.integers(0, nf - 1), min_size=1, max_size=max(1, min(6, nf - 3)), unique=True))
    case = {"spec": spec, "remove": sorted(remove), "pseed": draw(st.sampled_from([0, 1])) * draw(st.integers(1, 2**31 - 1))}
    d, nf2 = draw(dirty(nf - len(remove)))
    if d:
        case["dirty"] = d
    return case, nf2


@st.composite
def subdivide_case(draw):
    case, nf = draw(open_spec())
    mode = draw(st.sampled_from(["all", "all", "subset", "subset", "single", "every", "empty"]))
    if mode == "all":
        case["subset"] = None
        case["rounds"] = draw(st.sampled_from([1, 1, 2])) if nf <= 60 else 1
    elif mode == "subset":
        case["subset"] = draw(st.lists(st.integers(0, nf - 1), min_size=1, max_size=nf, unique=True))
    elif mode == "single":
        case["subset"] = [draw(st.integers(0, nf - 1))]
    elif mode == "every":
        case["subset"] = list(draw(st.permutations(list(range(nf)))))
    else:
        case["subset"] = []
    case["warm"] = draw(st.booleans())
    case["form"] = draw(st.sampled_from(SUBSET_FORMS))
    case["fseed"] = draw(st.integers(0, 2**31 - 1))
    return case


def enum_subsets(names, stride, offset):
    k = 0
    for name in names:
        spec = ENUM_TEMPLATES[name]
        nf = meshes.n_faces(spec)
        for bits in range(offset, 2**nf, stride):
            subset = [i for i in range(nf) if bits >> i & 1]
            for form in SUBSET_FORMS:
                k += 1
                yield {"spec": spec, "remove": [], "pseed": 0, "subset": subset, "form": form, "fseed": k, "warm": bool(k & 1)}


@subcheck("C18", "subdivide_forms", shards={"quick": 4, "thorough": 8})
def s_subdivide_forms(ctx):
    ctx.enumerate("C18.subdivide", enum_subsets(["tetra"], 1, 0), label="every_face_subset_of_tetra_x_11_ways_of_writing_face_index")
    if ctx.tier == "quick":
        ctx.enumerate("C18.subdivide", enum_subsets(["octa"], 4, ctx.seed % 4), label="face_subsets_of_octa_x_11_forms_every_4th", complete=False)
    else:
        ctx.enumerate("C18.subdivide", enum_subsets(["octa", "tetra+tetra"], 1, 0), label="every_face_subset_of_octa_and_tetra+tetra_x_11_ways_of_writing_face_index")


@subcheck("C18", "subdivide", shards={"quick": 8, "thorough": 16})
def s_subdivide(ctx):
    ctx.given("C18.subdivide", subdivide_case(), n={"quick": 1200, "thorough": 30000})


# ------------------------------------------------------------------------------------------ subdivide_to_size


@body("C18.to_size")
def b_to_size(case, ctx):
    V, F = open_mesh(case)
    faces0 = R.faces_list(F)
    nf = len(faces0)
    cls, closed, nb = mesh_class(faces0)
    L = R.edge_lengths(V, F)  # (nf, 3)
    longest = float(L.max())
    max_edge = float(case["ratio"]) * longest
    max_iter = int(case["max_iter"])
    ret_index = bool(case.get("return_index", True))
    # iterations each face needs: smallest k with (longest edge of the face) / 2^k <= max_edge
    per_face = L.max(axis=1)
    need = np.array([0 if x <= max_edge else int(math.ceil(math.log2(x / max_edge) - 1e-12)) for x in per_face.tolist()])
    for i, x in enumerate(per_face.tolist()):
        k = int(need[i])
        while x / 2.0**k > max_edge:
            k += 1
        while k > 0 and x / 2.0 ** (k - 1) <= max_edge:
            k -= 1
        need[i] = k
    needed = int(need.max())
    # halving is exact, but midpoints are rounded: an edge within 1e-9 (relative) of the bound may go either way
    ambiguous = any(abs(x / 2.0**k - max_edge) <= 1e-9 * max_edge for x in L.reshape(-1).tolist() for k in range(0, needed + 2))
    expect_raise = needed > max_iter
    mixed = len(set(need.tolist())) > 1
    ctx.note(
        nontrivial=bool(nb >= 2 or not closed or mixed),
        cls=[f"to_size:{cls}:{'raise' if expect_raise else 'ok'}:need={min(needed, 4)}", "to_size:mixed_depth" if mixed else "to_size:uniform_depth", "to_size:expect_raise" if expect_raise else "to_size:expect_ok", "to_size:" + spec_label(case["spec"]), f"to_size:return_index={ret_index}", "to_size:" + dirty_label(case)],
    )
    if needed > 5:
        return  # generator bound: at most 4^5 children per face
    mesh = trimesh.Trimesh(vertices=V.copy(), faces=F.copy(), process=False)
    tag = "index" if ret_index else "plain"
    try:
        out = mesh.subdivide_to_size(max_edge=max_edge, max_iter=max_iter, return_index=ret_index)
        raised = False
    except ValueError as e:
        # documented / coded: 'max_iter exceeded!'
        check("max_iter" in str(e), f"C18.to_size|exc|ValueError_other|{tag}", str(e))
        raised = True
    txt = f"max_edge={max_edge!r} (= {case['ratio']} x longest), max_iter={max_iter}, needed {needed}"
    if raised:
        check(expect_raise or ambiguous, f"C18.to_size|raised_although_max_iter_suffices|{tag}", txt)
        return
    check((not expect_raise) or ambiguous, f"C18.to_size|no_error_with_insufficient_max_iter|{tag}", txt)
    res, index = (out if ret_index else (out, None))
    Vn, Fn = np.asarray(res.vertices), np.asarray(res.faces)
    new = R.faces_list(Fn)
    # the soup is compact (no unused vertices) and the Trimesh method hands on what the function computed
    check(len(np.unique(Fn)) == len(Vn), f"C18.to_size|unreferenced_vertices_in_result|{tag}", f"{len(Vn)} vertices, {len(np.unique(Fn))} referenced")
    fv, ff = remesh.subdivide_to_size(V.copy(), F.copy(), max_edge=max_edge, max_iter=max_iter)[:2]
    check(np.asarray(fv).tobytes() == Vn.tobytes() and np.array_equal(ff, Fn), f"C18.to_size|method_differs_from_function|{tag}", f"function: {len(fv)} vertices {len(ff)} faces, method: {len(Vn)} vertices {len(Fn)} faces")
    check(all(0 <= v < len(Vn) for f in new for v in f) and all(len(set(f)) == 3 for f in new), f"C18.to_size|face_indices|{tag}", "index out of range or repeated inside a face")
    Ln = R.edge_lengths(Vn, Fn)
    check(bool((Ln <= max_edge * (1 + 8 * EPS)).all()), f"C18.to_size|edge_longer_than_max_edge|{tag}", lambda: f"{txt}: longest edge in the result {float(Ln.max())!r}")
    a0, a1 = R.area(V, F), R.area(Vn, Fn)
    depth = max(needed, 1)
    check(abs(a1 - a0) <= depth * area_tol(Vn, Fn, len(new)), f"C18.to_size|area|{tag}", f"{txt}: area {a0!r} -> {a1!r}")
    (v0, t0), (v1, t1) = R.signed_volume(V, F), R.signed_volume(Vn, Fn)
    check(abs(v1 - v0) <= depth * vol_tol(t0 + t1), f"C18.to_size|volume|{tag}", f"{txt}: signed volume {v0!r} -> {v1!r}")
    if not ambiguous:
        check(len(new) == int((4 ** need).sum()), f"C18.to_size|face_count|{tag}", f"{txt}: {len(new)} faces, expected {int((4 ** need).sum())}")
    if index is not None:
        index = np.asarray(index)
        check(index.shape == (len(new),) and bool(((index >= 0) & (index < nf)).all()), f"C18.to_size|index_shape|{tag}", f"{index.shape} for {len(new)} faces")
        fa, fa0 = R.face_areas(Vn, Fn), R.face_areas(V, F)
        scale = float(np.abs(V).max())
        sums = np.bincount(index, weights=fa, minlength=nf)
        bad = np.nonzero(np.abs(sums - fa0) > 1e-9 * fa0 + 64 * EPS * scale * scale)[0]
        check(len(bad) == 0, f"C18.to_size|index_children_area|{tag}", lambda: f"{txt}: faces {bad[:8].tolist()} have area {fa0[bad[:8]].tolist()}, their listed children {sums[bad[:8]].tolist()}")
        order = np.argsort(index, kind="stable")
        bounds = np.searchsorted(index[order], np.arange(nf + 1))
        for i in range(nf):
            ch = order[bounds[i] : bounds[i + 1]]
            check(len(ch) > 0, f"C18.to_size|index_face_without_children|{tag}", f"face {i}")
            check_children_inside(Vn, Fn[ch], V[F[i]], scale, f"C18.to_size|index_child_outside_source_face|{tag}", f"{txt}: face {i}")
        # the same call without the index gives the same soup
        plain = mesh.subdivide_to_size(max_edge=max_edge, max_iter=max_iter)
        check(np.asarray(plain.vertices).tobytes() == Vn.tobytes() and np.array_equal(plain.faces, Fn), f"C18.to_size|return_index_changes_result|{tag}", "")


@st.composite
def to_size_case(draw):
    case, nf = draw(open_spec(max_faces=60))
    # ratios around the powers of two so that faces of one mesh need different depths
    base = draw(st.sampled_from([1.0, 0.5, 0.5, 0.25, 0.25, 0.125]))
    case["ratio"] = base * draw(st.floats(0.55, 1.45))
    need_guess = max(0, int(math.ceil(-math.log2(case["ratio"]))))
    case["max_iter"] = max(0, need_guess + draw(st.sampled_from([-2, -1, -1, 0, 0, 0, 1, 5])))
    case["return_index"] = draw(st.sampled_from([True, True, False]))
    return case


@subcheck("C18", "to_size", shards={"quick": 8, "thorough": 16})
def s_to_size(ctx):
    ctx.given("C18.to_size", to_size_case(), n={"quick": 800, "thorough": 20000})


# ------------------------------------------------------------------------------------------ subdivide_loop


def boundary_profile(faces, nv):
    """(boundary degree per vertex, has an interior edge joining two boundary vertices)"""
    und = R.undirected_edges(faces)
    deg = [0] * nv
    for (a, b), fs in und.items():
        if len(fs) == 1:
            deg[a] += 1
            deg[b] += 1
    chord = any(len(fs) == 2 and deg[a] > 0 and deg[b] > 0 for (a, b), fs in und.items())
    return deg, chord


@body("C18.loop")
def b_loop(case, ctx):
    from scipy.spatial import cKDTree

    V, F = open_mesh(case)
    faces0 = R.faces_list(F)
    nf, nv = len(faces0), len(V)
    it = int(case.get("iterations") or 1)
    cls, closed, nb = mesh_class(faces0)
    deg, chord = boundary_profile(faces0, nv)
    unref = sorted(set(range(nv)) - {v for f in faces0 for v in f})
    nonmanifold_bnd = any(d not in (0, 2) for d in deg)
    # reference: the docstring masks applied `it` times; a chord (interior edge joining two boundary vertices) can
    # also appear in a later round (inner child of a face with two boundary edges)
    Vr, fr, kmax, ref_ok = V, faces0, 3, not (nonmanifold_bnd or unref)
    for _ in range(it):
        if not ref_ok:
            break
        d, c = boundary_profile(fr, len(Vr))
        if any(x not in (0, 2) for x in d):
            ref_ok = False
            break
        chord = chord or c
        val = [0] * len(Vr)
        for a, b in R.undirected_edges(fr):
            val[a] += 1
            val[b] += 1
        kmax = max(kmax, max(val))
        Vr, fr = R.loop_step(Vr, fr)
    kind = "closed" if closed else ("bnd_nonmanifold" if nonmanifold_bnd else ("bnd_chord" if chord else "bnd_simple"))
    if unref:
        kind += "+unreferenced_vertex"
    ctx.note(nontrivial=bool(nb >= 2 or not closed), cls=[f"loop:{kind}:bodies={min(nb, 3)}", f"loop:iterations={it}", "loop:" + spec_label(case["spec"]), "loop:arg_none" if case.get("iterations") is None else "loop:arg_int", "loop:" + dirty_label(case)])
    mesh = trimesh.Trimesh(vertices=V.copy(), faces=F.copy(), process=False)
    try:
        res = mesh.subdivide_loop(iterations=case.get("iterations"))
    except Exception as e:  # noqa
        if unref and isinstance(e, AssertionError):
            raise Violation("C18.loop|exc|AssertionError|unreferenced_vertex", f"subdivide_loop raises on a mesh with unreferenced vertices {unref[:5]} ({nv} vertices, {nf} faces)")
        raise
    Vn, Fn = np.asarray(res.vertices), np.asarray(res.faces)
    new = R.faces_list(Fn)
    check(np.asarray(mesh.vertices).tobytes() == V.tobytes() and np.asarray(mesh.faces).tobytes() == F.tobytes(), f"C18.loop|source_mesh_altered|{kind}", "")
    check(len(new) == nf * 4**it, f"C18.loop|face_count|{kind}", f"{len(new)} vs {nf}*4^{it}")
    want_v, e_k, f_k = nv, len(R.undirected_edges(faces0)), nf
    for _ in range(it):
        want_v, e_k, f_k = want_v + e_k, 2 * e_k + 3 * f_k, 4 * f_k
    check(len(Vn) == want_v, f"C18.loop|vertex_count|{kind}", f"{nv} vertices and {len(R.undirected_edges(faces0))} edges, {it} iterations -> {len(Vn)} vertices, expected {want_v}")
    check(all(0 <= v < len(Vn) for f in new for v in f) and all(len(set(f)) == 3 for f in new), f"C18.loop|face_indices|{kind}", "")
    check(R.is_closed(new) == closed and bool(res.is_watertight) == closed, f"C18.loop|watertight|{kind}", f"closed {closed} -> {R.is_closed(new)}")
    check(R.is_consistent(new), f"C18.loop|winding|{kind}", "")
    check(R.euler_number(new) == R.euler_number(faces0), f"C18.loop|euler|{kind}", f"{R.euler_number(faces0)} -> {R.euler_number(new)}")
    check(int(res.euler_number) == R.euler_number(faces0) + (0 if not unref else 0), f"C18.loop|euler_property|{kind}", f"{R.euler_number(faces0)} -> {res.euler_number}")
    check(len(R.face_components(new)) == nb, f"C18.loop|body_count|{kind}", "")
    nb0 = len(R.boundary_edges(faces0))
    check(len(R.boundary_edges(new)) == nb0 * 2**it, f"C18.loop|boundary_edge_count|{kind}", f"{nb0} boundary edges -> {len(R.boundary_edges(new))}")
    if not ref_ok:
        return
    # positions: vertices are matched by position, not by index
    maxabs = float(np.abs(V).max())
    tol = 16.0 * it * (kmax + 2) * EPS * maxabs
    tree = cKDTree(Vr)
    sep = tree.query(Vr, k=2)[0][:, 1].min()
    if sep < 1e3 * tol:
        ctx.note(cls="loop:reference_vertices_not_separated")
        return
    dist, match = cKDTree(Vr).query(Vn, k=1)
    bsig = f"C18.loop|positions_differ_from_docstring_masks|{kind}"
    if float(dist.max()) > tol:
        j = int(np.argmax(dist))
        # which kind of vertex is off: an original (even) vertex on the boundary / inside, or an edge (odd) vertex
        where = "unknown"
        if it == 1 and j < nv and np.linalg.norm(Vn[j] - Vr[j]) == dist[j]:
            where = "even_boundary" if deg[j] else "even_interior"
        elif it == 1:
            where = "odd_or_reordered"
        raise Violation(bsig, f"{int((dist > tol).sum())} of {len(Vn)} vertices are further than {tol:.2e} from every vertex of the reference; worst {j} ({where}) at {Vn[j].tolist()}, distance {float(dist[j]):.3e}")
    check(len(set(match.tolist())) == len(Vr) == len(Vn), f"C18.loop|vertex_count|{kind}", f"{len(Vn)} vertices, reference has {len(Vr)}, {len(set(match.tolist()))} matched")
    got_faces = sorted(R.cyc(tuple(int(match[v]) for v in f)) for f in new)
    check(got_faces == sorted(R.cyc(f) for f in fr), f"C18.loop|faces_differ_from_reference|{kind}", "after matching vertices by position the oriented face sets differ")


@st.composite
def loop_case(draw):
    case, nf = draw(open_spec(max_faces=80, p_open=0.6))
    if case["remove"] and draw(st.integers(0, 9)) == 0:
        case["keep_unreferenced"] = True
    it = draw(st.sampled_from([None, 1, 1, 2, 2, 3]))
    if (it or 1) == 3 and nf > 40:
        it = 2
    if (it or 1) == 2 and nf > 100:
        it = 1
    case["iterations"] = it
    return case


LOOP_TEMPLATES = ["tetra", "octa", "box", "icos0", "prism5", "torus33", "uv33", "box+octa"]


def enum_loop(seed):
    """every template closed, with every single face removed, and (box, octa) with every pair of faces removed"""
    for name in LOOP_TEMPLATES:
        spec = HOLE_TEMPLATES[name]
        nf = meshes.n_faces(spec)
        yield {"spec": spec, "remove": [], "pseed": 0, "iterations": 2}
        for i in range(nf):
            yield {"spec": spec, "remove": [i], "pseed": 0 if i % 2 else 77 + seed, "iterations": 1 + i % 2}
        if name in ("box", "octa"):
            for a, b in itertools.combinations(range(nf), 2):
                yield {"spec": spec, "remove": [a, b], "pseed": 0, "iterations": 1}


@subcheck("C18", "loop_enum", shards={"quick": 4, "thorough": 8})
def s_loop_enum(ctx):
    ctx.enumerate("C18.loop", enum_loop(ctx.seed), label="loop_on_8_templates_closed_and_every_single_face_removed_and_every_face_pair_of_box_octa")


@subcheck("C18", "loop_hyp", shards={"quick": 8, "thorough": 16})
def s_loop_hyp(ctx):
    ctx.given("C18.loop", loop_case(), n={"quick": 700, "thorough": 16000})


REQUIRED_CLASSES["C18"] = [
    "fix_normals:method:mb=None:bodies=2:whole_bodies",
    "fix_normals:method:mb=True:bodies=1:proper",
    "fix_normals:method:mb=False:bodies=2:proper",
    "fix_normals:process:mb=None:bodies=2:proper",
    "fix_normals:bodies=2:genus=1:jitter",
    "fix_normals:warm",
    "holes:tri:1",
    "holes:quad:1",
    "holes:tri:many:touch1",
    "holes:tri+quad:many:disjoint",
    "holes:bodies=1:genus=1:exact",
    "fix_normals:mb=None:scale_ratio>=1e3",
    "fix_normals:mb=True:scale_ratio>=1e3",
    "subdivide:dirty=twin",
    "subdivide:dirty=unweld",
    "subdivide:dirty=extra",
    "subdivide:dirty=gscale",
    "subdivide:coincident_vertices",
    "to_size:dirty=twin",
    "loop:dirty=unweld",
    "loop:dirty=extra",
    "mixed:large_loops=1:small=tri",
    "mixed:large_loops=1:small=quad",
    "mixed:large_loops=1:small=tri+quad",
    "mixed:large_loops=2:small=tri",
    "mixed:a_body_without_large_loop",
    "mixed:small_holes=3",
    "subdivide:form=repeated:proper",
    "subdivide:form=mixed_sign_repeated:proper",
    "subdivide:form=negative:proper",
    "subdivide:form=bool:proper",
    "subdivide:form=bool_list:proper",
    "subdivide:form=int32:proper",
    "subdivide:form=list:proper",
    "subdivide:closed:bodies=2:all",
    "subdivide:open:bodies=1:proper",
    "subdivide:rounds=2",
    "to_size:mixed_depth",
    "to_size:expect_raise",
    "to_size:expect_ok",
    "loop:closed:bodies=1",
    "loop:bnd_simple:bodies=1",
    "loop:bnd_simple:bodies=2",
    "loop:iterations=3",
]
